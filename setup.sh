#!/bin/bash
# Offline setup: build the vendor directory from the on-disk cargo registry caches, then build the engine.
set -euo pipefail
cd "$(dirname "$0")"
export CARGO_NET_OFFLINE=true
WORK=/verif/.work
mkdir -p "$WORK"
python3 tools/mkvendor.py "$WORK/vendor"
cd engine
cargo +stable build --release 2>&1 | grep -E "^error|Finished|could not" -A8 || true
test -x "$WORK/target/release/mfv"
# coverage-guided driver for the thorough tier (nightly + cargo-fuzz); not needed by quick checks
( cd fuzz && cp -f ../Cargo.lock . && cargo +nightly fuzz build -O -s none --target-dir "$WORK/fuzz-target" 2>&1 | grep -E "^error|Finished" -A6 ) || echo "note: fuzz target not built"
echo "setup ok"
