#!/bin/bash
# mutrun.sh <scratch-name> <ID> [<ID>...]: sync the engine sources into the scratch sandbox, build against the
# (mutated) scratch repo copy, run the quick checks there, then revert the scratch repo.
# Evidence/replays of these runs go to /tmp/mfv-<name>/out (never to /verif).
name="$1"; shift
root="/tmp/mfv-$name"
[ -d "$root/repo" ] || /verif/tools/mkscratch.sh "$name" >/dev/null
rsync -a --delete /verif/engine/src/ "$root/engine/src/"
( cd "$root/repo" && git diff --stat | tail -1 )
( cd "$root/engine" && cargo +stable build --release --bin mfv 2>&1 | grep -E "^error" -A10 | head -30 )
mkdir -p "$root/out"; cp -f /verif/KNOWN_FINDINGS.jsonl "$root/out/"   # the known-findings file is looked up under VERIF_ROOT
for id in "$@"; do
  VERIF_ROOT="$root/out" VERIF_SEED="${VERIF_SEED:-0}" "$root/target/release/mfv" "$id" "${TIER:-quick}" 2>&1 | grep -E "^(C[0-9]+ |VIOLATION|  violated|INCONCLUSIVE|ENGINE)" | head -14
done
[ -n "${KEEP:-}" ] || ( cd "$root/repo" && git checkout -- . )
