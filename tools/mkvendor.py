#!/usr/bin/env python3
import os,sys,tarfile,hashlib,json,glob
out=sys.argv[1]
os.makedirs(out,exist_ok=True)
n=0
for c in sorted(glob.glob(os.path.expanduser('~/.cargo/registry/cache/*/*.crate'))):
    name=os.path.basename(c)[:-6]
    d=os.path.join(out,name)
    if os.path.exists(os.path.join(d,'.cargo-checksum.json')): continue
    h=hashlib.sha256(open(c,'rb').read()).hexdigest()
    with tarfile.open(c,'r:gz') as t:
        t.extractall(out)
    json.dump({"files":{},"package":h},open(os.path.join(d,'.cargo-checksum.json'),'w'))
    n+=1
print("vendored",n)
