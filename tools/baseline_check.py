#!/usr/bin/env python3
"""Compare a `cargo test --workspace --no-fail-fast --offline` log with BASELINE.json stable_pass."""
import json,re,sys
log=open(sys.argv[1]).read()
ok=set(re.findall(r"^test (\S+)(?: - should panic)? \.\.\. ok$", log, re.M))
base=json.load(open('/root/.vp/BASELINE.json'))['stable_pass']
missing=[]
for b in base:
    suffix=b.split('::',1)[1] if '::' in b else b
    if suffix.startswith('tests::misc') or suffix.startswith('tests::'): suffix=suffix.split('::',1)[1]
    if not (suffix in ok or b in ok or any(o.endswith(suffix) for o in ok)):
        missing.append(b)
print("baseline stable_pass:",len(base),"ok in log:",len(ok),"missing:",len(missing))
for m in missing[:20]: print("  MISSING",m)
sys.exit(1 if missing else 0)
