#!/usr/bin/env python3
"""Compare a `cargo test --workspace --no-fail-fast --offline` log with BASELINE.json stable_pass.
A stable test counts as passing if it was started ("test NAME ...") and is not reported FAILED
(log lines of concurrently running tests can be interleaved between the name and the verdict)."""
import json,re,sys
log=open(sys.argv[1]).read()
started=set(re.findall(r"^test (\S+)(?: - should panic)? \.\.\. ", log, re.M))
failed=set(re.findall(r"^test (\S+)(?: - should panic)? \.\.\. FAILED", log, re.M))
failed|=set(re.findall(r"^    (\S+::\S+)$", log, re.M))   # names listed under "failures:"
base=json.load(open('/root/.vp/BASELINE.json'))['stable_pass']
missing=[];bad=[]
def variants(b):
    s=b.split('::',1)[1] if '::' in b else b
    v=[b,s]
    if s.startswith('tests::'): v.append(s.split('::',1)[1])
    return v
for b in base:
    vs=variants(b)
    if any(x in failed for x in vs): bad.append(b); continue
    if not any(x in started for x in vs): missing.append(b)
print("baseline stable_pass:",len(base),"started:",len(started),"failed-among-stable:",len(bad),"not-run:",len(missing))
for m in bad[:20]: print("  FAILED",m)
for m in missing[:20]: print("  NOT RUN",m)
sys.exit(1 if (missing or bad) else 0)
