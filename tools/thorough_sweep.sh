#!/bin/bash
# thorough_sweep.sh [ids...]: run the thorough tier of every check on the UNCHANGED tree (libFuzzer stage budget VERIF_FUZZ_SECS, default 120 here)
cd /verif
ids="${@:-C01 C02 C03 C04 C05 C06 C07 C08 C09 C10 C11 C12 C13 C14 C15 C16 C17 C18 C19 C20}"
for id in $ids; do
  s=$(date +%s)
  out=$(VERIF_FUZZ_SECS=${VERIF_FUZZ_SECS:-120} ./check $id thorough 2>&1); rc=$?
  echo "$id rc=$rc secs=$(( $(date +%s) - s )) $(echo "$out" | grep -E "^$id thorough" | tr '\n' ' ')"
  if [ $rc -ne 0 ]; then echo "$out" | grep -E "violated|VIOLATION|INCONCLUSIVE|ENGINE" | cut -c1-600 | head -8; fi
done
