#!/usr/bin/env python3
"""Regenerate /verif/SENSITIVITY.md from sensitivity/results.jsonl (hand mutants, latest result per
(mutant, check)), sensitivity/agents.md (mutant tables reported by the sub-agents that built modules) and seeded/*/meta.json."""
import json, glob, os, collections
NOTES = {
 ("c01-withdraw-all-dust-dropped","C01"): "not a C01 violation: dropping the dust booking leaves a SURPLUS in the vault (vault >= claims still holds); no listed property forbids a surplus",
 ("c01-liquidation-fee-dust-dropped","C01"): "not a C01 violation (surplus); it IS a C05 violation and C05 detects it",
 ("c01-repay-all-floor","C01"): "not a C01 violation: the insurance bucket absorbs paid-owed, books stay balanced; it is a C03 violation and C03 detects it",
 ("c03-withdraw-all-ceil","C01"): "as above: balanced books; C03 detects it",
 ("c05-pre-check-gt-to-ge","C05"): "equivalent for classic liquidation: a healthy account cannot pass the post-condition (health must end <= 0), so no healthy account can be liquidated; the same edit IS observable in receivership and C10 detects it",
 ("c10-borrow-in-exclusive-list","C10"): "equivalent: flash-loan start refuses accounts in receivership, so allowing the discriminators at top level changes nothing observable",
}
res = collections.OrderedDict()
for l in open("/verif/sensitivity/results.jsonl"):
    r = json.loads(l); res[(r["mutant"], r["check"])] = r
out = ["# Sensitivity — which checks catch which deliberately broken trees", "",
       "All runs: quick tier, seed 0, in a scratch copy of /repo at its current HEAD (tools/mutants.py, tools/mutrun.sh, tools/seedrun.sh). Nothing here was ever applied to /repo.", "",
       "## 1. Hand-written mutants (tools/mutants.py)", "", "| mutant | check | result | violated clause / note |", "|---|---|---|---|"]
det = mis = 0
for (m, c), r in res.items():
    if r["detected"]:
        det += 1; out.append(f"| {m} | {c} | detected | {r['clause'].split(' -- ')[0]} |")
    else:
        note = NOTES.get((m, c), "MISSED")
        mis += 1; out.append(f"| {m} | {c} | not detected | {note} |")
out += ["", f"{det} detected, {mis} not detected (each of the latter is explained in the table: not a violation of that property, or an equivalent mutant).", ""]
if os.path.exists("/verif/sensitivity/agents.md"):
    out += [open("/verif/sensitivity/agents.md").read(), ""]
out += ["## 3. Seeded changes written by fresh sub-agents (given only the property text and a scratch worktree)", "",
        "Each was confirmed by me (demonstration fails with the change and passes without it; all 172 baseline tests pass with the change) before being kept under /verif/seeded/.", "",
        "| seeded change | property | needs to manifest | caught by |", "|---|---|---|---|"]
for d in sorted(glob.glob("/verif/seeded/*/meta.json")):
    m = json.load(open(d)); name = os.path.basename(os.path.dirname(d))
    out.append(f"| {name} | {m['property']} | {m['needs_to_manifest']} | {m['caught_by']} |")
open("/verif/SENSITIVITY.md", "w").write("\n".join(out) + "\n")
print("detected", det, "not detected", mis)
