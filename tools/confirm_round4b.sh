#!/bin/bash
# confirmations of the round-4 seeded changes (second change per property), batch b
C=/verif/tools/confirm_seed.sh
$C 2C01 "git apply out/demo.diff" "cargo test -p marginfi --lib seed_2c01 --offline"
$C 2C08 "cp out/demo_test.rs programs/marginfi/tests/seed_c08_freeze_foreign_group.rs" "cargo test -p marginfi --test seed_c08_freeze_foreign_group --offline"
$C 2C09 "cp out/demo_test.rs programs/marginfi/src/state/price_conf_demo.rs; git apply out/demo_mod.diff" "cargo test -p marginfi --lib price_conf_demo --offline"
$C 2C10 "git apply out/demo.diff" "cargo test -p marginfi --lib c10_ --offline"
$C 2C11 "cp out/c11_flashloan_end_index_demo.rs programs/marginfi/tests/" "cargo test -p marginfi --test c11_flashloan_end_index_demo --offline -- --test-threads=1"
$C 2C12 "git apply out/demo.diff" "cargo test -p marginfi --lib c12_demo --offline"
$C 2C13 "cp out/c13_propagate_oracle_age_demo.rs programs/marginfi/src/; git apply out/demo_lib_rs.diff" "cargo test -p marginfi --lib c13_propagate --offline"
$C 2C14 "git apply out/demo.diff" "cargo test -p marginfi --lib c14_ --offline"
