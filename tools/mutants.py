#!/usr/bin/env python3
"""Hand-written sensitivity mutants: small edits to a scratch copy of /repo that compile and keep the
172 baseline tests green in spirit, each of which must make the named check(s) exit 1.
usage: mutants.py <scratch-name> [mutant-id ...]   (no ids = all)
Results are appended to /verif/sensitivity/results.jsonl (one line per (mutant, check))."""
import json, os, subprocess, sys, time

M = "programs/marginfi/src/"
MUTANTS = [
 # id, file, old, new, checks
 ("c01-withdraw-all-dust-dropped", M+"state/marginfi_account.rs",
  """        bank.collected_insurance_fees_outstanding = {
            current_asset_amount
                .checked_sub(spl_withdraw_amount)""",
  """        bank.collected_insurance_fees_outstanding = {
            I80F48::ZERO
                .checked_sub(I80F48::ZERO)""", ["C01"]),
 ("c01-repay-all-floor", M+"state/marginfi_account.rs",
  """        let spl_deposit_amount = current_liability_amount
            .checked_ceil()""",
  """        let spl_deposit_amount = current_liability_amount
            .checked_floor()""", ["C01", "C03"]),
 ("c01-origination-fee-not-added", M+"instructions/marginfi_account/borrow.rs",
  "bank_account.borrow(I80F48::from_num(amount_pre_fee) + origination_fee)?;",
  "bank_account.borrow(I80F48::from_num(amount_pre_fee))?;", ["C01"]),
 ("c01-liquidation-fee-dust-dropped", M+"instructions/marginfi_account/liquidate.rs",
  "                .checked_add(insurance_fee_dust)",
  "                .checked_add(I80F48::ZERO)", ["C01", "C05"]),
 ("c02-purge-like-liquidator-leg", M+"instructions/marginfi_account/liquidate.rs",
  "bank_account.withdraw_ignore_borrow_cap(liab_amount_liquidator)?;",
  "bank_account.withdraw_ignore_borrow_cap(liab_amount_final)?;", ["C01", "C05"]),
 ("c02-bank-delta-mismatch", M+"state/marginfi_account.rs",
  """        balance.change_asset_shares(asset_shares_increase)?;
        bank.change_asset_shares(
            asset_shares_increase,""",
  """        balance.change_asset_shares(asset_shares_increase)?;
        bank.change_asset_shares(
            asset_shares_increase + I80F48::from_bits(1),""", ["C02"]),
 ("c02-close-balance-threshold-wide", M+"state/marginfi_account.rs",
  """        check!(
            current_asset_amount.is_zero_with_tolerance(ZERO_AMOUNT_THRESHOLD),
            MarginfiError::IllegalBalanceState,
            "Balance has existing assets"
        );""",
  """        check!(
            current_asset_amount.is_zero_with_tolerance(I80F48::ONE),
            MarginfiError::IllegalBalanceState,
            "Balance has existing assets"
        );""", ["C02"]),
 ("c03-asset-shares-by-liab-value", M+"state/bank.rs",
  """        Ok(value
            .checked_div(self.asset_share_value.into())""",
  """        Ok(value
            .checked_div(self.liability_share_value.into())""", ["C03", "C01"]),
 ("c03-withdraw-all-ceil", M+"state/marginfi_account.rs",
  """        let spl_withdraw_amount = current_asset_amount
            .checked_floor()""",
  """        let spl_withdraw_amount = current_asset_amount
            .checked_ceil()""", ["C03", "C01"]),
 ("c04-maint-weights-for-init", M+"state/bank_config.rs",
  "            (RequirementType::Initial, BalanceSide::Assets) => self.asset_weight_init.into(),",
  "            (RequirementType::Initial, BalanceSide::Assets) => self.asset_weight_maint.into(),", ["C04"]),
 ("c04-emode-min-instead-of-max", M+"state/marginfi_account.rs",
  "                        max(bank_weight, emode_weight)",
  "                        min(bank_weight, emode_weight)", ["C04"]),
 ("c04-cap-discount-skipped", M+"state/marginfi_account.rs",
  "                if matches!(requirement_type, RequirementType::Initial) {\n                    if let Some(discount) =",
  "                if false {\n                    if let Some(discount) =", ["C04"]),
 ("c04-reduce-only-counted", M+"state/marginfi_account.rs",
  "                    (BankOperationalState::ReduceOnly, RequirementType::Initial)\n                ) {",
  "                    (BankOperationalState::ReduceOnly, RequirementType::Equity)\n                ) {", ["C04"]),
 ("c04-isolated-check-dropped", M+"state/marginfi_account.rs",
  "            isolated_risk_count == 0 || total_liability_balances == 1,",
  "            isolated_risk_count == 0 || total_liability_balances >= 1,", ["C04"]),
 ("c04-health-ge-to-gt", M+"state/marginfi_account.rs",
  "        let healthy = total_weighted_assets >= total_weighted_liabilities;",
  "        let healthy = total_weighted_assets > total_weighted_liabilities + I80F48::from_num(0.01);", ["C04"]),
 ("c05-fee-constants-swapped", "type-crate/src/constants.rs",
  "pub const LIQUIDATION_LIQUIDATOR_FEE: I80F48 = I80F48!(0.025);",
  "pub const LIQUIDATION_LIQUIDATOR_FEE: I80F48 = I80F48!(0.05);", ["C05"]),
 ("c05-liab-priced-low", M+"instructions/marginfi_account/liquidate.rs",
  """                OraclePriceType::RealTime,
                Some(PriceBias::High),
                liab_bank.config.oracle_max_confidence,""",
  """                OraclePriceType::RealTime,
                Some(PriceBias::Low),
                liab_bank.config.oracle_max_confidence,""", ["C05"]),
 ("c05-post-check-removed", M+"state/marginfi_account.rs",
  """        check!(
            account_health <= I80F48::ZERO,
            MarginfiError::TooSevereLiquidation
        );""",
  """        check!(
            account_health <= I80F48::MAX,
            MarginfiError::TooSevereLiquidation
        );""", ["C05"]),
 ("c05-liquidator-health-check-removed", M+"instructions/marginfi_account/liquidate.rs",
  """        &mut None,
    );
    risk_result?;""",
  """        &mut None,
    );
    let _ = risk_result;""", ["C05"]),
 ("c05-pre-check-gt-to-ge", M+"state/marginfi_account.rs",
  "        let healthy = account_health > I80F48::ZERO;",
  "        let healthy = account_health > I80F48::from_num(1000);", ["C05", "C10"]),
 ("c06-deposit-no-accrue", M+"instructions/marginfi_account/deposit.rs",
  """    if deposit_amount == 0 {
        return Ok(());
    }
    bank.accrue_interest(
        clock.unix_timestamp,
        group,
        #[cfg(not(feature = "client"))]
        bank_loader.key(),
    )?;""",
  """    if deposit_amount == 0 {
        return Ok(());
    }""", ["C06"]),
 ("c06-repay-no-accrue", M+"instructions/marginfi_account/repay.rs",
  """    let group = &marginfi_group_loader.load()?;
    bank.accrue_interest(
        clock.unix_timestamp,
        group,
        #[cfg(not(feature = "client"))]
        bank_loader.key(),
    )?;""",
  """    let group = &marginfi_group_loader.load()?;""", ["C06"]),
 ("c06-liquidate-asset-bank-no-accrue", M+"instructions/marginfi_account/liquidate.rs",
  """        ctx.accounts.asset_bank.load_mut()?.accrue_interest(
            current_timestamp,
            group,
            #[cfg(not(feature = "client"))]
            ctx.accounts.asset_bank.key(),
        )?;""",
  "", ["C06"]),
 ("c06-close-balance-no-accrue", M+"instructions/marginfi_account/close_balance.rs",
  """    bank.accrue_interest(
        Clock::get()?.unix_timestamp,
        group,
        #[cfg(not(feature = "client"))]
        bank_loader.key(),
    )?;""",
  "", ["C06"]),
 ("c07-threshold-raised", "type-crate/src/constants.rs",
  "pub const BANKRUPT_THRESHOLD: I80F48 = I80F48!(0.1);",
  "pub const BANKRUPT_THRESHOLD: I80F48 = I80F48!(1000000);", ["C07"]),
 ("c07-signer-check-dropped", M+"instructions/marginfi_group/handle_bankruptcy.rs",
  "    if !bank.get_flag(PERMISSIONLESS_BAD_DEBT_SETTLEMENT_FLAG) {",
  "    if false && !bank.get_flag(PERMISSIONLESS_BAD_DEBT_SETTLEMENT_FLAG) {", ["C07"]),
 ("c07-kill-ignored", M+"instructions/marginfi_group/handle_bankruptcy.rs",
  "    if kill_bank {",
  "    if false && kill_bank {", ["C07"]),
 ("c07-account-not-disabled", M+"instructions/marginfi_group/handle_bankruptcy.rs",
  "    marginfi_account.set_flag(ACCOUNT_DISABLED, true);",
  "", ["C07"]),
 ("c07-insurance-skipped", M+"instructions/marginfi_group/handle_bankruptcy.rs",
  "        let covered_by_insurance = min(bad_debt, available_insurance_fund);",
  "        let covered_by_insurance = min(bad_debt, available_insurance_fund) / I80F48::from_num(2);", ["C07"]),
 ("c10-end-not-last-allowed", M+"instructions/marginfi_account/liquidate_start.rs",
  "    validate_ix_last(&ixes, program_id, end_ix)?;",
  "", ["C10"]),
 ("c10-borrow-in-exclusive-list", M+"instructions/marginfi_account/liquidate_start.rs",
  "            &ix_discriminators::LENDING_ACCOUNT_REPAY,",
  "            &ix_discriminators::LENDING_ACCOUNT_REPAY,\n            &ix_discriminators::START_FLASHLOAN,\n            &ix_discriminators::END_FLASHLOAN,", ["C10"]),
 ("c10-start-cpi-check-removed", M+"instructions/marginfi_account/liquidate_start.rs",
  """    validate_not_cpi_by_stack_height()?;
    let start_ix = validate_not_cpi_with_sysvar(sysvar)?;""",
  """    let start_ix = ixes.len() - 2;""", ["C10"]),
 ("c10-premium-check-removed", M+"instructions/marginfi_account/liquidate_end.rs",
  "    if !ignore_healthy {\n        check!(\n            seized <= repaid * max_fee,",
  "    if false {\n        check!(\n            seized <= repaid * max_fee,", ["C10"]),
 ("c10-health-worse-inverted", M+"instructions/marginfi_account/liquidate_end.rs",
  "    if pre_health > post_health {",
  "    if pre_health > post_health + I80F48::from_num(1000000) {", ["C10"]),
 ("c10-zero-weight-withdraw-allowed", M+"instructions/marginfi_account/withdraw.rs",
  "            !(a.get_flag(ACCOUNT_IN_RECEIVERSHIP) && weight == I80F48::ZERO)",
  "            !(a.get_flag(ACCOUNT_IN_RECEIVERSHIP) && weight == I80F48::MAX)", []),
 ("c11-end-index-account-check-dropped", M+"instructions/marginfi_account/flashloan.rs",
  "        end_fl_marginfi_account.pubkey.eq(&marginfi_account.key()),",
  "        end_fl_marginfi_account.pubkey.eq(&marginfi_account.key()) || true,", ["C11"]),
 ("c11-end-no-health-check", M+"instructions/marginfi_account/flashloan.rs",
  "        RiskEngine::check_account_init_health(&marginfi_account, ctx.remaining_accounts, &mut None);\n    risk_result?;",
  "        RiskEngine::check_account_init_health(&marginfi_account, ctx.remaining_accounts, &mut None);\n    let _ = risk_result;", ["C11"]),
 ("c11-risk-engine-flashloan-refusal-dropped", M+"state/marginfi_account.rs",
  """        check!(
            !marginfi_account.get_flag(ACCOUNT_IN_FLASHLOAN),
            MarginfiError::AccountInFlashloan
        );

        Self::new_no_flashloan_check(marginfi_account, remaining_ais)""",
  """        Self::new_no_flashloan_check(marginfi_account, remaining_ais)""", []),
 ("c11-nested-start-allowed", M+"instructions/marginfi_account/flashloan.rs",
  "        !marginf_account.get_flag(ACCOUNT_IN_FLASHLOAN),\n        MarginfiError::IllegalFlashloan",
  "        !marginf_account.get_flag(ACCOUNT_IN_FLASHLOAN) || true,\n        MarginfiError::IllegalFlashloan", ["C11"]),
 ("c11-start-frozen-allowed", M+"instructions/marginfi_account/flashloan.rs",
  "        !marginf_account.get_flag(ACCOUNT_FROZEN),\n        MarginfiError::AccountFrozen\n    );\n    Ok(())",
  "        !marginf_account.get_flag(ACCOUNT_FROZEN) || true,\n        MarginfiError::AccountFrozen\n    );\n    Ok(())", ["C11"]),
 ("c16-sort-dropped-in-borrow", M+"instructions/marginfi_account/borrow.rs",
  "    marginfi_account.lending_account.sort_balances();",
  "", ["C16"]),
 ("c16-find-or-create-ignores-active", M+"state/marginfi_account.rs",
  "            .position(|balance| balance.is_active() && balance.bank_pk.eq(bank_pk));",
  "            .position(|balance| balance.is_active() && balance.bank_pk.eq(bank_pk) && I80F48::from(balance.asset_shares) > I80F48::ZERO);", ["C16"]),
 ("c16-can-be-closed-ignores-disabled", M+"state/marginfi_account.rs",
  "        !is_disabled && only_has_empty_balances && !is_in_flashloan && !is_in_receivership",
  "        only_has_empty_balances && !is_in_flashloan && !is_in_receivership", ["C16"]),
 ("c16-transfer-keeps-old-positions", M+"instructions/marginfi_account/transfer_account.rs",
  "    old_account.last_update = current_timestamp;\n    old_account.lending_account = LendingAccount::zeroed();\n    old_account.set_flag(ACCOUNT_DISABLED, true);\n\n    emit!(MarginfiAccountTransferToNewAccount {\n        header: AccountEventHeader {\n            signer: Some(ctx.accounts.authority.key()),\n            marginfi_account: ctx.accounts.new_marginfi_account.key(),\n            marginfi_account_authority: ctx.accounts.new_authority.key(),\n            marginfi_group: ctx.accounts.group.key(),\n        },\n        old_account: ctx.accounts.old_marginfi_account.key(),\n        old_account_authority: ctx.accounts.authority.key(),\n        new_account_authority: ctx.accounts.new_authority.key(),\n    });\n\n    Ok(())\n}\n\n#[derive(Accounts)]\npub struct TransferToNewAccount<",
  "    old_account.last_update = current_timestamp;\n    old_account.set_flag(ACCOUNT_DISABLED, true);\n\n    emit!(MarginfiAccountTransferToNewAccount {\n        header: AccountEventHeader {\n            signer: Some(ctx.accounts.authority.key()),\n            marginfi_account: ctx.accounts.new_marginfi_account.key(),\n            marginfi_account_authority: ctx.accounts.new_authority.key(),\n            marginfi_group: ctx.accounts.group.key(),\n        },\n        old_account: ctx.accounts.old_marginfi_account.key(),\n        old_account_authority: ctx.accounts.authority.key(),\n        new_account_authority: ctx.accounts.new_authority.key(),\n    });\n\n    Ok(())\n}\n\n#[derive(Accounts)]\npub struct TransferToNewAccount<", ["C16", "C02"]),
 ("c17-deposit-limit-gt", M+"state/bank.rs",
  "            if total_deposits_amount >= deposit_limit {",
  "            if total_deposits_amount > deposit_limit + I80F48::ONE {", ["C17"]),
 ("c17-capacity-without-minus-one", M+"state/bank.rs",
  "            .checked_sub(I80F48::ONE) // Subtract 1 to ensure we stay under limit\n            .ok_or_else(math_error!())?",
  "", ["C17"]),
 ("c17-utilization-skipped-in-withdraw-all", M+"state/marginfi_account.rs",
  "        bank.change_asset_shares(-total_asset_shares, false)?;\n        bank.check_utilization_ratio()?;",
  "        bank.change_asset_shares(-total_asset_shares, false)?;", ["C17"]),
 ("c17-borrow-limit-gt", M+"state/bank.rs",
  "            if total_liability_amount >= borrow_limit {",
  "            if total_liability_amount > borrow_limit + I80F48::ONE {", ["C17"]),
 ("c05-emode-maint-uses-init-weight", M+"state/marginfi_account.rs",
  """                            RequirementType::Maintenance => {
                                I80F48::from(emode_entry.asset_weight_maint)
                            }""",
  """                            RequirementType::Maintenance => {
                                I80F48::from(emode_entry.asset_weight_init)
                            }""", ["C05"]),
 ("c05-emode-ignored-at-maintenance", M+"state/marginfi_account.rs",
  """                            RequirementType::Maintenance => {
                                I80F48::from(emode_entry.asset_weight_maint)
                            }""",
  """                            RequirementType::Maintenance => {
                                I80F48::ZERO
                            }""", ["C05"]),
 # ---- round 5 additions ----
 ("c16-close-frozen-allowed", M+"instructions/marginfi_account/close.rs",
  "    if marginfi_account.get_flag(ACCOUNT_FROZEN) {\n        return err!(MarginfiError::AccountFrozen);\n    }",
  "    if false && marginfi_account.get_flag(ACCOUNT_FROZEN) {\n        return err!(MarginfiError::AccountFrozen);\n    }", ["C16"]),
 ("c02-close-bank-value-check-removed", M+"instructions/marginfi_group/close_bank.rs",
  "        bank.get_asset_amount(bank.total_asset_shares.into())?\n            .is_zero_with_tolerance(ZERO_AMOUNT_THRESHOLD)",
  "        (bank.get_asset_amount(bank.total_asset_shares.into())? >= I80F48::ZERO)", ["C02"]),
 ("c16-disabled-can-repay", M+"instructions/marginfi_account/repay.rs",
  "    check!(\n        !marginfi_account.get_flag(ACCOUNT_DISABLED),\n        MarginfiError::AccountDisabled\n    );\n    validate_bank_state",
  "    check!(\n        true || !marginfi_account.get_flag(ACCOUNT_DISABLED),\n        MarginfiError::AccountDisabled\n    );\n    validate_bank_state", ["C16"]),
 ("c16-disabled-can-start-flashloan", M+"instructions/marginfi_account/flashloan.rs",
  "    check!(\n        !marginf_account.get_flag(ACCOUNT_DISABLED),",
  "    check!(\n        true || !marginf_account.get_flag(ACCOUNT_DISABLED),", ["C16", "C11"]),
 ("c06-bankruptcy-no-accrue", M+"instructions/marginfi_group/handle_bankruptcy.rs",
  "    let group = &marginfi_group_loader.load()?;\n\n    bank.accrue_interest(\n        clock.unix_timestamp,\n        group,\n        #[cfg(not(feature = \"client\"))]\n        bank_loader.key(),\n    )?;",
  "    let group = &marginfi_group_loader.load()?;\n    let _ = &clock;", ["C06"]),
 ("c19-permissionless-fee-withdrawal-any-destination", M+"instructions/marginfi_group/collect_bank_fees.rs",
  "        has_one = fees_destination_account @ MarginfiError::InvalidFeesDestinationAccount,\n    )]\n    pub bank: AccountLoader<'info, Bank>,\n\n    #[account(\n        mut,\n        seeds = [\n            FEE_VAULT_SEED.as_bytes(),",
  "    )]\n    pub bank: AccountLoader<'info, Bank>,\n\n    #[account(\n        mut,\n        seeds = [\n            FEE_VAULT_SEED.as_bytes(),", ["C19", "C08"]),
 ("c10-end-passes-unchecked-when-risk-engine-cannot-be-built", M+"instructions/marginfi_account/liquidate_end.rs",
  "    let risk_engine = RiskEngine::new(marginfi_account, remaining_ais)?;\n\n    let (post_health,",
  "    let risk_engine = match RiskEngine::new(marginfi_account, remaining_ais) {\n        Ok(r) => r,\n        Err(_) => {\n            marginfi_account.unset_flag(ACCOUNT_IN_RECEIVERSHIP, false);\n            liq_record.liquidation_receiver = Pubkey::default();\n            return Ok((I80F48::ZERO, 0.0, I80F48::ZERO, 0.0));\n        }\n    };\n\n    let (post_health,", ["C10"]),
 ("c04-observation-bank-key-unchecked", M+"state/marginfi_account.rs",
  "                check_eq!(\n                    balance.bank_pk,\n                    *bank_ai.key,\n                    MarginfiError::InvalidBankAccount\n                );",
  "                let _ = balance.bank_pk;", ["C04", "C08", "C05", "C07", "C10"]),
 ("c12-force-complete-without-sunset", M+"instructions/marginfi_group/configure_bank_lite.rs",
  "    if bank.get_flag(TOKENLESS_REPAYMENTS_ALLOWED) {\n        bank.update_flag(true, TOKENLESS_REPAYMENTS_COMPLETE);\n    }",
  "    bank.update_flag(true, TOKENLESS_REPAYMENTS_COMPLETE);", ["C12"]),
 # --- reconstructions of three round-8 batch-2 seeded changes whose artefacts were lost before they were saved
 # (multi-edit mutants: the "file" is a list of (file, old, new) triples)
 ("r8-c10-deleverage-bracket-lost-has-one-group", [
   (M+"instructions/marginfi_account/liquidate_start.rs",
    "        has_one = liquidation_record,\n        has_one = group,\n        constraint = {\n            let acc = marginfi_account.load()?;\n            !acc.get_flag(ACCOUNT_IN_RECEIVERSHIP)",
    "        has_one = liquidation_record,\n        constraint = {\n            let acc = marginfi_account.load()?;\n            !acc.get_flag(ACCOUNT_IN_RECEIVERSHIP)"),
   (M+"instructions/marginfi_account/liquidate_end.rs",
    "        has_one = liquidation_record,\n        has_one = group,\n",
    "        has_one = liquidation_record,\n")], None, None, ["C10", "C08", "C12"]),
 ("r8-c16-legacy-transfer-guard-checks-migrated-from", M+"instructions/marginfi_account/transfer_account.rs",
  "    check_eq!(\n        old_account.migrated_to,\n        Pubkey::default(),\n        MarginfiError::AccountAlreadyMigrated\n    );\n\n",
  "    check_eq!(\n        old_account.migrated_from,\n        Pubkey::default(),\n        MarginfiError::AccountAlreadyMigrated\n    );\n\n", ["C16"], "first"),
 ("r8-c12-end-deleverage-skips-health-comparison-when-debt-free", M+"instructions/marginfi_account/liquidate_end.rs",
  "    if pre_health > post_health {",
  "    if pre_health > post_health && !(ignore_healthy && _post_liabs == I80F48::ZERO) {", ["C12", "C10"]),
 ("c08-permissionless-pool-owner-unchecked", M+"instructions/marginfi_group/add_pool_permissionless.rs",
  "    check!(\n        stake_pool.owner == &SPL_SINGLE_POOL_ID,\n        MarginfiError::StakePoolValidationFailed\n    );\n",
  "    let _ = &SPL_SINGLE_POOL_ID;\n", ["C08"]),
]

def sh(cmd, **kw):
    return subprocess.run(cmd, shell=True, capture_output=True, text=True, **kw)

def main():
    name = sys.argv[1]
    want = set(sys.argv[2:])
    root = f"/tmp/mfv-{name}"
    if not os.path.isdir(root + "/repo"):
        sh(f"/verif/tools/mkscratch.sh {name}")
    # bring the scratch worktree to /repo's HEAD
    head = sh("git -C /repo rev-parse HEAD").stdout.strip()
    sh(f"git -C {root}/repo checkout -q --detach {head}")
    os.makedirs("/verif/sensitivity", exist_ok=True)
    for entry in MUTANTS:
        mid, f, old, new, checks = entry[:5]
        first_only = len(entry) > 5 and entry[5] == "first"
        if want and mid not in want:
            continue
        if not checks:
            continue
        sh(f"git -C {root}/repo checkout -- .")
        edits = f if isinstance(f, list) else [(f, old, new)]
        bad = False
        for (ff, oo, nn) in edits:
            p = f"{root}/repo/{ff}"
            s = open(p).read()
            if s.count(oo) != 1 and not (first_only and s.count(oo) >= 1):
                print(f"{mid}: PATTERN NOT FOUND in {ff} ({s.count(oo)} matches)"); bad = True; break
            open(p, "w").write(s.replace(oo, nn, 1))
        if bad:
            continue
        t0 = time.time()
        env = dict(os.environ, KEEP="1")
        out = subprocess.run(["/verif/tools/mutrun.sh", name] + checks, capture_output=True, text=True, env=env).stdout
        build_err = "error" in out and "could not compile" in out
        for c in checks:
            lines = [l for l in out.splitlines() if l.startswith(c + " ") or f"property={c} " in l]
            detected = any("VIOLATION" in l for l in lines)
            summary = next((l for l in lines if l.startswith(c + " ")), "")
            clause = ""
            for l in out.splitlines():
                if l.strip().startswith("violated clause:"):
                    clause = l.strip()[len("violated clause:"):].strip()[:160]
                    break
            rec = {"mutant": mid, "check": c, "detected": detected, "summary": summary, "clause": clause if detected else "", "build_error": build_err, "secs": round(time.time() - t0, 1)}
            print(json.dumps(rec))
            with open("/verif/sensitivity/results.jsonl", "a") as fh:
                fh.write(json.dumps(rec) + "\n")
        sh(f"git -C {root}/repo checkout -- .")

if __name__ == "__main__":
    main()
