#!/bin/bash
# covreport.sh: line coverage of mrgnlabs/marginfi-v2 under the 20 quick checks (informational; not a registered check).
#   1. builds the engine with -C instrument-coverage (nightly; llvm-tools) into /verif/.work/cov-target
#   2. runs every quick check SINGLE-THREADED (16 worker threads on shared counters are ~20x slower), several at a time
#   3. merges the profiles and prints, per source file of the program, lines / lines never executed
# usage: tools/covreport.sh [build|run|report]   (no argument = all three)
set -u
cd /verif
W=/verif/.work
LT=$(dirname "$(rustup +nightly which rustc)")/../lib/rustlib/x86_64-unknown-linux-gnu/bin
step="${1:-all}"
if [ "$step" = all ] || [ "$step" = build ]; then
  ( cd engine && RUSTFLAGS="-C instrument-coverage" CARGO_NET_OFFLINE=true cargo +nightly build --release --bin mfv --target-dir $W/cov-target ) 2>&1 | tail -1
fi
if [ "$step" = all ] || [ "$step" = run ]; then
  rm -rf $W/cov-prof $W/cov-out; mkdir -p $W/cov-prof $W/cov-out; cp KNOWN_FINDINGS.jsonl $W/cov-out/
  run1() { LLVM_PROFILE_FILE=$W/cov-prof/$1-%p.profraw VERIF_ROOT=$W/cov-out VERIF_THREADS=1 $W/cov-target/release/mfv $1 quick 2>&1 | grep -E "^$1 |VIOLATION|ENGINE" | head -2; }
  for batch in "C01 C04 C05 C07 C08 C09 C10 C11" "C12 C13 C14 C15 C16 C17 C19 C20" "C18 C06 C02 C03"; do
    for id in $batch; do run1 $id & done; wait
  done
fi
if [ "$step" = all ] || [ "$step" = report ]; then
  $LT/llvm-profdata merge -sparse $W/cov-prof/*.profraw -o $W/cov.profdata
  $LT/llvm-cov report $W/cov-target/release/mfv -instr-profile=$W/cov.profdata -ignore-filename-regex='(vendor|rustc|/verif/engine)' 2>/dev/null \
    | grep -E "repo/(programs/marginfi|type-crate)" | awk '{printf "%-88s lines %5s never-executed %5s\n",$1,$8,$9}' | sed 's#/repo/##'
  echo "uncovered lines of one file: $LT/llvm-cov show $W/cov-target/release/mfv -instr-profile=$W/cov.profdata /repo/programs/marginfi/src/<file> | grep -E '^ +[0-9]+\| +0\|'"
fi
