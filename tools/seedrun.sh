#!/bin/bash
# seedrun.sh <scratch> <patchfile> <ID> [<ID>...]: apply a seeded patch in a scratch sandbox and run checks there
name="$1"; patch="$2"; shift; shift
root="/tmp/mfv-$name"
[ -d "$root/repo" ] || /verif/tools/mkscratch.sh "$name" >/dev/null
git -C "$root/repo" checkout -q --detach "$(git -C /repo rev-parse HEAD)" 2>/dev/null
git -C "$root/repo" checkout -- . 
git -C "$root/repo" apply "$patch" || { echo "PATCH DOES NOT APPLY"; exit 3; }
KEEP=1 /verif/tools/mutrun.sh "$name" "$@"
git -C "$root/repo" checkout -- .
