#!/usr/bin/env python3
"""mkseedprompt.py <round-prefix> <ID> : write /tmp/seed-<prefix><ID>/INSTRUCTIONS.md from notes/SEED_AGENT_PROMPT.md + notes/seed_steer.json"""
import json, sys, re
prefix, pid = sys.argv[1], sys.argv[2]
d = f"/tmp/seed-{prefix}{pid}"
props = {json.loads(l)["id"]: json.loads(l) for l in open("/verif/properties.jsonl")}
steer = json.load(open("/verif/notes/seed_steer.json"))[pid]
t = open("/verif/notes/SEED_AGENT_PROMPT.md").read()
t = t.split("\n", 4)[4]  # drop the header lines meant for me
taken = "\n".join(f"  - {x}" for x in steer["taken"])
t = t.replace("{ID}", pid).replace("{DIR}", d).replace("{STATEMENT}", props[pid]["statement"]).replace("{TAKEN}", taken).replace("{STEER}", steer["steer"][prefix])
open(d + "/INSTRUCTIONS.md", "w").write(t)
print(d + "/INSTRUCTIONS.md")
