#!/bin/bash
# mkseed.sh <id>: scratch git worktree of /repo for a mutation-seeding agent, with a pre-built target dir copy
set -e
id="$1"; d="/tmp/seed-$id"
git -C /repo worktree add --detach "$d" HEAD >/dev/null 2>&1
cp -a /repo/target "$d/target"
mkdir -p "$d/out"
echo "$d"
