#!/usr/bin/env python3
"""Regenerates /verif/MANIFEST.json from the table below (kept in one place so it stays valid)."""
import json, sys
ALL = ["C%02d" % i for i in range(1, 21)]
CAMPAIGN_NOTE = ("Trusted base: svm-lite mini runtime (BPF-loader account serialisation, real marginfi::entry with full Anchor "
    "constraint validation, real SPL-Token / Token-2022 processors via CPI, 40-line system program, all-or-nothing transactions with "
    "a real Instructions sysvar); no compute/heap limits; native rather than BPF code generation; oracle, mint and wallet accounts "
    "fabricated, all program-owned state created by real instructions. Exact-rational reference arithmetic (num-rational).")
CHECKS = {
 "C01": dict(tech="stateful PBT (proptest) + exact-rational conservation oracle",
   text="Generated worlds x generated op sequences (deposit/withdraw/borrow/repay/liquidate/receivership/flash-loan/accrue/collect/bankruptcy/admin/price/clock) executed through the real program entry point; after every committed transaction every bank is checked against d(vault) >= d(deposits - loans + fees) - eps (per-step, localising) and the cumulative inequality, with eps derived from share magnitudes and the two sanctioned exceptions modelled. Exploration: held on everything generated, nothing more.",
   ref="DESIGN.md §6 C01"),
 "C02": dict(tech="stateful PBT (proptest) + bit-exact ledger invariant over the whole account store",
   text="Same campaign; closed-world scan of ALL MarginfiAccount and Bank accounts after every transaction: per-instruction share deltas of bank totals equal the sum of position deltas bit-exactly, only close_balance/account-close may abandon (bounded) dust, and total - sum(positions) equals the running abandoned dust exactly.",
   ref="DESIGN.md §6 C02"),
 "C03": dict(tech="stateful PBT (proptest) + exact-rational value-flow oracle per operation",
   text="Same campaign; every successful deposit/withdraw/borrow/repay (+all variants): tokens the user received vs exact value removed from the position, value credited vs tokens that reached the vault, measured at the share values the instruction transacted at (few-ulp allowance); full withdrawals pay <= floor(value), full repayments bring >= debt. Share values != 1 come from real accrual and real loss socialisation; transfer-fee mints included.",
   ref="DESIGN.md §6 C03"),
 "C04": dict(tech="PBT (proptest) portfolios + boundary bisection on the real program + interval reference health",
   text="Generated portfolios (up to 8/14 banks: weights, isolated tier, e-mode, caps, Pyth EMA/confidence, Switchboard, fixed, stale collateral oracles, ReduceOnly collateral) and one borrow/withdraw bisected to the largest accepted amount; success side judged on the real post-state by an exact-rational enclosure of initial health, converse judged on the exact hypothetical state (obtained inside a flash-loan bracket) of the first rejected amount.",
   ref="DESIGN.md §6 C04"),
 "C06": dict(tech="stateful PBT (proptest) + differential probe ([accrue; op] vs [op]) + monotonicity/idempotence invariants",
   text="Same campaign; after every successful transacting instruction: last_update == clock, share values never decrease, and re-running the instruction from the same pre-state after an explicit accrue gives bit-identical bank totals / share values / fees / vaults / user shares; accrue twice at one timestamp is byte-identical.",
   ref="DESIGN.md §6 C06"),
 "C05": dict(tech="PBT (proptest) steered scenarios + bisection to the over-liquidation frontier + interval reference (health and the 95/97.5/2.5 split)",
   text="Generated 3-bank worlds and liquidatee/liquidator portfolios; the collateral price is solved so maintenance health lands at a generated target (negative, zero, positive); seize amounts absolute / relative / exactly around the position and the largest accepted amount found by bisection on the real program. Every success is judged by exact-rational enclosures: was unhealthy, ends not positive and not worse, no side flips, liquidator initially healthy, and each of the five book entries lies in the enclosure of the documented formula; whole tokens to the insurance vault, fraction to outstanding insurance fees.",
   ref="DESIGN.md §6 C05"),
 "C07": dict(tech="PBT (proptest) constructed bankruptcies + exact-rational settlement oracle + terminality probe",
   text="Generated depositor distributions, debt sizes up to 100% utilisation with fee-bearing accrual (so debt can exceed deposits), insurance placed below/at(+-2)/above the debt, signer x permissionless matrix, partial crashes as not-bankrupt controls, Token-2022 transfer fees. Every success judged in exact rationals (entitlement, real bankruptcy under at least one admissible reading, insurance first, exact pro-rata socialisation with untouched deposit shares, non-negative share value, kill on wipe-out, account disabled and debt cleared) and a killed bank is probed with every configure_bank(operational_state) and a deposit.",
   ref="DESIGN.md §6 C07"),
 "C08": dict(tech="exhaustive authorization matrix (instruction x signer identity x account state, instruction x slot x substitute) over generated worlds, judged against a hand-written role table and slot-binding table",
   text="61 non-venue instructions x 113 (instruction, account-state variant) cases per world: every signer slot x {entitled, stranger, group admin, each delegated admin, fee admin, another user, liquidation receiver} x {signature bit on/off}, with the account normal / frozen / inside an active receivership / disabled; every non-free account slot x every applicable foreign substitute (foreign-group object, sibling bank and its vaults/authorities, wrong-seed PDA, byte-identical clone under another owner or at another address, regrouped copy, empty system account, other token program / mint / oracle). Unentitled or substituted cells must fail and leave the store unchanged; baselines must succeed (unreached cells are reported; none on the clean tree). About 4 300 cells per world; 160 worlds quick / 2 400 thorough.",
   ref="DESIGN.md §6 C08, Appendix B"),
 "C09": dict(tech="PBT (proptest) over fabricated oracle accounts against the public price-adapter API + exact-rational oracle",
   text="Pure-function half: every oracle kind (Pyth push, Switchboard pull, fixed, staked, Kamino/Drift/Solend exchange-rate variants) x prices/EMA/confidence/exponents over their integer ranges x publish times around the staleness boundary x max-age / max-confidence settings x authenticity faults (wrong key, owner, discriminator, truncated data, partial verification): a usable price only if authentic, fresh and confident; low <= p <= high with band = min(k*sigma, 5% p) within derived ulps; both outcomes observed on each boundary.",
   ref="DESIGN.md §6 C09", note="Pure functions called natively with fabricated AccountInfos (no runtime). Instruction-level half (doctored oracle inside borrow/withdraw/liquidate/bankruptcy) is exercised by C04's stale-collateral cases and the campaign; exact-rational reference arithmetic."),
 "C10": dict(tech="exhaustive enumeration of transaction shapes over a 21-symbol alphabet (bounded length) + random longer shapes + amount sweeps, executed atomically; commit-time oracle = language spec + interval reference health",
   text="Per generated world every transaction shape up to length 4 (quick) / 5 (thorough) over {compute-budget, start/end for two accounts, third-party withdraw/repay/borrow/deposit, record-init, whitelisted refresh, allowed-program swap, short-data and unknown-program instructions, flash start/end, start/end/withdraw/repay via CPI} is executed as one atomic transaction through the real entry point with a real Instructions sysvar; at commit: no receivership marker or receiver survives; third-party control implies the shape is in the language written from the statement, the account was not healthy, health not worse, not ended healthy and premium <= max(fee,5%) unless equity < $5 (definite breaches on enclosures, both price readings); plus thousands of withdraw/repay amount combinations across the premium frontier inside the well-formed bracket.",
   ref="DESIGN.md §6 C10"),
 "C11": dict(tech="exhaustive enumeration of transaction shapes over a 23-symbol alphabet (bounded length) + random longer shapes, executed atomically; per-instruction and commit-time oracle with the reference health model",
   text="Per generated world (account normal / frozen / disabled) every shape up to length 4 (quick) / 5 (thorough) over {flash start naming end index 0..4,9; end for two accounts; big/small borrow; big withdraw; deposit; repay_all; liquidate, bankruptcy, start/end liquidation of the account; transfer; close; start/end/borrow via CPI; compute-budget}: a start that set the flag named a later top-level end of this program for the same account on an unflagged account, no nesting, no liquidation/bankruptcy while flagged; at commit no flag survives and any action that left the account initially unhealthy (reference model) is followed by an end and the account is not unhealthy at commit.",
   ref="DESIGN.md §6 C11"),
 "C12": dict(tech="PBT (proptest) over all argument shapes of every delegated-admin instruction + field-level diff of the whole account store against per-role allowed-field masks; frozen-bank matrix; deleverage brackets with an independent daily-window model",
   text="Part A: for each delegated-admin instruction (interest-only, limits-only, e-mode configure/clone, emissions setup/update with SPL / Token-2022 / transfer-fee emission mints, metadata init/write, force-tokenless-complete, purge) all Option combinations, 64-bit flag words (uniform, single bits, emission-bit subsets, mixtures), boundary limits, valid and invalid entries, on banks with live positions and interesting pre-existing flags: after every success the set of changed fields of the target bank must be inside the role's remit and every other account byte-identical. Part B: every per-bank configuration instruction on frozen banks: weights, oracle, curve, tier, cap, state and the freeze bit unchanged. Part C: risk-admin deleverage brackets with generated withdraw sizes/prices around the daily limit and clock gaps of 86 399/86 400/86 401 s: health not worse, markers cleared, sum of per-withdrawal whole dollars within the day window <= limit, no withdrawal outside a bracket.",
   ref="DESIGN.md §6 C12, Appendix B.3"),
 "C14": dict(tech="exhaustive gating matrix (26 instruction rows x bank states x group-pause columns x expiry timings) evaluated in generated worlds against an expectation table written from the statement",
   text="Per generated world the full matrix is enumerated: 26 financial instruction rows (deposit, withdraw(_all), borrow, repay(_all), liquidate as asset / liability bank, bankruptcy, close_balance, fee and insurance flows, emissions withdrawals, account transfer (+PDA), flash-loan and receivership brackets, accrue, pulse) x {Operational, Paused, ReduceOnly, Killed (real wipe-out path and injected, counted), Killed-then-configure} x 8 group-pause columns (never, active, expired-untouched, expired-cleared, extended, extended-unpropagated, unpropagated, admin-unpaused-stale-cache) x {-1, 0, +1 s} around the cached expiry; each cell executed on a snapshot where the Operational / unpaused baseline succeeds; refusals must leave the store unchanged; acceptance at expiry must not need any propagate/unpause call; ReduceOnly valuation clause checked with the reference health model. Rows that move no funds are executed and counted, not asserted.",
   ref="DESIGN.md §6 C14, Appendix B.4"),
 "C15": dict(tech="exhaustive bounded state-space enumeration over a boundary alphabet + random long histories (proptest), history invariants against an independent reference pause machine",
   text="The real PanicState / PanicStateCache transition functions (glued exactly as the four handlers glue them) driven by (a) exhaustive sequences over {pause, admin-unpause, permissionless-unpause, propagate, wait(boundary delta)} with state hashing, complete to depth 32 (quick) / 48 (thorough), and (b) random long histories; invariants: each pause pushes paused_until by <= 30 min, never > 60 min ahead, <= 3 pauses between daily resets >= 24 h apart, expired pauses stop gating without any call (fee state and stale group cache), permissionless unpause iff expired, admin unpause never fails. Instruction-level wiring of the same handlers is exercised under C14.",
   ref="DESIGN.md §6 C15", note="Pure state-transition functions called natively with a thread-local clock stub; handler glue mirrored by hand (line references in the module)."),
 "C16": dict(tech="stateful PBT (proptest) + structural invariants on raw account bytes",
   text="Same campaign; every account after every transaction: distinct banks, one side per bank, sorted slots, tag compatibility, position bounds, stable tags; close/transfer/disabled rules checked against pre/post snapshots.",
   ref="DESIGN.md §6 C16"),
 "C18": dict(tech="PBT (proptest) over curve configurations x dense utilisation sweeps, exact-rational piecewise-linear reference",
   text="Valid (constructed) and invalid seven-point configs over the full u32 range incl. adjacent/extreme points, legacy three-point configs and their migration; utilisation swept at every breakpoint +-{0,1,2} ulps, 0, 1, beyond, and >= 64 points per segment: defined, bounded by the end rates, exact at configured points, monotone, within the derived (dy+1)-ulp band of exact interpolation, borrow >= base, lending <= base for u <= 1, structural validity of accepted configs, and an accrual step succeeds.",
   ref="DESIGN.md §6 C18", note="Pure functions called natively; exact arithmetic with num-rational."),
 "C19": dict(tech="PBT (proptest) scenarios + exact-rational flow oracle, exhaustive destination-substitution cells, campaign flow frame, emissions claim formula with derived ulp allowance",
   text="Part A: generated fee-bearing banks (SPL / Token-2022 / transfer-fee, program fee on) with liquidity steered to 0 / fractions / +-2 of the buckets' whole parts: on every successful collect each bucket falls by exactly the whole number moved (<= floor, <= liquidity, all floors when liquidity is not binding), each destination (insurance vault, fee vault, ATA of the global fee wallet) receives its amount net of transfer fee, nothing else changes; 35 substitution cells per state must fail. Part B: in the shared campaign plus fee ops by 10 identities x 5 destinations, insurance / fee vaults decrease only by bankruptcy cover, admin withdrawals, or permissionless withdrawal into the admin-fixed destination. Part C: emissions with generated flags / rates / funding (incl. transfer-fee emission mints), many position sizes and elapsed times: sum(outstanding)+remaining never exceeds what was funded, each claim equals min(dt*amount/10^dec*rate/year, remaining) within a derived allowance, payouts only to the authority's (or configured) destination.",
   ref="DESIGN.md §6 C19"),
 "C20": dict(tech="PBT (proptest), overflow-directed generators, exact big-integer/rational oracle on the public conversion functions",
   text="Kamino/Solend/Drift conversion and price-adjustment functions called directly: round trips never gain, Drift burn >= mint, adjusted price within derived truncation band of price x exact rate and monotone, fail-closed on overflow / zero divisors (never wrapped), staleness predicates at the slot/second boundary. The literal 'never exceeds price x exact rate' clause is violated by double flooring and recorded as two known findings (separate streams, so nothing else is masked).",
   ref="DESIGN.md §6 C20", note="Pure functions; venue state structs fabricated with bytemuck; exact arithmetic with num-bigint."),
 "C17": dict(tech="stateful PBT (proptest) with boundary-biased limits/amounts + exact-rational cap oracle",
   text="Same campaign with limits drawn from {0, small, mid, unlimited} and amounts relative to remaining capacity: exact A*asv < deposit_limit after deposits, L*lsv < borrow_limit and A*asv >= L*lsv after borrows/withdrawals, and deposit_up_to_limit never fails with the capacity error (also after interest accrues inside the instruction).",
   ref="DESIGN.md §6 C17"),
}
def check(pid):
    c = CHECKS[pid]
    return {
        "property_id": pid,
        "quick_cmd": f"./check {pid} quick",
        "thorough_cmd": f"./check {pid} thorough",
        "evidence_file": f"/verif/evidence/{pid}.json",
        "replay_cmd_template": f"./check {pid} --replay {{path}}",
        "engine": "mfv",
        "level_claimed": {"category": "exploration", "text": c["text"], "design_ref": c["ref"]},
        "level_note": c.get("note", CAMPAIGN_NOTE),
        "technique": c["tech"],
    }
NOT_BUILT = "check not built yet in this session (design in DESIGN.md §6); will be claimed when its machinery exists"
m = {
  "version": 1,
  "setup_cmd": "./setup.sh",
  "hooks": {"guard": "--cfg marginfi_v2_verif", "enable": "not used: no source hooks were needed (everything is reachable through public items)",
            "baseline_off_cmd": "cd /repo && cargo test --workspace --no-fail-fast --offline", "source_commits": [], "add_only": True},
  "engines": [{"name": "mfv", "path": "/verif/engine", "serves_properties": sorted(CHECKS), "kind_free_text": "Rust: svm-lite runtime executing marginfi::entry natively + proptest generators + exact-rational reference model + per-property monitors"}],
  "checks": [check(p) for p in sorted(CHECKS)],
  "not_applicable": [{"property_id": p, "reason": NOT_BUILT} for p in ALL if p not in CHECKS],
  "notes": "All checks: ./check <ID> <quick|thorough>; exit 0 held / 1 VIOLATION / 2 engine or generator problem (never a violation). Seeds: VERIF_SEED. Known findings: /verif/KNOWN_FINDINGS.jsonl.",
}
json.dump(m, open("/verif/MANIFEST.json", "w"), indent=1)
print("checks:", len(m["checks"]), "not_applicable:", len(m["not_applicable"]))
