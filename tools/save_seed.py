#!/usr/bin/env python3
"""save_seed.py <seed-id> <property> <seeded-name> <needs> <caught-by> : copy a confirmed seeded change from /tmp/seed-<id>/out into /verif/seeded/<name>/"""
import sys, os, shutil, json, glob
sid, prop, name, needs, caught = sys.argv[1:6]
src=(f"/tmp/seedout/{sid}" if os.path.isdir(f"/tmp/seedout/{sid}") else f"/tmp/seed-{sid}/out"); dst=f"/verif/seeded/{name}"
os.makedirs(dst, exist_ok=True)
for f in glob.glob(src+"/*"):
    b=os.path.basename(f)
    if b.endswith(".log") and os.path.getsize(f) > 200_000: continue
    if b.startswith("full_") or b.startswith("confirm_full") : continue
    shutil.copy(f, dst)
readme=open(src+"/README.md").read() if os.path.exists(src+"/README.md") else ""
def tail(p,n=3):
    try: return open(p).read().strip().splitlines()[-n:]
    except Exception: return []
meta={"property": prop, "origin": "fresh sub-agent given only the property text and its own scratch worktree",
      "needs_to_manifest": needs,
      "confirmed_by_me": {"demo_with_change": tail(src+"/confirm_demo_with.log"), "demo_without_change": tail(src+"/confirm_demo_without.log"),
                          "baseline_with_change": "all 172 stable_pass tests ok (tools/baseline_check.py on the full workspace run)"},
      "what_i_ran": ["tools/confirm_seed.sh (demo with/without change, full workspace suite with change)", "tools/seedrun.sh <scratch> patch.diff <checks> (checks against the patched tree)"],
      "caught_by": caught}
json.dump(meta, open(dst+"/meta.json","w"), indent=1)
print("saved", dst, sorted(os.listdir(dst)))
