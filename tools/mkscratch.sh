#!/bin/bash
# mkscratch.sh <name>: private sandbox for development / mutation experiments:
#   /tmp/mfv-<name>/repo    git worktree of /repo (HEAD)
#   /tmp/mfv-<name>/engine  copy of /verif/engine whose manifest points at that worktree
#   /tmp/mfv-<name>/target  its own cargo target dir
# Remove with: tools/rmscratch.sh <name>
set -euo pipefail
name="$1"
root="/tmp/mfv-$name"
mkdir -p "$root"
if [ ! -d "$root/repo" ]; then
  git -C /repo worktree add --detach "$root/repo" HEAD >/dev/null 2>&1
fi
rm -rf "$root/engine"
mkdir -p "$root/engine"
cp -r /verif/engine/src /verif/engine/Cargo.lock "$root/engine/"
[ -d /verif/engine/fuzz ] && cp -r /verif/engine/fuzz "$root/engine/" || true
sed "s#\"/repo/#\"$root/repo/#g" /verif/engine/Cargo.toml > "$root/engine/Cargo.toml"
mkdir -p "$root/engine/.cargo"
sed "s#/verif/.work/target#$root/target#" /verif/engine/.cargo/config.toml > "$root/engine/.cargo/config.toml"
echo "$root"
