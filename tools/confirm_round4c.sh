#!/bin/bash
# confirmations of the round-4 seeded changes, batch c
C=/verif/tools/confirm_seed.sh
$C 2C15 "cp out/panic_cache_c15_demo.rs programs/marginfi/src/state/; git apply out/demo_mod.diff" "cargo test -p marginfi --lib c15_ --offline"
$C 2C16 "cp out/c16_asset_tag_mix_demo.rs programs/marginfi/tests/" "cargo test -p marginfi --test c16_asset_tag_mix_demo --offline"
$C 2C17 "git apply out/demo.diff" "cargo test -p marginfi --lib c17_ --offline"
$C 2C18 "git apply out/demo.diff" "cargo test -p marginfi --lib c18_ --offline"
$C 2C19 "cp out/seed_c19_demo.rs programs/marginfi/tests/" "cargo test -p marginfi --test seed_c19_demo --offline"
$C 2C20 "git apply out/demo.diff" "cargo test -p marginfi --lib c20_demo --offline"
