#!/bin/bash
# rtdiff.sh [CASES] [SEED] [extra rtdiff args...]
#
# Differential test of the engine's mini runtime (svm-lite, engine/src/svm.rs) against the REAL Solana
# runtime (solana-runtime / solana-program-test 2.1.20, bundled BPF SPL programs, marginfi as a native
# processor). Builds the crate engine/rtdiff offline from the same vendored sources as the engine (own
# target dir /verif/.work/rtdiff-target) and runs   rtdiff --cases CASES --seed SEED.
#
# exit 0 = no divergence, 2 = divergences (RTDIFF-DIVERGENCE lines; cases saved under
# /verif/.work/rtdiff-findings/), 3 = build failure.
# Useful extra args: --max-ops 100 | --corpus /verif/.work/fuzz-corpus/C01 | --spl native |
#   --probe-known-gaps (provokes the documented svm-lite gaps) | --replay FILE | --only-case I --verbose
set -uo pipefail
cases="${1:-50}"
seed="${2:-0}"
shift $(( $# < 2 ? $# : 2 ))
crate=/verif/engine/rtdiff
target=/verif/.work/rtdiff-target
export CARGO_NET_OFFLINE=true
mkdir -p "$crate/.cargo" "$target" /verif/.work/rtdiff-findings
# same vendored source configuration as the engine, own target dir
sed 's#^target-dir = .*#target-dir = "'"$target"'"#' /verif/engine/.cargo/config.toml > "$crate/.cargo/config.toml"
# starting lockfile: the repository's own (pins the whole solana 2.1.20 tree); cargo adds the few
# verification-only crates (proptest, ...) from the vendor directory
[ -f "$crate/Cargo.lock" ] || cp /repo/Cargo.lock "$crate/Cargo.lock"
log="$target/build.log"
if ! ( cd "$crate" && cargo +stable build --release >"$log" 2>&1 ); then
  grep -E "^error" -A14 "$log" | head -120
  echo "rtdiff.sh: build failed (full log: $log)" >&2
  exit 3
fi
grep -E "Finished" "$log" >&2 || true
exec "$target/release/rtdiff" --cases "$cases" --seed "$seed" "$@"
