#!/bin/bash
# soundness_sweep.sh <seed...>: run every quick check on the UNCHANGED tree with other seeds; evidence goes to .work/sweep-out
cd /verif
( cd engine && cargo +stable build --release --bin mfv >/dev/null 2>&1 )
mkdir -p /verif/.work/sweep-out; cp -f /verif/KNOWN_FINDINGS.jsonl /verif/.work/sweep-out/   # the known-findings file is looked up under VERIF_ROOT
for seed in "$@"; do
  for id in C01 C02 C03 C04 C05 C06 C07 C08 C09 C10 C11 C12 C13 C14 C15 C16 C17 C18 C19 C20; do
    out=$(VERIF_ROOT=/verif/.work/sweep-out VERIF_SEED=$seed nice -n 5 /verif/.work/target/release/mfv $id quick 2>&1); rc=$?
    echo "seed=$seed $id rc=$rc $(echo "$out" | grep -E "^$id " | head -1)"
    if [ $rc -ne 0 ]; then echo "$out" | grep -E "violated|VIOLATION|KNOWN|INCONCLUSIVE|ENGINE" | head -5; fi
  done
done
