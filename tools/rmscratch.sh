#!/bin/bash
set -u
name="$1"
root="/tmp/mfv-$name"
git -C /repo worktree remove --force "$root/repo" >/dev/null 2>&1 || true
rm -rf "$root"
git -C /repo worktree prune
