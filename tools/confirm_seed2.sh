#!/bin/bash
# confirm_seed2.sh <id> <install-cmd> <demo-cmd>: like confirm_seed.sh but in ONE shared worktree /tmp/seed-confirm
# (the agent's out/ directory was moved to /tmp/seedout/<id>; its own worktree is already deleted to save disk)
export CARGO_PROFILE_DEV_DEBUG=line-tables-only   # the pre-built target copies were produced with it
id="$1"; install="$2"; demo="$3"; d="${CONFIRM_DIR:-/tmp/seed-confirm}"; o="/tmp/seedout/$id"
[ -d "$d" ] || { git -C /repo worktree add --detach "$d" HEAD >/dev/null 2>&1; cp -a /repo/target "$d/target"; }
cd "$d" || exit 2
rm -rf out; ln -s "$o" out
git checkout -- . ; git clean -fdq -e target -e out
git apply out/patch.diff || { echo "patch does not apply"; exit 3; }
eval "$install"
echo "--- demo WITH change"; eval "$demo" > out/confirm_demo_with.log 2>&1; rc1=$?; tail -3 out/confirm_demo_with.log | head -3
git apply -R out/patch.diff
echo "--- demo WITHOUT change"; eval "$demo" > out/confirm_demo_without.log 2>&1; rc2=$?; tail -3 out/confirm_demo_without.log | head -3
git checkout -- . ; git clean -fdq -e target -e out
git apply out/patch.diff
echo "--- full suite WITH change"; cargo test --workspace --no-fail-fast --offline > out/confirm_full_with.log 2>&1
python3 /verif/tools/baseline_check.py out/confirm_full_with.log; rc3=$?
git checkout -- . ; git clean -fdq -e target -e out
echo "RESULT id=$id demo_with_rc=$rc1 demo_without_rc=$rc2 baseline_rc=$rc3"
