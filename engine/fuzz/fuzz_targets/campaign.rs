#![no_main]
//! Coverage-guided driver for the stateful campaign: bytes -> (world, ops) -> real program ->
//! monitors. A finding of the property selected by MFV_FUZZ_TARGET is written as a JSON replay
//! (the reproducible unit) and the process aborts so that libFuzzer saves the input as well.
use libfuzzer_sys::fuzz_target;
use std::sync::Once;

static INIT: Once = Once::new();

fuzz_target!(|data: &[u8]| {
    INIT.call_once(|| {
        mfv::common::silence_program_stdout();
        // program panics are ordinary failed instructions: let catch_unwind in the runtime see them
        std::panic::set_hook(Box::new(|_| {}));
    });
    let target = std::env::var("MFV_FUZZ_TARGET").unwrap_or_else(|_| "C01".to_string());
    let (spec, ops) = mfv::campaign::decode_case(data);
    if let Some((sig, msg, case)) = mfv::props::stateful::fuzz_one(&target, &spec, &ops) {
        let dir = std::env::var("MFV_FUZZ_FINDINGS").unwrap_or_else(|_| "/verif/.work/fuzz-findings".to_string());
        let _ = std::fs::create_dir_all(&dir);
        let body = serde_json::json!({"property": target, "signature": sig, "message": msg, "case": case});
        let h = mfv::common::hash_json(&body);
        let _ = std::fs::write(format!("{dir}/{target}-{h:016x}.json"), serde_json::to_string_pretty(&body).unwrap());
        std::process::abort();
    }
});
