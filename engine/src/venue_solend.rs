//! Fake SOLEND venue: a native program registered under the SOLEND program id, so that marginfi's
//! `lending_pool_add_bank_solend` / `solend_init_obligation` / `solend_deposit` / `solend_withdraw`
//! run for real (`marginfi::entry` -> Anchor constraints -> handler -> CPI into `process` below -> CPI
//! into SPL-Token / Token-2022), plus the world helpers to create and use such a bank.
//!
//! Account layouts are the ones of `solend-mocks` (= the real Solend byte layouts: Reserve 619 bytes,
//! Obligation 1300 bytes, LendingMarket 290 bytes, all starting with a version byte = 1).
//!
//! Instructions implemented (Solend `LendingInstruction` tags; everything else -> `Ok(())`):
//!   3  RefreshReserve     [reserve w, pyth, (switchboard)]           stamps slot = clock.slot, stale = 0; nothing else
//!   6  InitObligation     [obligation w, market, owner s, rent, token_program]
//!   7  RefreshObligation  [obligation w, reserves..]                 stamps slot = clock.slot, stale = 0; nothing else
//!   14 DepositReserveLiquidityAndObligationCollateral (u64 liquidity amount)
//!   15 WithdrawObligationCollateralAndRedeemReserveCollateral (u64 collateral amount, u64::MAX = all)
use crate::svm::{Acct, Vm};
use crate::world::{self, kp, BankInfo, BankSpec, World};
use anchor_lang::{InstructionData, ToAccountMetas};
use num_bigint::{BigInt, BigUint};
use num_integer::Integer;
use num_traits::{One, ToPrimitive, Zero};
use solana_program::{
    account_info::AccountInfo,
    clock::Clock,
    entrypoint::ProgramResult,
    instruction::{AccountMeta, Instruction},
    program::invoke_signed,
    program_error::ProgramError,
    pubkey::Pubkey,
    system_program,
    sysvar::Sysvar,
};
use solend_mocks::state::{SolendMinimalReserve, LENDING_MARKET_LEN, OBLIGATION_LEN, RESERVE_LEN};
use std::sync::atomic::{AtomicU8, Ordering};

// ------------------------------------------------------------------------------------------
// ids, errors, knobs
// ------------------------------------------------------------------------------------------
pub fn program_id() -> Pubkey {
    solend_mocks::ID
}

/// Errors of the fake are `ProgramError::Custom(ERR_BASE + n)`, n = the number of the like-named Solend `LendingError`.
pub const ERR_BASE: u32 = 0x501E_0000;
pub mod err {
    pub const ALREADY_INITIALIZED: u32 = 1;
    pub const NOT_RENT_EXEMPT: u32 = 2;
    pub const INVALID_MARKET_AUTHORITY: u32 = 3;
    pub const INVALID_ACCOUNT_OWNER: u32 = 5;
    pub const INVALID_TOKEN_PROGRAM: u32 = 9;
    pub const INVALID_AMOUNT: u32 = 10;
    pub const INVALID_SIGNER: u32 = 12;
    pub const INVALID_ACCOUNT_INPUT: u32 = 13;
    pub const MATH_OVERFLOW: u32 = 14;
    pub const INSUFFICIENT_LIQUIDITY: u32 = 20;
    pub const RESERVE_STALE: u32 = 22;
    pub const WITHDRAW_TOO_LARGE: u32 = 24;
    pub const OBLIGATION_RESERVE_LIMIT: u32 = 31;
    pub const INVALID_OBLIGATION_OWNER: u32 = 32;
    pub const INVALID_OBLIGATION_COLLATERAL: u32 = 37;
    pub const OBLIGATION_COLLATERAL_EMPTY: u32 = 39;
    pub const INVALID_ORACLE_CONFIG: u32 = 44;
    pub const NOT_WRITABLE: u32 = 90;
    pub const BORROWS_UNSUPPORTED: u32 = 91;
}
fn e(c: u32) -> ProgramError {
    ProgramError::Custom(ERR_BASE + c)
}
/// true if `code` (as returned by `svm::err_code`) was raised by the fake venue itself
pub fn is_venue_error(code: u64) -> bool {
    code >= ERR_BASE as u64 && code < ERR_BASE as u64 + 0x1_0000
}

/// How the fake converts liquidity <-> collateral.
/// `Mocks` (default): the conversion functions of the `solend-mocks` crate (the ones marginfi checks the
/// position delta against, so the delta check passes with difference 0).
/// `Wad`: the real Solend arithmetic (18-decimal fixed point: rate = floor(supply*1e18 / total_liquidity),
/// collateral = floor(liquidity*rate), liquidity = floor(collateral/rate)).
#[derive(Clone, Copy, Debug, PartialEq, Eq)]
pub enum MathMode {
    Mocks,
    Wad,
}
static MATH_MODE: AtomicU8 = AtomicU8::new(0);
pub fn set_math_mode(m: MathMode) {
    MATH_MODE.store(if m == MathMode::Mocks { 0 } else { 1 }, Ordering::SeqCst);
}
pub fn math_mode() -> MathMode {
    if MATH_MODE.load(Ordering::SeqCst) == 0 {
        MathMode::Mocks
    } else {
        MathMode::Wad
    }
}
/// Real Solend marks the reserve stale (flag) at the end of deposit / withdraw and refuses a withdraw while the
/// flag is set or the slot is old. `true` (default) = faithful; `false` = the withdraw only looks at the slot
/// (what marginfi's own `is_stale` looks at).
static STRICT_STALE: AtomicU8 = AtomicU8::new(1);
pub fn set_strict_stale_flag(on: bool) {
    STRICT_STALE.store(on as u8, Ordering::SeqCst);
}

/// Registers the fake under the SOLEND program id (process-wide, idempotent). Until this is called the id stays
/// the do-nothing program of `svm::noop_ids()`.
pub fn register() {
    static ONCE: std::sync::Once = std::sync::Once::new();
    ONCE.call_once(|| crate::svm::register_program(program_id(), process));
}

// ------------------------------------------------------------------------------------------
// raw layouts
// ------------------------------------------------------------------------------------------
pub const WAD: u128 = 1_000_000_000_000_000_000;

// LendingMarket (290): version u8 | bump u8 | owner 32 | quote currency 32 | token program 32 | ...
const MK_BUMP: usize = 1;
const MK_OWNER: usize = 2;
const MK_QUOTE: usize = 34;
const MK_TOKEN_PROGRAM: usize = 66;

// Obligation (1300)
const OB_SLOT: usize = 1;
const OB_STALE: usize = 9;
const OB_MARKET: usize = 10;
const OB_OWNER: usize = 42;
const OB_DEPOSITS_LEN: usize = 202;
const OB_BORROWS_LEN: usize = 203;
const OB_FLAT: usize = 204;
const OB_DEPOSIT_SIZE: usize = 88;
const OB_MAX_ENTRIES: usize = 10;

// Reserve (619), absolute offsets (version byte at 0) — used by `exact_rate` / `reserve_view` independently of the mocks struct
const RS_SLOT: usize = 1;
const RS_STALE: usize = 9;
const RS_AVAILABLE: usize = 171;
const RS_BORROWED_WADS: usize = 179;
const RS_CTOKEN_SUPPLY: usize = 259;
const RS_FEES_WADS: usize = 373;

fn rd_u64(d: &[u8], o: usize) -> u64 {
    u64::from_le_bytes(d[o..o + 8].try_into().unwrap())
}
fn rd_u128(d: &[u8], o: usize) -> u128 {
    u128::from_le_bytes(d[o..o + 16].try_into().unwrap())
}
fn rd_key(d: &[u8], o: usize) -> Pubkey {
    Pubkey::new_from_array(d[o..o + 32].try_into().unwrap())
}

fn load_reserve(pid: &Pubkey, ai: &AccountInfo) -> Result<SolendMinimalReserve, ProgramError> {
    if ai.owner != pid {
        return Err(e(err::INVALID_ACCOUNT_OWNER));
    }
    let d = ai.try_borrow_data()?;
    if d.len() != RESERVE_LEN || d[0] != 1 {
        return Err(ProgramError::InvalidAccountData);
    }
    Ok(bytemuck::pod_read_unaligned::<SolendMinimalReserve>(&d[1..RESERVE_LEN]))
}
fn store_reserve(ai: &AccountInfo, r: &SolendMinimalReserve) -> ProgramResult {
    if !ai.is_writable {
        return Err(e(err::NOT_WRITABLE));
    }
    let mut d = ai.try_borrow_mut_data()?;
    d[1..RESERVE_LEN].copy_from_slice(bytemuck::bytes_of(r));
    Ok(())
}

struct Market {
    bump: u8,
    token_program: Pubkey,
}
fn load_market(pid: &Pubkey, ai: &AccountInfo) -> Result<Market, ProgramError> {
    if ai.owner != pid {
        return Err(e(err::INVALID_ACCOUNT_OWNER));
    }
    let d = ai.try_borrow_data()?;
    if d.len() != LENDING_MARKET_LEN || d[0] != 1 {
        return Err(ProgramError::InvalidAccountData);
    }
    Ok(Market { bump: d[MK_BUMP], token_program: rd_key(&d, MK_TOKEN_PROGRAM) })
}

fn check_market_authority(pid: &Pubkey, market: &AccountInfo, m: &Market, lma: &AccountInfo) -> ProgramResult {
    let expect = Pubkey::create_program_address(&[market.key.as_ref(), &[m.bump]], pid).map_err(|_| e(err::INVALID_MARKET_AUTHORITY))?;
    if expect != *lma.key {
        return Err(e(err::INVALID_MARKET_AUTHORITY));
    }
    Ok(())
}

/// checks the obligation (program owner, version, market, position owner + its signature); returns nothing
fn check_obligation(pid: &Pubkey, ob: &AccountInfo, market: &Pubkey, owner: &AccountInfo) -> ProgramResult {
    if ob.owner != pid {
        return Err(e(err::INVALID_ACCOUNT_OWNER));
    }
    let d = ob.try_borrow_data()?;
    if d.len() != OBLIGATION_LEN || d[0] != 1 {
        return Err(ProgramError::InvalidAccountData);
    }
    if rd_key(&d, OB_MARKET) != *market {
        return Err(e(err::INVALID_ACCOUNT_INPUT));
    }
    if rd_key(&d, OB_OWNER) != *owner.key {
        return Err(e(err::INVALID_OBLIGATION_OWNER));
    }
    if !owner.is_signer {
        return Err(e(err::INVALID_SIGNER));
    }
    if !ob.is_writable {
        return Err(e(err::NOT_WRITABLE));
    }
    Ok(())
}

fn ob_find_deposit(d: &[u8], reserve: &Pubkey) -> Option<usize> {
    let n = d[OB_DEPOSITS_LEN] as usize;
    (0..n).find(|i| rd_key(d, OB_FLAT + i * OB_DEPOSIT_SIZE) == *reserve)
}

// ------------------------------------------------------------------------------------------
// conversions
// ------------------------------------------------------------------------------------------
/// total liquidity of the reserve in wads: available*1e18 + borrowed_wads - protocol_fees_wads
fn total_liquidity_wads(r: &SolendMinimalReserve) -> Result<BigUint, ProgramError> {
    let plus = BigUint::from(r.liquidity_available_amount) * BigUint::from(WAD) + BigUint::from(u128::from_le_bytes(r.liquidity_borrowed_amount_wads));
    let fees = BigUint::from(u128::from_le_bytes(r.liquidity_accumulated_protocol_fees_wads));
    if fees > plus {
        return Err(e(err::MATH_OVERFLOW));
    }
    Ok(plus - fees)
}
fn wad_rate(r: &SolendMinimalReserve, total: &BigUint) -> BigUint {
    // Decimal(supply) / Decimal(total) as an 18-decimal Rate, floor
    BigUint::from(r.collateral_mint_total_supply) * BigUint::from(WAD) * BigUint::from(WAD) / total
}
fn liq_to_col(r: &SolendMinimalReserve, liq: u64) -> Result<u64, ProgramError> {
    let total = total_liquidity_wads(r)?;
    if r.collateral_mint_total_supply == 0 || total.is_zero() {
        return Ok(liq); // INITIAL_COLLATERAL_RATE = 1
    }
    match math_mode() {
        MathMode::Mocks => r.liquidity_to_collateral(liq).map_err(|_| e(err::MATH_OVERFLOW)),
        MathMode::Wad => (BigUint::from(liq) * wad_rate(r, &total) / BigUint::from(WAD)).to_u64().ok_or(e(err::MATH_OVERFLOW)),
    }
}
fn col_to_liq(r: &SolendMinimalReserve, col: u64) -> Result<u64, ProgramError> {
    let total = total_liquidity_wads(r)?;
    if r.collateral_mint_total_supply == 0 || total.is_zero() {
        return Ok(col);
    }
    match math_mode() {
        MathMode::Mocks => r.collateral_to_liquidity(col).map_err(|_| e(err::MATH_OVERFLOW)),
        MathMode::Wad => {
            let rate = wad_rate(r, &total);
            if rate.is_zero() {
                return Err(e(err::MATH_OVERFLOW));
            }
            (BigUint::from(col) * BigUint::from(WAD) * BigUint::from(WAD) / rate / BigUint::from(WAD)).to_u64().ok_or(e(err::MATH_OVERFLOW))
        }
    }
}

// ------------------------------------------------------------------------------------------
// token CPIs (the same unchecked Transfer / MintTo / Burn the real program issues; identical encoding for both token programs)
// ------------------------------------------------------------------------------------------
#[allow(deprecated)]
fn token_transfer<'a>(tp: &Pubkey, from: &AccountInfo<'a>, to: &AccountInfo<'a>, auth: &AccountInfo<'a>, amount: u64, seeds: &[&[&[u8]]]) -> ProgramResult {
    let ix = spl_token_2022::instruction::transfer(tp, from.key, to.key, auth.key, &[], amount)?;
    invoke_signed(&ix, &[from.clone(), to.clone(), auth.clone()], seeds)
}
fn token_mint_to<'a>(tp: &Pubkey, mint: &AccountInfo<'a>, to: &AccountInfo<'a>, auth: &AccountInfo<'a>, amount: u64, seeds: &[&[&[u8]]]) -> ProgramResult {
    let ix = spl_token_2022::instruction::mint_to(tp, mint.key, to.key, auth.key, &[], amount)?;
    invoke_signed(&ix, &[mint.clone(), to.clone(), auth.clone()], seeds)
}
fn token_burn<'a>(tp: &Pubkey, acct: &AccountInfo<'a>, mint: &AccountInfo<'a>, auth: &AccountInfo<'a>, amount: u64, seeds: &[&[&[u8]]]) -> ProgramResult {
    let ix = spl_token_2022::instruction::burn(tp, acct.key, mint.key, auth.key, &[], amount)?;
    invoke_signed(&ix, &[acct.clone(), mint.clone(), auth.clone()], seeds)
}

// ------------------------------------------------------------------------------------------
// the program
// ------------------------------------------------------------------------------------------
pub fn process(pid: &Pubkey, ais: &[AccountInfo], data: &[u8]) -> ProgramResult {
    let amount = |d: &[u8]| u64::from_le_bytes(d[1..9].try_into().unwrap());
    match (data.first().copied(), data.len()) {
        (Some(3), 1) => refresh_reserve(pid, ais),
        (Some(6), 1) => init_obligation(pid, ais),
        (Some(7), 1) => refresh_obligation(pid, ais),
        (Some(14), 9) => deposit(pid, ais, amount(data)),
        (Some(15), 9) => withdraw(pid, ais, amount(data)),
        _ => Ok(()),
    }
}

fn refresh_reserve(pid: &Pubkey, ais: &[AccountInfo]) -> ProgramResult {
    if ais.is_empty() {
        return Err(ProgramError::NotEnoughAccountKeys);
    }
    let mut r = load_reserve(pid, &ais[0])?;
    let (pyth, swb) = (r.liquidity_pyth_oracle_pubkey, r.liquidity_switchboard_oracle_pubkey);
    if ais.len() >= 2 && *ais[1].key != pyth {
        return Err(e(err::INVALID_ORACLE_CONFIG));
    }
    if ais.len() >= 3 && *ais[2].key != swb {
        return Err(e(err::INVALID_ORACLE_CONFIG));
    }
    r.last_update_slot = Clock::get()?.slot;
    r.last_update_stale = 0;
    store_reserve(&ais[0], &r)
}

fn refresh_obligation(pid: &Pubkey, ais: &[AccountInfo]) -> ProgramResult {
    if ais.is_empty() {
        return Err(ProgramError::NotEnoughAccountKeys);
    }
    let ob = &ais[0];
    if ob.owner != pid {
        return Err(e(err::INVALID_ACCOUNT_OWNER));
    }
    if !ob.is_writable {
        return Err(e(err::NOT_WRITABLE));
    }
    let mut d = ob.try_borrow_mut_data()?;
    if d.len() != OBLIGATION_LEN || d[0] != 1 {
        return Err(ProgramError::InvalidAccountData);
    }
    d[OB_SLOT..OB_SLOT + 8].copy_from_slice(&Clock::get()?.slot.to_le_bytes());
    d[OB_STALE] = 0;
    Ok(())
}

fn init_obligation(pid: &Pubkey, ais: &[AccountInfo]) -> ProgramResult {
    if ais.len() < 5 {
        return Err(ProgramError::NotEnoughAccountKeys);
    }
    let (ob, market, owner, token_program) = (&ais[0], &ais[1], &ais[2], &ais[4]);
    if ob.owner != pid {
        return Err(e(err::INVALID_ACCOUNT_OWNER));
    }
    if !ob.is_writable {
        return Err(e(err::NOT_WRITABLE));
    }
    let m = load_market(pid, market)?;
    if *token_program.key != m.token_program {
        return Err(e(err::INVALID_TOKEN_PROGRAM));
    }
    if !owner.is_signer {
        return Err(e(err::INVALID_SIGNER));
    }
    if !solana_program::rent::Rent::get()?.is_exempt(ob.lamports(), ob.data_len()) {
        return Err(e(err::NOT_RENT_EXEMPT));
    }
    let mut d = ob.try_borrow_mut_data()?;
    if d.len() != OBLIGATION_LEN {
        return Err(ProgramError::InvalidAccountData);
    }
    if d[0] != 0 {
        return Err(e(err::ALREADY_INITIALIZED));
    }
    d.fill(0);
    d[0] = 1;
    d[OB_SLOT..OB_SLOT + 8].copy_from_slice(&Clock::get()?.slot.to_le_bytes());
    d[OB_STALE] = 1;
    d[OB_MARKET..OB_MARKET + 32].copy_from_slice(market.key.as_ref());
    d[OB_OWNER..OB_OWNER + 32].copy_from_slice(owner.key.as_ref());
    Ok(())
}

fn deposit(pid: &Pubkey, ais: &[AccountInfo], amount: u64) -> ProgramResult {
    if ais.len() < 14 {
        return Err(ProgramError::NotEnoughAccountKeys);
    }
    let (src, ucol, reserve_ai, liq_supply, cmint, market, lma, dst_col, ob, ob_owner, xfer_auth, token_program) =
        (&ais[0], &ais[1], &ais[2], &ais[3], &ais[4], &ais[5], &ais[6], &ais[7], &ais[8], &ais[9], &ais[12], &ais[13]);
    if amount == 0 {
        return Err(e(err::INVALID_AMOUNT));
    }
    let m = load_market(pid, market)?;
    if *token_program.key != m.token_program {
        return Err(e(err::INVALID_TOKEN_PROGRAM));
    }
    check_market_authority(pid, market, &m, lma)?;
    let mut r = load_reserve(pid, reserve_ai)?;
    let (r_market, r_liq_supply, r_cmint, r_col_supply) = (r.lending_market, r.liquidity_supply_pubkey, r.collateral_mint_pubkey, r.collateral_supply_pubkey);
    if r_market != *market.key
        || r_liq_supply != *liq_supply.key
        || r_cmint != *cmint.key
        || r_col_supply != *dst_col.key
        || src.key == liq_supply.key
        || ucol.key == dst_col.key
    {
        return Err(e(err::INVALID_ACCOUNT_INPUT));
    }
    check_obligation(pid, ob, market.key, ob_owner)?;
    if !xfer_auth.is_signer {
        return Err(e(err::INVALID_SIGNER));
    }
    let clock = Clock::get()?;
    let col = liq_to_col(&r, amount)?;
    if col == 0 {
        return Err(e(err::INVALID_AMOUNT));
    }
    // reserve
    r.liquidity_available_amount = r.liquidity_available_amount.checked_add(amount).ok_or(e(err::MATH_OVERFLOW))?;
    r.collateral_mint_total_supply = r.collateral_mint_total_supply.checked_add(col).ok_or(e(err::MATH_OVERFLOW))?;
    r.last_update_slot = clock.slot;
    r.last_update_stale = 1;
    store_reserve(reserve_ai, &r)?;
    // obligation
    {
        let mut d = ob.try_borrow_mut_data()?;
        let idx = match ob_find_deposit(&d, reserve_ai.key) {
            Some(i) => i,
            None => {
                let n = d[OB_DEPOSITS_LEN] as usize;
                if d[OB_BORROWS_LEN] != 0 {
                    return Err(e(err::BORROWS_UNSUPPORTED));
                }
                if n >= OB_MAX_ENTRIES {
                    return Err(e(err::OBLIGATION_RESERVE_LIMIT));
                }
                let o = OB_FLAT + n * OB_DEPOSIT_SIZE;
                d[o..o + OB_DEPOSIT_SIZE].fill(0);
                d[o..o + 32].copy_from_slice(reserve_ai.key.as_ref());
                d[OB_DEPOSITS_LEN] = (n + 1) as u8;
                n
            }
        };
        let o = OB_FLAT + idx * OB_DEPOSIT_SIZE + 32;
        let cur = rd_u64(&d, o);
        let new = cur.checked_add(col).ok_or(e(err::MATH_OVERFLOW))?;
        d[o..o + 8].copy_from_slice(&new.to_le_bytes());
        d[OB_STALE] = 1;
    }
    // tokens: liquidity in, cTokens minted to the user's cToken account and moved into the reserve's collateral supply
    let bump = [m.bump];
    let seeds: &[&[u8]] = &[market.key.as_ref(), &bump];
    token_transfer(token_program.key, src, liq_supply, xfer_auth, amount, &[])?;
    token_mint_to(token_program.key, cmint, ucol, lma, col, &[seeds])?;
    token_transfer(token_program.key, ucol, dst_col, xfer_auth, col, &[])?;
    Ok(())
}

fn withdraw(pid: &Pubkey, ais: &[AccountInfo], amount: u64) -> ProgramResult {
    if ais.len() < 12 {
        return Err(ProgramError::NotEnoughAccountKeys);
    }
    let (src_col, dst_col, reserve_ai, ob, market, lma, dst_liq, cmint, liq_supply, ob_owner, xfer_auth, token_program) =
        (&ais[0], &ais[1], &ais[2], &ais[3], &ais[4], &ais[5], &ais[6], &ais[7], &ais[8], &ais[9], &ais[10], &ais[11]);
    if amount == 0 {
        return Err(e(err::INVALID_AMOUNT));
    }
    let m = load_market(pid, market)?;
    if *token_program.key != m.token_program {
        return Err(e(err::INVALID_TOKEN_PROGRAM));
    }
    check_market_authority(pid, market, &m, lma)?;
    let mut r = load_reserve(pid, reserve_ai)?;
    let (r_market, r_liq_supply, r_cmint, r_col_supply) = (r.lending_market, r.liquidity_supply_pubkey, r.collateral_mint_pubkey, r.collateral_supply_pubkey);
    if r_market != *market.key
        || r_liq_supply != *liq_supply.key
        || r_cmint != *cmint.key
        || r_col_supply != *src_col.key
        || dst_liq.key == liq_supply.key
        || dst_col.key == src_col.key
    {
        return Err(e(err::INVALID_ACCOUNT_INPUT));
    }
    check_obligation(pid, ob, market.key, ob_owner)?;
    if !xfer_auth.is_signer {
        return Err(e(err::INVALID_SIGNER));
    }
    let clock = Clock::get()?;
    let strict = STRICT_STALE.load(Ordering::SeqCst) != 0;
    if r.last_update_slot < clock.slot || (strict && r.last_update_stale != 0) {
        return Err(e(err::RESERVE_STALE));
    }
    // obligation
    let w_amt;
    {
        let mut d = ob.try_borrow_mut_data()?;
        if d[OB_BORROWS_LEN] != 0 {
            return Err(e(err::BORROWS_UNSUPPORTED));
        }
        let idx = ob_find_deposit(&d, reserve_ai.key).ok_or(e(err::INVALID_OBLIGATION_COLLATERAL))?;
        let o = OB_FLAT + idx * OB_DEPOSIT_SIZE + 32;
        let dep = rd_u64(&d, o);
        if dep == 0 {
            return Err(e(err::OBLIGATION_COLLATERAL_EMPTY));
        }
        w_amt = if amount == u64::MAX {
            dep
        } else if amount > dep {
            return Err(e(err::WITHDRAW_TOO_LARGE));
        } else {
            amount
        };
        let left = dep - w_amt;
        if left == 0 {
            // the real program removes an emptied deposit entry
            let n = d[OB_DEPOSITS_LEN] as usize;
            let start = OB_FLAT + idx * OB_DEPOSIT_SIZE;
            let end = OB_FLAT + n * OB_DEPOSIT_SIZE;
            d.copy_within(start + OB_DEPOSIT_SIZE..end, start);
            d[end - OB_DEPOSIT_SIZE..end].fill(0);
            d[OB_DEPOSITS_LEN] = (n - 1) as u8;
        } else {
            d[o..o + 8].copy_from_slice(&left.to_le_bytes());
        }
        d[OB_STALE] = 1;
    }
    // reserve
    let liq = col_to_liq(&r, w_amt)?;
    if liq > r.liquidity_available_amount {
        return Err(e(err::INSUFFICIENT_LIQUIDITY));
    }
    r.liquidity_available_amount -= liq;
    r.collateral_mint_total_supply = r.collateral_mint_total_supply.checked_sub(w_amt).ok_or(e(err::MATH_OVERFLOW))?;
    r.last_update_stale = 1;
    store_reserve(reserve_ai, &r)?;
    // tokens: cTokens out of the collateral supply into the user's cToken account, burnt there; liquidity out of the vault
    let bump = [m.bump];
    let seeds: &[&[u8]] = &[market.key.as_ref(), &bump];
    token_transfer(token_program.key, src_col, dst_col, lma, w_amt, &[seeds])?;
    token_burn(token_program.key, dst_col, cmint, xfer_auth, w_amt, &[])?;
    token_transfer(token_program.key, liq_supply, dst_liq, lma, liq, &[seeds])?;
    Ok(())
}

// ------------------------------------------------------------------------------------------
// world helpers
// ------------------------------------------------------------------------------------------
pub const ASSET_TAG_SOLEND: u8 = 5;

/// Every venue-side account of one SOLEND bank (all derived from the bank index).
#[derive(Clone, Debug)]
pub struct VenueBank {
    pub index: usize,
    pub bank: Pubkey,
    pub mint: Pubkey,
    pub token_program: Pubkey,
    pub lv: Pubkey,
    pub lv_auth: Pubkey,
    pub reserve: Pubkey,
    pub obligation: Pubkey,
    pub lending_market: Pubkey,
    pub lending_market_authority: Pubkey,
    pub lending_market_bump: u8,
    /// the venue's token vault (owner = `lending_market_authority`)
    pub liquidity_supply: Pubkey,
    pub collateral_mint: Pubkey,
    /// cTokens deposited as obligation collateral (owner = `lending_market_authority`)
    pub collateral_supply: Pubkey,
    /// the bank's transit cToken account (owner = the bank's liquidity-vault authority)
    pub user_collateral: Pubkey,
    /// cTokens of the pre-existing third-party depositors
    pub third_party_collateral: Pubkey,
    pub pyth_price: Pubkey,
    pub switchboard_feed: Pubkey,
}

/// State of the reserve before marginfi arrives (third-party depositors / borrowers), in raw units.
#[derive(Clone, Debug, PartialEq)]
pub struct ReserveSeed {
    pub available: u64,
    pub borrowed_wads: u128,
    pub fees_wads: u128,
    pub ctoken_supply: u64,
    /// amount (underlying) of the mandatory `solend_init_obligation` deposit (>= 10)
    pub init_amount: u64,
}
impl ReserveSeed {
    /// 1000 tokens available + 250 tokens lent out against 1000 cTokens: rate 1.25 underlying per cToken
    pub fn default_for(decimals: u8) -> ReserveSeed {
        let one = 10u64.pow(decimals as u32);
        ReserveSeed { available: 1000 * one, borrowed_wads: 250 * one as u128 * WAD, fees_wads: 0, ctoken_supply: 1000 * one, init_amount: 100 }
    }
    pub fn empty() -> ReserveSeed {
        ReserveSeed { available: 0, borrowed_wads: 0, fees_wads: 0, ctoken_supply: 0, init_amount: 100 }
    }
}

pub fn is_venue_bank(b: &BankInfo) -> bool {
    b.spec.asset_tag == ASSET_TAG_SOLEND
}

pub fn null_oracle() -> Pubkey {
    kp("solend_null_oracle", 0)
}

fn keys_for(group: &Pubkey, i: usize, token: u8, oracle_kind: u8) -> VenueBank {
    let n = i as u64;
    let mint = kp("mint", n);
    let bank = Pubkey::find_program_address(&[group.as_ref(), mint.as_ref(), &n.to_le_bytes()], &marginfi::ID).0;
    let lending_market = kp("solend_market", n);
    let (lma, bump) = Pubkey::find_program_address(&[lending_market.as_ref()], &program_id());
    let oracle = kp("oracle", n);
    VenueBank {
        index: i,
        bank,
        mint,
        token_program: if token == 0 { spl_token::ID } else { spl_token_2022::ID },
        lv: world::bank_pda("liquidity_vault", &bank),
        lv_auth: world::bank_pda("liquidity_vault_auth", &bank),
        reserve: kp("solend_reserve", n),
        obligation: Pubkey::find_program_address(&[marginfi::constants::SOLEND_OBLIGATION_SEED.as_bytes(), bank.as_ref()], &marginfi::ID).0,
        lending_market,
        lending_market_authority: lma,
        lending_market_bump: bump,
        liquidity_supply: kp("solend_liq_supply", n),
        collateral_mint: kp("solend_cmint", n),
        collateral_supply: kp("solend_col_supply", n),
        user_collateral: kp("solend_ucol", n),
        third_party_collateral: kp("solend_col_3p", n),
        pyth_price: if oracle_kind == 1 { oracle } else { null_oracle() },
        switchboard_feed: if oracle_kind == 2 { oracle } else { null_oracle() },
    }
}

/// the venue accounts of bank `bank_idx` (which must have been created by `add_bank`)
pub fn venue(w: &World, bank_idx: usize) -> VenueBank {
    let b = &w.banks[bank_idx];
    keys_for(&w.group, bank_idx, b.spec.token, b.oracle_kind)
}

fn token_acct(token_program: &Pubkey, mint_data: &[u8], mint: Pubkey, owner: Pubkey, amount: u64) -> Acct {
    if *token_program == spl_token::ID {
        world::spl_token_acct(mint, owner, amount)
    } else {
        world::t22_token_acct(mint_data, mint, owner, amount)
    }
}

fn mfi_ix(accounts: Vec<AccountMeta>, data: Vec<u8>) -> Instruction {
    Instruction { program_id: marginfi::ID, accounts, data }
}

pub fn ix_add_bank(w: &World, vb: &VenueBank, cfg: marginfi::state::solend::SolendConfigCompact, oracle: Pubkey, seed: u64, admin: Pubkey) -> Instruction {
    let bank = vb.bank;
    let mut m = marginfi::accounts::LendingPoolAddBankSolend {
        group: w.group,
        admin,
        fee_payer: admin,
        bank_mint: vb.mint,
        bank,
        integration_acc_1: vb.reserve,
        integration_acc_2: vb.obligation,
        liquidity_vault_authority: vb.lv_auth,
        liquidity_vault: vb.lv,
        insurance_vault_authority: world::bank_pda("insurance_vault_auth", &bank),
        insurance_vault: world::bank_pda("insurance_vault", &bank),
        fee_vault_authority: world::bank_pda("fee_vault_auth", &bank),
        fee_vault: world::bank_pda("fee_vault", &bank),
        token_program: vb.token_program,
        system_program: system_program::ID,
    }
    .to_account_metas(Some(true));
    m.push(AccountMeta::new_readonly(oracle, false));
    m.push(AccountMeta::new_readonly(vb.reserve, false));
    mfi_ix(m, marginfi::instruction::LendingPoolAddBankSolend { bank_config: cfg, bank_seed: seed }.data())
}

pub fn ix_init_obligation(vb: &VenueBank, payer: Pubkey, payer_token: Pubkey, amount: u64) -> Instruction {
    mfi_ix(
        marginfi::accounts::SolendInitObligation {
            fee_payer: payer,
            bank: vb.bank,
            signer_token_account: payer_token,
            liquidity_vault_authority: vb.lv_auth,
            liquidity_vault: vb.lv,
            integration_acc_2: vb.obligation,
            lending_market: vb.lending_market,
            lending_market_authority: vb.lending_market_authority,
            integration_acc_1: vb.reserve,
            mint: vb.mint,
            reserve_liquidity_supply: vb.liquidity_supply,
            reserve_collateral_mint: vb.collateral_mint,
            reserve_collateral_supply: vb.collateral_supply,
            user_collateral: vb.user_collateral,
            pyth_price: vb.pyth_price,
            switchboard_feed: vb.switchboard_feed,
            solend_program: program_id(),
            token_program: vb.token_program,
            rent: solana_program::sysvar::rent::ID,
            system_program: system_program::ID,
        }
        .to_account_metas(Some(true)),
        marginfi::instruction::SolendInitObligation { amount }.data(),
    )
}

/// `add_bank_with` with `ReserveSeed::default_for(spec.decimals)`
pub fn add_bank(w: &mut World, spec: &BankSpec) -> Result<usize, String> {
    add_bank_with(w, spec, &ReserveSeed::default_for(spec.decimals))
}

/// Fabricates the mint, the price feed and the venue (lending market, reserve, vault, cToken mint and accounts), then
/// creates the marginfi bank through `lending_pool_add_bank_solend` (group admin) and `solend_init_obligation`
/// (admin pays the nominal deposit). Used fields of `spec`: decimals, token (0 SPL, 1 Token-2022, 2 Token-2022 with
/// transfer fee), fee_bps/fee_max, aw_i, aw_m, isolated, deposit_limit, init_limit, oracle (kind 1 = Pyth push feed ->
/// `SolendPythPull`, kind 2 = Switchboard pull -> `SolendSwitchboardPull`), op_state.
pub fn add_bank_with(w: &mut World, spec: &BankSpec, seed: &ReserveSeed) -> Result<usize, String> {
    use marginfi_type_crate::types::{OracleSetup, RiskTier};
    register();
    if spec.oracle.kind != 1 && spec.oracle.kind != 2 {
        return Err("solend bank: oracle kind must be 1 (Pyth) or 2 (Switchboard)".into());
    }
    let i = w.banks.len();
    let vb = keys_for(&w.group, i, spec.token, spec.oracle.kind);
    let admin = w.roles.admin;
    let now = w.vm.now();
    let slot = w.vm.clock.slot;
    // program + sysvar accounts
    w.vm.set(program_id(), Acct { lamports: 1, executable: true, owner: solana_program::bpf_loader::ID, data: vec![] });
    if w.vm.get(&solana_program::sysvar::rent::ID).is_none() {
        let r = solana_program::rent::Rent::default();
        let mut d = r.lamports_per_byte_year.to_le_bytes().to_vec();
        d.extend_from_slice(&r.exemption_threshold.to_le_bytes());
        d.push(r.burn_percent);
        w.vm.set(solana_program::sysvar::rent::ID, Acct { lamports: 1_009_200, data: d, owner: solana_program::sysvar::ID, executable: false });
    }
    // liquidity mint
    match spec.token {
        0 => w.vm.set(vb.mint, world::spl_mint_acct(spec.decimals)),
        1 => w.vm.set(vb.mint, world::t22_mint_acct(spec.decimals, None)),
        _ => w.vm.set(vb.mint, world::t22_mint_acct(spec.decimals, Some((spec.fee_bps, spec.fee_max)))),
    }
    let mint_data = w.vm.data(&vb.mint).to_vec();
    // price feed
    let oracle_key = kp("oracle", i as u64);
    w.vm.set(oracle_key, spec.oracle.account(now).unwrap());
    // lending market
    let mut md = vec![0u8; LENDING_MARKET_LEN];
    md[0] = 1;
    md[MK_BUMP] = vb.lending_market_bump;
    md[MK_OWNER..MK_OWNER + 32].copy_from_slice(kp("solend_market_owner", 0).as_ref());
    md[MK_QUOTE..MK_QUOTE + 3].copy_from_slice(b"USD");
    md[MK_TOKEN_PROGRAM..MK_TOKEN_PROGRAM + 32].copy_from_slice(vb.token_program.as_ref());
    w.vm.set(vb.lending_market, Acct { lamports: 1_000_000_000, data: md, owner: program_id(), executable: false });
    // cToken mint (authority = market authority PDA, supply = third-party cTokens) under the same token program
    let mut cm = if spec.token == 0 { world::spl_mint_acct(spec.decimals) } else { world::t22_mint_acct(spec.decimals, None) };
    cm.data[0..4].copy_from_slice(&1u32.to_le_bytes());
    cm.data[4..36].copy_from_slice(vb.lending_market_authority.as_ref());
    cm.data[36..44].copy_from_slice(&seed.ctoken_supply.to_le_bytes());
    let cmint_data = cm.data.clone();
    w.vm.set(vb.collateral_mint, cm);
    // vault + cToken accounts
    let lma = vb.lending_market_authority;
    w.vm.set(vb.liquidity_supply, token_acct(&vb.token_program, &mint_data, vb.mint, lma, seed.available));
    w.vm.set(vb.collateral_supply, token_acct(&vb.token_program, &cmint_data, vb.collateral_mint, lma, 0));
    w.vm.set(vb.user_collateral, token_acct(&vb.token_program, &cmint_data, vb.collateral_mint, vb.lv_auth, 0));
    w.vm.set(vb.third_party_collateral, token_acct(&vb.token_program, &cmint_data, vb.collateral_mint, kp("solend_third_party", 0), seed.ctoken_supply));
    // reserve
    let mut r: SolendMinimalReserve = bytemuck::Zeroable::zeroed();
    r.last_update_slot = slot;
    r.last_update_stale = 0;
    r.lending_market = vb.lending_market;
    r.liquidity_mint_pubkey = vb.mint;
    r.liquidity_mint_decimals = spec.decimals;
    r.liquidity_supply_pubkey = vb.liquidity_supply;
    r.liquidity_pyth_oracle_pubkey = vb.pyth_price;
    r.liquidity_switchboard_oracle_pubkey = vb.switchboard_feed;
    r.liquidity_available_amount = seed.available;
    r.liquidity_borrowed_amount_wads = seed.borrowed_wads.to_le_bytes();
    r.liquidity_cumulative_borrow_rate_wads = WAD.to_le_bytes();
    r.liquidity_market_price = WAD.to_le_bytes();
    r.collateral_mint_pubkey = vb.collateral_mint;
    r.collateral_mint_total_supply = seed.ctoken_supply;
    r.collateral_supply_pubkey = vb.collateral_supply;
    r.config_optimal_utilization_rate = 80;
    r.config_loan_to_value_ratio = 50;
    r.config_liquidation_bonus = 5;
    r.config_liquidation_threshold = 55;
    r.liquidity_accumulated_protocol_fees_wads = seed.fees_wads.to_le_bytes();
    let mut rd = vec![1u8];
    rd.extend_from_slice(bytemuck::bytes_of(&r));
    debug_assert_eq!(rd.len(), RESERVE_LEN);
    w.vm.set(vb.reserve, Acct { lamports: 1_000_000_000, data: rd, owner: program_id(), executable: false });

    // the bank, through the real instruction
    let mut bspec = spec.clone();
    bspec.asset_tag = ASSET_TAG_SOLEND;
    bspec.staked = None;
    let info = BankInfo {
        key: vb.bank,
        mint: vb.mint,
        token_program: vb.token_program,
        decimals: spec.decimals,
        oracle_kind: spec.oracle.kind,
        oracle_key,
        oracle_extra: vec![vb.reserve],
        lv: vb.lv,
        lv_auth: vb.lv_auth,
        iv: world::bank_pda("insurance_vault", &vb.bank),
        iv_auth: world::bank_pda("insurance_vault_auth", &vb.bank),
        fv: world::bank_pda("fee_vault", &vb.bank),
        fv_auth: world::bank_pda("fee_vault_auth", &vb.bank),
        fee_ata: world::ata(&w.fee_wallet, &vb.mint, &vb.token_program),
        spec: bspec,
    };
    let fee_ata_acct = w.make_token_acct(&info, w.fee_wallet, 0);
    w.vm.set(info.fee_ata, fee_ata_acct);
    let cfg = marginfi::state::solend::SolendConfigCompact {
        oracle: oracle_key,
        asset_weight_init: world::w_mill(spec.aw_i),
        asset_weight_maint: world::w_mill(spec.aw_m),
        deposit_limit: spec.deposit_limit,
        oracle_setup: if spec.oracle.kind == 1 { OracleSetup::SolendPythPull } else { OracleSetup::SolendSwitchboardPull },
        operational_state: world::op_state(spec.op_state),
        risk_tier: if spec.isolated { RiskTier::Isolated } else { RiskTier::Collateral },
        config_flags: marginfi_type_crate::constants::PYTH_PUSH_MIGRATED_DEPRECATED,
        total_asset_value_init_limit: spec.init_limit,
        oracle_max_age: spec.oracle.max_age,
        oracle_max_confidence: spec.oracle.max_conf,
    };
    let ix = ix_add_bank(w, &vb, cfg, oracle_key, i as u64, admin);
    w.vm.exec(&ix).map_err(|e| format!("lending_pool_add_bank_solend {i}: {e:?}"))?;
    // the obligation, through the real instruction (the admin provides the nominal deposit)
    let admin_ta = kp("solend_admin_ta", i as u64);
    let a = w.make_token_acct(&info, admin, seed.init_amount.saturating_mul(2).saturating_add(1_000_000));
    w.vm.set(admin_ta, a);
    let ix = ix_init_obligation(&vb, admin, admin_ta, seed.init_amount);
    w.vm.exec(&ix).map_err(|e| format!("solend_init_obligation {i}: {e:?}"))?;
    // the init deposit marks the reserve stale (flag); the world starts with a refreshed reserve
    w.banks.push(info);
    refresh_direct(w, i);
    if spec.emode_tag != 0 || !spec.emode_entries.is_empty() {
        let ix = w.ix_config_emode(i, spec.emode_tag, &spec.emode_entries, w.roles.emode);
        w.vm.exec(&ix).map_err(|e| format!("emode solend bank {i}: {e:?}"))?;
    }
    // a token account per existing user
    let user_tokens = w.spec.user_tokens;
    for u in 0..w.users.len() {
        if w.users[u].tokens.len() != i {
            return Err(format!("user {u} has {} token accounts, expected {i}", w.users[u].tokens.len()));
        }
        let k = kp("uta", (u as u64) << 16 | i as u64);
        let a = w.make_token_acct(&w.banks[i], w.users[u].auth, user_tokens);
        w.vm.set(k, a);
        w.users[u].tokens.push(k);
    }
    Ok(i)
}

/// `solend_deposit` of `amount` (underlying units) by user `user` (authority + token account) into marginfi account `acct`
pub fn ix_deposit(w: &World, user: usize, acct: &Pubkey, bank: usize, amount: u64) -> Instruction {
    ix_deposit_from(w, acct, bank, amount, w.users[user].auth, w.users[user].tokens[bank])
}
pub fn ix_deposit_from(w: &World, acct: &Pubkey, bank: usize, amount: u64, signer: Pubkey, src: Pubkey) -> Instruction {
    let vb = venue(w, bank);
    mfi_ix(
        marginfi::accounts::SolendDeposit {
            group: w.group,
            marginfi_account: *acct,
            authority: signer,
            bank: vb.bank,
            signer_token_account: src,
            liquidity_vault_authority: vb.lv_auth,
            liquidity_vault: vb.lv,
            integration_acc_2: vb.obligation,
            lending_market: vb.lending_market,
            lending_market_authority: vb.lending_market_authority,
            integration_acc_1: vb.reserve,
            mint: vb.mint,
            reserve_liquidity_supply: vb.liquidity_supply,
            reserve_collateral_mint: vb.collateral_mint,
            reserve_collateral_supply: vb.collateral_supply,
            user_collateral: vb.user_collateral,
            pyth_price: vb.pyth_price,
            switchboard_feed: vb.switchboard_feed,
            solend_program: program_id(),
            token_program: vb.token_program,
        }
        .to_account_metas(Some(true)),
        marginfi::instruction::SolendDeposit { amount }.data(),
    )
}

/// `solend_withdraw` of `amount` COLLATERAL units (cTokens; ignored when `all`) from `acct`, signed by `signer`, underlying
/// paid to `dest`. Remaining accounts = `w.risk_metas` (the withdrawn bank excluded when `all`). `user` is informational.
pub fn ix_withdraw(w: &World, _user: usize, acct: &Pubkey, bank: usize, amount: u64, all: bool, signer: Pubkey, dest: Pubkey) -> Instruction {
    let risk = w.risk_metas(acct, None, if all { Some(w.banks[bank].key) } else { None });
    ix_withdraw_with(w, acct, bank, amount, all, signer, dest, risk)
}
pub fn ix_withdraw_with(w: &World, acct: &Pubkey, bank: usize, amount: u64, all: bool, signer: Pubkey, dest: Pubkey, risk: Vec<AccountMeta>) -> Instruction {
    let vb = venue(w, bank);
    let mut m = marginfi::accounts::SolendWithdraw {
        group: w.group,
        marginfi_account: *acct,
        authority: signer,
        bank: vb.bank,
        destination_token_account: dest,
        liquidity_vault_authority: vb.lv_auth,
        liquidity_vault: vb.lv,
        integration_acc_2: vb.obligation,
        lending_market: vb.lending_market,
        lending_market_authority: vb.lending_market_authority,
        integration_acc_1: vb.reserve,
        mint: vb.mint,
        reserve_liquidity_supply: vb.liquidity_supply,
        reserve_collateral_mint: vb.collateral_mint,
        reserve_collateral_supply: vb.collateral_supply,
        user_collateral: vb.user_collateral,
        solend_program: program_id(),
        token_program: vb.token_program,
    }
    .to_account_metas(Some(true));
    m.extend(risk);
    mfi_ix(m, marginfi::instruction::SolendWithdraw { amount, withdraw_all: if all { Some(true) } else { None } }.data())
}

/// the venue's RefreshReserve instruction (what a client puts at the top of the transaction)
pub fn refresh_ixs(w: &World, bank: usize) -> Vec<Instruction> {
    let vb = venue(w, bank);
    vec![Instruction {
        program_id: program_id(),
        accounts: vec![AccountMeta::new(vb.reserve, false), AccountMeta::new_readonly(vb.pyth_price, false), AccountMeta::new_readonly(vb.switchboard_feed, false)],
        data: vec![3],
    }]
}
/// the venue's RefreshObligation instruction (not needed by marginfi or by the fake's withdraw; for completeness)
pub fn ix_refresh_obligation(w: &World, bank: usize) -> Instruction {
    let vb = venue(w, bank);
    Instruction { program_id: program_id(), accounts: vec![AccountMeta::new(vb.obligation, false), AccountMeta::new_readonly(vb.reserve, false)], data: vec![7] }
}
/// what `refresh_ixs` does, directly in the store: reserve slot = current slot, stale flag cleared
pub fn refresh_direct(w: &mut World, bank: usize) {
    let reserve = w.banks[bank].oracle_extra[0];
    let slot = w.vm.clock.slot;
    w.vm.modify(&reserve, |a| {
        a.data[RS_SLOT..RS_SLOT + 8].copy_from_slice(&slot.to_le_bytes());
        a.data[RS_STALE] = 0;
    });
}

/// Interest accrues at the venue (the outside world acting): total liquidity grows by `factor_ppm` millionths, booked
/// as borrowed liquidity (borrowers owe more); no tokens move, the cToken supply is unchanged, so every cToken is
/// worth more underlying. Freshness stamps are not touched.
pub fn accrue(vm: &mut Vm, bank: &VenueBank, factor_ppm: u64) {
    let d = vm.data(&bank.reserve).to_vec();
    let total = BigUint::from(rd_u64(&d, RS_AVAILABLE)) * BigUint::from(WAD) + BigUint::from(rd_u128(&d, RS_BORROWED_WADS)) - BigUint::from(rd_u128(&d, RS_FEES_WADS));
    let delta = total * BigUint::from(factor_ppm) / BigUint::from(1_000_000u64);
    let new_borrowed = (BigUint::from(rd_u128(&d, RS_BORROWED_WADS)) + delta).to_u128().expect("borrowed wads overflow");
    vm.modify(&bank.reserve, |a| a.data[RS_BORROWED_WADS..RS_BORROWED_WADS + 16].copy_from_slice(&new_borrowed.to_le_bytes()));
}

/// A loss at the venue (the outside world acting): `factor_ppm` millionths of the borrowed liquidity are written off
/// (never below the protocol fees, so total liquidity stays non-negative); no tokens move, the cToken supply is
/// unchanged, so every cToken is worth LESS underlying - enough of it puts the reserve below par. Freshness untouched.
pub fn loss(vm: &mut Vm, bank: &VenueBank, factor_ppm: u64) {
    let factor_ppm = factor_ppm.min(1_000_000);
    let d = vm.data(&bank.reserve).to_vec();
    let b = rd_u128(&d, RS_BORROWED_WADS);
    let fees = rd_u128(&d, RS_FEES_WADS);
    let nb = (BigUint::from(b) * BigUint::from(1_000_000u64 - factor_ppm) / BigUint::from(1_000_000u64)).to_u128().unwrap_or(u128::MAX).max(fees.min(b));
    vm.modify(&bank.reserve, |a| a.data[RS_BORROWED_WADS..RS_BORROWED_WADS + 16].copy_from_slice(&nb.to_le_bytes()));
}

/// The venue's exact exchange rate, underlying units per collateral unit, as a reduced fraction (num, den), read from
/// the raw reserve account: (available*1e18 + borrowed_wads - protocol_fees_wads) / (1e18 * cToken supply).
/// With no cTokens outstanding the rate is 1 (Solend's initial rate; marginfi leaves the price unadjusted then).
pub fn exact_rate(vm: &Vm, bank: &BankInfo) -> (BigInt, BigInt) {
    exact_rate_of(vm, &bank.oracle_extra[0])
}
pub fn exact_rate_of(vm: &Vm, reserve: &Pubkey) -> (BigInt, BigInt) {
    let d = vm.data(reserve);
    let supply = rd_u64(d, RS_CTOKEN_SUPPLY);
    if supply == 0 {
        return (BigInt::one(), BigInt::one());
    }
    let num = BigInt::from(rd_u64(d, RS_AVAILABLE)) * BigInt::from(WAD) + BigInt::from(rd_u128(d, RS_BORROWED_WADS)) - BigInt::from(rd_u128(d, RS_FEES_WADS));
    let den = BigInt::from(supply) * BigInt::from(WAD);
    let g = num.gcd(&den);
    if g.is_zero() {
        (num, den)
    } else {
        (num / &g, den / &g)
    }
}

#[derive(Clone, Debug, PartialEq)]
pub struct ReserveView {
    pub slot: u64,
    pub stale: bool,
    pub available: u64,
    pub borrowed_wads: u128,
    pub fees_wads: u128,
    pub ctoken_supply: u64,
}
pub fn reserve_view(vm: &Vm, reserve: &Pubkey) -> ReserveView {
    let d = vm.data(reserve);
    ReserveView {
        slot: rd_u64(d, RS_SLOT),
        stale: d[RS_STALE] != 0,
        available: rd_u64(d, RS_AVAILABLE),
        borrowed_wads: rd_u128(d, RS_BORROWED_WADS),
        fees_wads: rd_u128(d, RS_FEES_WADS),
        ctoken_supply: rd_u64(d, RS_CTOKEN_SUPPLY),
    }
}
/// cTokens deposited in the obligation for `reserve` (0 if there is no such entry)
pub fn obligation_deposit(vm: &Vm, obligation: &Pubkey, reserve: &Pubkey) -> u64 {
    let d = vm.data(obligation);
    if d.len() != OBLIGATION_LEN {
        return 0;
    }
    match ob_find_deposit(d, reserve) {
        Some(i) => rd_u64(d, OB_FLAT + i * OB_DEPOSIT_SIZE + 32),
        None => 0,
    }
}
