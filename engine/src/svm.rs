//! svm-lite: a deterministic mini runtime that executes the real `marginfi::entry` natively with
//! full Anchor account validation and CPIs into the real SPL-Token / Token-2022 processors.
use solana_program::{
    account_info::AccountInfo,
    clock::Clock,
    entrypoint::ProgramResult,
    instruction::{AccountMeta, Instruction},
    program_error::ProgramError,
    program_stubs,
    pubkey::Pubkey,
    system_instruction::SystemInstruction,
    system_program,
};
use std::cell::RefCell;
use std::collections::BTreeMap;
use std::sync::{Arc, Once};

#[derive(Clone, Debug, Default, PartialEq, Eq)]
pub struct Acct {
    pub lamports: u64,
    pub data: Vec<u8>,
    pub owner: Pubkey,
    pub executable: bool,
}

thread_local! {
    static CLOCK: RefCell<Clock> = RefCell::new(Clock::default());
    static STACK: RefCell<Vec<Pubkey>> = RefCell::new(vec![]);
    static RETURN_DATA: RefCell<(Pubkey, Vec<u8>)> = RefCell::new((Pubkey::default(), vec![]));
    static PANICS: RefCell<u64> = RefCell::new(0);
    static LAST_PANIC: RefCell<Option<String>> = RefCell::new(None);
}

/// set the clock that `Clock::get()` returns on this thread (for checks that call program functions directly)
pub fn set_thread_clock(slot: u64, unix_timestamp: i64) {
    CLOCK.with(|c| {
        let mut c = c.borrow_mut();
        c.slot = slot;
        c.unix_timestamp = unix_timestamp;
    });
}

pub const PANIC_CODE: u32 = 0xdead_beef;
pub const PRIV_ESCALATION_CODE: u32 = 0xdead_0001;
pub const READONLY_MODIFIED_CODE: u32 = 0xdead_0002;
pub const UNBALANCED_CODE: u32 = 0xdead_0003;
pub const EXTERNAL_MODIFIED_CODE: u32 = 0xdead_0005;
/// transaction-level refusal: a writable account would be left rent-paying (the runtime's
/// `TransactionError::InsufficientFundsForRent`); reported with instruction index = number of instructions
pub const RENT_STATE_CODE: u32 = 0xdead_0006;
/// the real system program's own error codes (`SystemError`)
pub const SYSTEM_ACCOUNT_ALREADY_IN_USE: u32 = 0;
pub const SYSTEM_RESULT_WITH_NEGATIVE_LAMPORTS: u32 = 1;

/// Program id of the proxy ("called via CPI") program registered under an id that is on the
/// receivership allow-list (Jupiter) and under an unknown id.
pub fn proxy_id_allowed() -> Pubkey {
    solana_program::pubkey!("JUP6LkbZbjS1jKKwapdHNy74zcZ3tLUZoi5QNyVTaV4")
}
pub fn proxy_id_unknown() -> Pubkey {
    Pubkey::new_from_array([7u8; 32])
}
/// A do-nothing program (accepts any instruction) registered under these ids, to model foreign
/// top-level instructions (compute budget, swaps, refreshes).
pub fn noop_ids() -> Vec<Pubkey> {
    vec![
        solana_program::pubkey!("ComputeBudget111111111111111111111111111111"),
        Pubkey::new_from_array([9u8; 32]),
        // venue / swap programs named by the receivership allow-list (accept anything, do nothing)
        solana_program::pubkey!("T1TANpTeScyeqVzzgNViGDNrkQ6qHz9KrSBS4aNXvGT"),
        solana_program::pubkey!("dRiftyHA39MWEi3m9aunc5MzRF1JYuBsbn6VPcn33UH"),
        kamino_mocks::kamino_lending::ID,
        solend_mocks::ID,
    ]
}

struct Stubs;
impl program_stubs::SyscallStubs for Stubs {
    fn sol_log(&self, _m: &str) {}
    fn sol_log_data(&self, _f: &[&[u8]]) {}
    fn sol_log_compute_units(&self) {}
    fn sol_remaining_compute_units(&self) -> u64 {
        1_400_000
    }
    fn sol_get_clock_sysvar(&self, var_addr: *mut u8) -> u64 {
        CLOCK.with(|c| unsafe { *(var_addr as *mut Clock) = c.borrow().clone() });
        0
    }
    fn sol_get_rent_sysvar(&self, var_addr: *mut u8) -> u64 {
        unsafe { *(var_addr as *mut solana_program::rent::Rent) = solana_program::rent::Rent::default() };
        0
    }
    fn sol_get_stack_height(&self) -> u64 {
        STACK.with(|s| s.borrow().len() as u64)
    }
    fn sol_get_return_data(&self) -> Option<(Pubkey, Vec<u8>)> {
        RETURN_DATA.with(|r| {
            let r = r.borrow();
            if r.1.is_empty() {
                None
            } else {
                Some(r.clone())
            }
        })
    }
    fn sol_set_return_data(&self, data: &[u8]) {
        let caller = STACK.with(|s| s.borrow().last().copied().unwrap_or_default());
        RETURN_DATA.with(|r| *r.borrow_mut() = (caller, data.to_vec()));
    }
    fn sol_invoke_signed(&self, ix: &Instruction, ais: &[AccountInfo], seeds: &[&[&[u8]]]) -> ProgramResult {
        let caller = STACK.with(|s| *s.borrow().last().unwrap());
        let pda_signers: Vec<Pubkey> = seeds
            .iter()
            .map(|s| Pubkey::create_program_address(s, &caller).map_err(|_| ProgramError::InvalidSeeds))
            .collect::<Result<_, _>>()?;
        let mut callee_ais = vec![];
        for m in &ix.accounts {
            let ai = ais.iter().find(|a| *a.key == m.pubkey).ok_or(ProgramError::NotEnoughAccountKeys)?;
            let mut n = ai.clone();
            if m.is_signer && !(ai.is_signer || pda_signers.contains(ai.key)) {
                return Err(ProgramError::MissingRequiredSignature);
            }
            if m.is_writable && !ai.is_writable {
                return Err(ProgramError::Custom(PRIV_ESCALATION_CODE));
            }
            n.is_signer = m.is_signer;
            n.is_writable = m.is_writable;
            callee_ais.push(n);
        }
        // the callee program account must be among the accounts in the real runtime; we only
        // require that it is a known program
        if STACK.with(|s| s.borrow().len()) >= 5 {
            return Err(ProgramError::Custom(0xdead_0004));
        }
        // runtime rule: a program may change the data / debit the lamports / change the owner only of
        // accounts it owns (SPL-Token relies on this instead of checking token-account owners)
        let pre: Vec<(Pubkey, u64, Vec<u8>)> = callee_ais.iter().map(|a| (*a.owner, **a.lamports.borrow(), a.data.borrow().to_vec())).collect();
        STACK.with(|s| s.borrow_mut().push(ix.program_id));
        let r = dispatch(&ix.program_id, &callee_ais, &ix.data);
        STACK.with(|s| s.borrow_mut().pop());
        if r.is_ok() {
            // nested programs (proxy -> marginfi -> token) are checked at their own level
            let transparent = ix.program_id == proxy_id_allowed() || ix.program_id == proxy_id_unknown();
            if !transparent {
                for (a, (owner0, lam0, data0)) in callee_ais.iter().zip(pre.iter()) {
                    let owned = *owner0 == ix.program_id;
                    let data_changed = a.data.borrow().as_ref() != data0.as_slice();
                    let debited = **a.lamports.borrow() < *lam0;
                    let owner_changed = a.owner != owner0;
                    if (data_changed || debited || owner_changed) && !owned {
                        // marginfi itself CPIs further (token transfers): accounts changed by its callees
                        // were already checked there, so only direct callees that are leaf programs are judged
                        if ix.program_id != marginfi::ID && extra_program(&ix.program_id).is_none() {
                            return Err(ProgramError::Custom(EXTERNAL_MODIFIED_CODE));
                        }
                    }
                }
            }
        }
        r
    }
}

/// Extra native programs (fake third-party venues, see `venues/`): consulted by `dispatch` before the do-nothing
/// ids. A registered program may CPI further (token transfers), so — like marginfi — it is not judged by the
/// "only the owner may change an account" rule at its own level (its callees are judged at theirs).
pub type ProcessFn = fn(&Pubkey, &[AccountInfo], &[u8]) -> ProgramResult;
static EXTRA_PROGRAMS: std::sync::RwLock<Vec<(Pubkey, ProcessFn)>> = std::sync::RwLock::new(Vec::new());
pub fn register_program(pid: Pubkey, f: ProcessFn) {
    let mut g = EXTRA_PROGRAMS.write().unwrap();
    if let Some(e) = g.iter_mut().find(|e| e.0 == pid) {
        e.1 = f;
    } else {
        g.push((pid, f));
    }
}
fn extra_program(pid: &Pubkey) -> Option<ProcessFn> {
    EXTRA_PROGRAMS.read().unwrap().iter().find(|e| e.0 == *pid).map(|e| e.1)
}

static INIT: Once = Once::new();
pub fn init() {
    INIT.call_once(|| {
        program_stubs::set_syscall_stubs(Box::new(Stubs));
    });
}

fn dispatch(pid: &Pubkey, ais: &[AccountInfo], data: &[u8]) -> ProgramResult {
    if *pid == marginfi::ID {
        let ais: &[AccountInfo] = unsafe { std::mem::transmute(ais) };
        marginfi::entry(pid, ais, data)
    } else if *pid == spl_token::ID {
        spl_token::processor::Processor::process(pid, ais, data)
    } else if *pid == spl_token_2022::ID {
        spl_token_2022::processor::Processor::process(pid, ais, data)
    } else if *pid == system_program::ID {
        system(ais, data)
    } else if *pid == proxy_id_allowed() || *pid == proxy_id_unknown() {
        // data = inner program id (32) + inner data; accounts = inner accounts (same flags)
        if data.len() < 32 {
            // used as a plain foreign instruction (e.g. a "swap"): do nothing
            return Ok(());
        }
        let inner_pid = Pubkey::new_from_array(data[..32].try_into().unwrap());
        if inner_pid == Pubkey::default() {
            return Ok(());
        }
        let metas: Vec<AccountMeta> =
            ais.iter().map(|a| AccountMeta { pubkey: *a.key, is_signer: a.is_signer, is_writable: a.is_writable }).collect();
        let ix = Instruction { program_id: inner_pid, accounts: metas, data: data[32..].to_vec() };
        solana_program::program::invoke(&ix, ais)
    } else if let Some(f) = extra_program(pid) {
        let ais: &[AccountInfo] = unsafe { std::mem::transmute(ais) };
        f(pid, ais, data)
    } else if noop_ids().contains(pid) {
        Ok(())
    } else {
        Err(ProgramError::IncorrectProgramId)
    }
}

fn system(ais: &[AccountInfo], data: &[u8]) -> ProgramResult {
    let ix: SystemInstruction =
        solana_program::program_utils::limited_deserialize(data, 1232).map_err(|_| ProgramError::InvalidInstructionData)?;
    match ix {
        SystemInstruction::CreateAccount { lamports, space, owner } => {
            if ais.len() < 2 {
                return Err(ProgramError::NotEnoughAccountKeys);
            }
            let (from, to) = (&ais[0], &ais[1]);
            if !from.is_signer || !to.is_signer {
                return Err(ProgramError::MissingRequiredSignature);
            }
            if **to.lamports.borrow() != 0 || to.data_len() != 0 || *to.owner != system_program::ID {
                return Err(ProgramError::Custom(SYSTEM_ACCOUNT_ALREADY_IN_USE));
            }
            if *from.owner != system_program::ID || from.data_len() != 0 {
                return Err(ProgramError::InvalidArgument);
            }
            if **from.lamports.borrow() < lamports {
                return Err(ProgramError::Custom(SYSTEM_RESULT_WITH_NEGATIVE_LAMPORTS));
            }
            **from.lamports.borrow_mut() -= lamports;
            **to.lamports.borrow_mut() += lamports;
            to.realloc(space as usize, true)?;
            to.assign(&owner);
            Ok(())
        }
        SystemInstruction::Transfer { lamports } => {
            if ais.len() < 2 {
                return Err(ProgramError::NotEnoughAccountKeys);
            }
            let (from, to) = (&ais[0], &ais[1]);
            if !from.is_signer {
                return Err(ProgramError::MissingRequiredSignature);
            }
            if *from.owner != system_program::ID || from.data_len() != 0 {
                return Err(ProgramError::InvalidArgument);
            }
            if **from.lamports.borrow() < lamports {
                return Err(ProgramError::Custom(SYSTEM_RESULT_WITH_NEGATIVE_LAMPORTS));
            }
            if from.key == to.key {
                return Ok(());
            }
            **from.lamports.borrow_mut() -= lamports;
            **to.lamports.borrow_mut() += lamports;
            Ok(())
        }
        SystemInstruction::Allocate { space } => {
            let a = &ais[0];
            if !a.is_signer {
                return Err(ProgramError::MissingRequiredSignature);
            }
            if a.data_len() != 0 || *a.owner != system_program::ID {
                return Err(ProgramError::Custom(SYSTEM_ACCOUNT_ALREADY_IN_USE));
            }
            a.realloc(space as usize, true)
        }
        SystemInstruction::Assign { owner } => {
            let a = &ais[0];
            if !a.is_signer {
                return Err(ProgramError::MissingRequiredSignature);
            }
            if *a.owner != system_program::ID {
                return Err(ProgramError::InvalidArgument);
            }
            a.assign(&owner);
            Ok(())
        }
        _ => Err(ProgramError::InvalidInstructionData),
    }
}

#[derive(Clone, Default, Debug)]
pub struct Vm {
    pub accts: BTreeMap<Pubkey, Arc<Acct>>,
    pub clock: Clock,
    pub panics: u64,
    pub executed: u64,
}

#[derive(Clone, Debug)]
pub struct TxOutcome {
    pub ok: bool,
    /// index of the failing instruction and its error
    pub err: Option<(usize, ProgramError)>,
}

pub fn err_code(e: &ProgramError) -> u64 {
    match e {
        ProgramError::Custom(c) => *c as u64,
        other => u64::from(other.clone()),
    }
}

impl Vm {
    pub fn new(start_time: i64) -> Vm {
        init();
        let mut vm = Vm::default();
        vm.clock.unix_timestamp = start_time;
        vm.clock.slot = 1000;
        vm.clock.epoch = 0;
        for p in [system_program::ID, spl_token::ID, spl_token_2022::ID, marginfi::ID, proxy_id_allowed(), proxy_id_unknown(), spl_associated_token_account::ID] {
            vm.set(p, Acct { lamports: 1, executable: true, owner: solana_program::bpf_loader::ID, data: vec![] });
        }
        for p in noop_ids() {
            vm.set(p, Acct { lamports: 1, executable: true, owner: solana_program::bpf_loader::ID, data: vec![] });
        }
        vm
    }
    pub fn set(&mut self, k: Pubkey, a: Acct) {
        self.accts.insert(k, Arc::new(a));
    }
    pub fn get(&self, k: &Pubkey) -> Option<&Acct> {
        self.accts.get(k).map(|a| a.as_ref())
    }
    pub fn data(&self, k: &Pubkey) -> &[u8] {
        self.accts.get(k).map(|a| a.data.as_slice()).unwrap_or(&[])
    }
    pub fn modify<F: FnOnce(&mut Acct)>(&mut self, k: &Pubkey, f: F) {
        let mut a = self.accts.get(k).map(|a| a.as_ref().clone()).unwrap_or(Acct { owner: system_program::ID, ..Default::default() });
        f(&mut a);
        self.accts.insert(*k, Arc::new(a));
    }
    pub fn advance(&mut self, secs: i64) {
        self.clock.unix_timestamp += secs;
        // ~2 slots per second
        self.clock.slot += (secs.max(0) as u64) * 2 + 1;
    }
    pub fn now(&self) -> i64 {
        self.clock.unix_timestamp
    }

    /// Execute one instruction against the store; commit the account changes only on success.
    pub fn exec_ix(&mut self, ix: &Instruction) -> ProgramResult {
        init();
        self.executed += 1;
        CLOCK.with(|c| *c.borrow_mut() = self.clock.clone());
        let mut uniq: Vec<(Pubkey, bool, bool)> = vec![];
        let mut order: Vec<usize> = vec![];
        for m in &ix.accounts {
            if let Some(i) = uniq.iter().position(|u| u.0 == m.pubkey) {
                uniq[i].1 |= m.is_signer;
                uniq[i].2 |= m.is_writable;
                order.push(i);
            } else {
                uniq.push((m.pubkey, m.is_signer, m.is_writable));
                order.push(uniq.len() - 1);
            }
        }
        if ix.accounts.len() > 255 {
            return Err(ProgramError::MaxAccountsDataAllocationsExceeded);
        }
        let mut bytes: Vec<u8> = Vec::with_capacity(16 * 1024 * uniq.len().max(1));
        bytes.extend_from_slice(&(ix.accounts.len() as u64).to_le_bytes());
        let mut first_pos: Vec<Option<usize>> = vec![None; uniq.len()];
        let mut pre: Vec<Option<Arc<Acct>>> = vec![None; uniq.len()];
        for (pos, &ui) in order.iter().enumerate() {
            if let Some(fp) = first_pos[ui] {
                bytes.push(fp as u8);
                bytes.extend_from_slice(&[0u8; 7]);
                continue;
            }
            first_pos[ui] = Some(pos);
            let (k, s, w) = uniq[ui];
            let a = self.accts.get(&k).cloned().unwrap_or_else(|| Arc::new(Acct { owner: system_program::ID, ..Default::default() }));
            bytes.push(u8::MAX);
            bytes.push(s as u8);
            bytes.push(w as u8);
            bytes.push(a.executable as u8);
            bytes.extend_from_slice(&[0u8; 4]);
            bytes.extend_from_slice(k.as_ref());
            bytes.extend_from_slice(a.owner.as_ref());
            bytes.extend_from_slice(&a.lamports.to_le_bytes());
            bytes.extend_from_slice(&(a.data.len() as u64).to_le_bytes());
            bytes.extend_from_slice(&a.data);
            bytes.resize(bytes.len() + 10240, 0);
            while bytes.len() % 8 != 0 {
                bytes.push(0);
            }
            bytes.extend_from_slice(&0u64.to_le_bytes());
            pre[ui] = Some(a);
        }
        bytes.extend_from_slice(&(ix.data.len() as u64).to_le_bytes());
        bytes.extend_from_slice(&ix.data);
        bytes.extend_from_slice(ix.program_id.as_ref());
        let mut buf: Vec<u64> = vec![0u64; (bytes.len() + 7) / 8];
        let p = buf.as_mut_ptr() as *mut u8;
        unsafe { std::ptr::copy_nonoverlapping(bytes.as_ptr(), p, bytes.len()) };
        drop(bytes);
        let (pid, ais, data) = unsafe { solana_program::entrypoint::deserialize(p) };
        STACK.with(|s| {
            let mut s = s.borrow_mut();
            s.clear();
            s.push(*pid);
        });
        RETURN_DATA.with(|r| r.borrow_mut().1.clear());
        let r = match std::panic::catch_unwind(std::panic::AssertUnwindSafe(|| dispatch(pid, &ais, data))) {
            Ok(r) => r,
            Err(e) => {
                self.panics += 1;
                let msg = e
                    .downcast_ref::<String>()
                    .cloned()
                    .or_else(|| e.downcast_ref::<&str>().map(|s| s.to_string()))
                    .unwrap_or_default();
                LAST_PANIC.with(|l| *l.borrow_mut() = Some(msg));
                PANICS.with(|p| *p.borrow_mut() += 1);
                Err(ProgramError::Custom(PANIC_CODE))
            }
        };
        STACK.with(|s| s.borrow_mut().clear());
        if r.is_ok() {
            // runtime post-conditions: read-only accounts unchanged, lamports conserved
            let mut pre_sum: u128 = 0;
            let mut post_sum: u128 = 0;
            let mut updates: Vec<(Pubkey, Acct)> = vec![];
            for (pos, &ui) in order.iter().enumerate() {
                if first_pos[ui] != Some(pos) {
                    continue;
                }
                let ai = &ais[pos];
                let old = pre[ui].as_ref().unwrap();
                let new = Acct { lamports: **ai.lamports.borrow(), data: ai.data.borrow().to_vec(), owner: *ai.owner, executable: ai.executable };
                pre_sum += old.lamports as u128;
                post_sum += new.lamports as u128;
                if new != **old {
                    if !uniq[ui].2 {
                        return Err(ProgramError::Custom(READONLY_MODIFIED_CODE));
                    }
                    updates.push((*ai.key, new));
                }
            }
            if pre_sum != post_sum {
                return Err(ProgramError::Custom(UNBALANCED_CODE));
            }
            for (k, a) in updates {
                self.accts.insert(k, Arc::new(a));
            }
        }
        r
    }

    /// Execute a transaction atomically. `observe(i, vm)` is called after each successful
    /// instruction with the intermediate (uncommitted) state.
    pub fn exec_tx_observe<F: FnMut(usize, &Vm)>(&mut self, ixs: &[Instruction], mut observe: F) -> TxOutcome {
        use solana_program::sysvar::instructions::{construct_instructions_data, store_current_index, BorrowedAccountMeta, BorrowedInstruction};
        let snap = self.accts.clone();
        let b: Vec<BorrowedInstruction> = ixs
            .iter()
            .map(|ix| BorrowedInstruction {
                program_id: &ix.program_id,
                accounts: ix.accounts.iter().map(|m| BorrowedAccountMeta { pubkey: &m.pubkey, is_signer: m.is_signer, is_writable: m.is_writable }).collect(),
                data: &ix.data,
            })
            .collect();
        let mut data = construct_instructions_data(&b);
        let sysvar_id = solana_program::sysvar::instructions::ID;
        for (i, ix) in ixs.iter().enumerate() {
            store_current_index(&mut data, i as u16);
            self.set(sysvar_id, Acct { lamports: 1, data: data.clone(), owner: solana_program::sysvar::ID, executable: false });
            if let Err(e) = self.exec_ix(ix) {
                self.accts = snap;
                return TxOutcome { ok: false, err: Some((i, e)) };
            }
            observe(i, self);
        }
        self.accts.remove(&sysvar_id);
        // rent-state rule of the runtime: every writable account must end the transaction non-existent
        // (0 lamports) or rent-exempt, unless it was already rent-paying with the same size and did not gain lamports
        {
            #[derive(PartialEq)]
            enum Rs {
                Uninit,
                Paying(u64, usize),
                Exempt,
            }
            let rent = solana_program::rent::Rent::default();
            let st = |a: Option<&Arc<Acct>>| match a {
                None => Rs::Uninit,
                Some(a) if a.lamports == 0 => Rs::Uninit,
                Some(a) if rent.is_exempt(a.lamports, a.data.len()) => Rs::Exempt,
                Some(a) => Rs::Paying(a.lamports, a.data.len()),
            };
            let mut writable: std::collections::BTreeSet<Pubkey> = Default::default();
            for ix in ixs {
                for m in &ix.accounts {
                    if m.is_writable {
                        writable.insert(m.pubkey);
                    }
                }
            }
            for k in writable.iter() {
                let (pre, post) = (snap.get(k), self.accts.get(k));
                if let (Some(x), Some(y)) = (pre, post) {
                    if Arc::ptr_eq(x, y) {
                        continue;
                    }
                }
                let ok = match (st(pre), st(post)) {
                    (_, Rs::Uninit) | (_, Rs::Exempt) => true,
                    (Rs::Paying(l0, s0), Rs::Paying(l1, s1)) => s0 == s1 && l1 <= l0,
                    _ => false,
                };
                if !ok {
                    self.accts = snap;
                    return TxOutcome { ok: false, err: Some((ixs.len(), ProgramError::Custom(RENT_STATE_CODE))) };
                }
            }
        }
        // purge zero-lamport accounts (end-of-transaction cleanup)
        let dead: Vec<Pubkey> = self.accts.iter().filter(|(_, a)| a.lamports == 0).map(|(k, _)| *k).collect();
        for k in dead {
            self.accts.remove(&k);
        }
        TxOutcome { ok: true, err: None }
    }

    pub fn exec_tx(&mut self, ixs: &[Instruction]) -> TxOutcome {
        self.exec_tx_observe(ixs, |_, _| {})
    }

    /// single-instruction transaction
    pub fn exec(&mut self, ix: &Instruction) -> ProgramResult {
        let r = self.exec_tx(std::slice::from_ref(ix));
        match r.err {
            None => Ok(()),
            Some((_, e)) => Err(e),
        }
    }
}

pub fn last_panic() -> Option<String> {
    LAST_PANIC.with(|l| l.borrow().clone())
}

/// wrap an instruction so that it is executed via CPI from the proxy program `proxy`
pub fn wrap_cpi(proxy: Pubkey, ix: &Instruction) -> Instruction {
    let mut d = ix.program_id.to_bytes().to_vec();
    d.extend_from_slice(&ix.data);
    Instruction { program_id: proxy, accounts: ix.accounts.clone(), data: d }
}
