//! Exact arithmetic helpers: I80F48 bits <-> BigRational, powers of ten, floor/ceil.
use fixed::types::I80F48;
use marginfi_type_crate::types::WrappedI80F48;
use num_bigint::BigInt;
use num_rational::BigRational;
use num_traits::{One, Signed, ToPrimitive, Zero};

pub type Q = BigRational;

pub fn q_int<T: Into<BigInt>>(x: T) -> Q {
    Q::from_integer(x.into())
}
pub fn q_ratio<A: Into<BigInt>, B: Into<BigInt>>(a: A, b: B) -> Q {
    Q::new(a.into(), b.into())
}
pub fn two48() -> BigInt {
    BigInt::one() << 48
}
/// one unit in the last place of I80F48
pub fn ulp() -> Q {
    Q::new(BigInt::one(), two48())
}
pub fn q_fixed(x: I80F48) -> Q {
    Q::new(BigInt::from(x.to_bits()), two48())
}
pub fn q_w(x: WrappedI80F48) -> Q {
    q_fixed(I80F48::from(x))
}
pub fn q_bits(bits: i128) -> Q {
    Q::new(BigInt::from(bits), two48())
}
pub fn pow10(d: u32) -> Q {
    Q::from_integer(BigInt::from(10u8).pow(d))
}
pub fn q_floor(x: &Q) -> BigInt {
    x.floor().to_integer()
}
pub fn q_ceil(x: &Q) -> BigInt {
    x.ceil().to_integer()
}
pub fn q_f64(x: &Q) -> f64 {
    // good enough for reporting
    let n = x.numer().to_f64().unwrap_or(f64::NAN);
    let d = x.denom().to_f64().unwrap_or(f64::NAN);
    if n.is_finite() && d.is_finite() {
        n / d
    } else {
        // scale down
        let bits = x.numer().bits().max(x.denom().bits());
        let sh = bits.saturating_sub(1000) as usize;
        let n = (x.numer() >> sh).to_f64().unwrap_or(f64::NAN);
        let d = (x.denom() >> sh).to_f64().unwrap_or(f64::NAN);
        n / d
    }
}
pub fn q_str(x: &Q) -> String {
    format!("{:.12e}", q_f64(x))
}
pub fn q_abs(x: &Q) -> Q {
    x.abs()
}
pub fn q_max(a: Q, b: Q) -> Q {
    if a >= b {
        a
    } else {
        b
    }
}
pub fn q_min(a: Q, b: Q) -> Q {
    if a <= b {
        a
    } else {
        b
    }
}
pub fn q_zero() -> Q {
    Q::zero()
}
pub fn q_one() -> Q {
    Q::one()
}
/// Largest I80F48 value <= x (truncation toward -inf), as a rational; None if out of range.
pub fn q_to_fixed_floor(x: &Q) -> Option<I80F48> {
    let scaled = (x * Q::from_integer(two48())).floor().to_integer();
    let v: i128 = scaled.to_i128()?;
    Some(I80F48::from_bits(v))
}
pub fn fixed_from_f64(x: f64) -> I80F48 {
    I80F48::from_num(x)
}
pub fn w_from_f64(x: f64) -> WrappedI80F48 {
    I80F48::from_num(x).into()
}
pub fn w_from_bits(b: i128) -> WrappedI80F48 {
    I80F48::from_bits(b).into()
}
pub fn w_bits(x: WrappedI80F48) -> i128 {
    I80F48::from(x).to_bits()
}

/// Closed interval of rationals
#[derive(Clone, Debug)]
pub struct Iv {
    pub lo: Q,
    pub hi: Q,
}
impl Iv {
    pub fn point(x: Q) -> Iv {
        Iv { lo: x.clone(), hi: x }
    }
    pub fn new(lo: Q, hi: Q) -> Iv {
        debug_assert!(lo <= hi);
        Iv { lo, hi }
    }
    pub fn widen(&self, w: &Q) -> Iv {
        Iv { lo: &self.lo - w, hi: &self.hi + w }
    }
    pub fn add(&self, o: &Iv) -> Iv {
        Iv { lo: &self.lo + &o.lo, hi: &self.hi + &o.hi }
    }
    pub fn sub(&self, o: &Iv) -> Iv {
        Iv { lo: &self.lo - &o.hi, hi: &self.hi - &o.lo }
    }
    pub fn width(&self) -> Q {
        &self.hi - &self.lo
    }
    pub fn zero() -> Iv {
        Iv::point(Q::zero())
    }
}

impl Iv {
    /// general interval product
    pub fn mul(&self, o: &Iv) -> Iv {
        let c = [&self.lo * &o.lo, &self.lo * &o.hi, &self.hi * &o.lo, &self.hi * &o.hi];
        let mut lo = c[0].clone();
        let mut hi = c[0].clone();
        for x in &c[1..] {
            if *x < lo {
                lo = x.clone();
            }
            if *x > hi {
                hi = x.clone();
            }
        }
        Iv { lo, hi }
    }
    pub fn mul_q(&self, q: &Q) -> Iv {
        self.mul(&Iv::point(q.clone()))
    }
    /// divide by a strictly positive interval
    pub fn div_pos(&self, o: &Iv) -> Iv {
        let inv = Iv { lo: Q::one() / &o.hi, hi: Q::one() / &o.lo };
        self.mul(&inv)
    }
    /// result of one truncating fixed-point operation: the code's value lies within one ulp of
    /// the exact result (two-sided, so that it does not encode the rounding direction)
    pub fn trunc(&self) -> Iv {
        self.widen(&ulp())
    }
    pub fn min_iv(&self, o: &Iv) -> Iv {
        Iv { lo: q_min(self.lo.clone(), o.lo.clone()), hi: q_min(self.hi.clone(), o.hi.clone()) }
    }
    pub fn max_iv(&self, o: &Iv) -> Iv {
        Iv { lo: q_max(self.lo.clone(), o.lo.clone()), hi: q_max(self.hi.clone(), o.hi.clone()) }
    }
    pub fn is_pos(&self) -> bool {
        self.lo > Q::zero()
    }
    pub fn is_neg(&self) -> bool {
        self.hi < Q::zero()
    }
}
