//! The independent reference model: oracle views, position valuation and account health in
//! exact rationals with rigorous enclosures of the program's fixed-point result. Written from
//! the property statements (DESIGN.md Appendix C); never calls marginfi logic.
use crate::num::*;
use crate::svm::Vm;
use crate::world::{read_macct, try_read_bank};
use marginfi_type_crate::types::{Bank, BankOperationalState, MarginfiAccount, OracleSetup, RiskTier};
use num_traits::{One, Signed, Zero};
use solana_program::pubkey::Pubkey;

#[derive(Clone, Copy, Debug, PartialEq, Eq)]
pub enum Req {
    Initial,
    Maintenance,
    Equity,
}

#[derive(Clone, Copy, Debug, PartialEq, Eq)]
pub enum PriceKind {
    Spot,
    Ema,
}

#[derive(Clone, Debug)]
pub struct OracleView {
    /// account is authentic and fresh
    pub loaded: bool,
    pub why: &'static str,
    pub spot: Q,
    pub spot_sigma: Q,
    pub ema: Q,
    pub ema_sigma: Q,
    /// confidence multiplier (2.12 Pyth, 1.96 Switchboard, 0 fixed)
    pub k: Q,
    /// configured max confidence as a fraction of price
    pub max_conf_frac: Q,
    /// absolute widening of the price enclosures (0 for ordinary feeds; for venue banks the derived bound of the
    /// truncations the program performs while applying the venue exchange rate, see `venue_view`)
    pub extra_slack: Q,
}

impl OracleView {
    fn unusable(why: &'static str) -> OracleView {
        OracleView { loaded: false, why, spot: q_zero(), spot_sigma: q_zero(), ema: q_zero(), ema_sigma: q_zero(), k: q_zero(), max_conf_frac: q_zero(), extra_slack: q_zero() }
    }
    fn pair(&self, kind: PriceKind) -> (&Q, &Q) {
        match kind {
            PriceKind::Spot => (&self.spot, &self.spot_sigma),
            PriceKind::Ema => (&self.ema, &self.ema_sigma),
        }
    }
    /// Some(confidence band) if the confidence is within the configured maximum
    pub fn band(&self, kind: PriceKind) -> Option<Q> {
        let (p, s) = self.pair(kind);
        let ci = &self.k * s;
        if ci > p * &self.max_conf_frac {
            return None;
        }
        Some(q_min(ci, p * q_ratio(5, 100)))
    }
    /// Allowance for the program's fixed-point evaluation of the band: the constants 2.12 / 1.96 /
    /// 0.05 are themselves fixed-point numbers (off by < 1 ulp), so the band carries a relative
    /// error of one ulp of its operands on top of the truncations.
    fn band_slack(&self, kind: PriceKind) -> Q {
        let (p, s) = self.pair(kind);
        ulp() * (q_int(8) + p.abs() + &self.k * s.abs())
    }
    /// enclosure of the program's biased price: (low, high); None when unusable
    pub fn low(&self, kind: PriceKind) -> Option<Iv> {
        if !self.loaded {
            return None;
        }
        let b = self.band(kind)?;
        let (p, _) = self.pair(kind);
        Some(Iv::point(p - b).widen(&(self.band_slack(kind) + &self.extra_slack)))
    }
    pub fn high(&self, kind: PriceKind) -> Option<Iv> {
        if !self.loaded {
            return None;
        }
        let b = self.band(kind)?;
        let (p, _) = self.pair(kind);
        Some(Iv::point(p + b).widen(&(self.band_slack(kind) + &self.extra_slack)))
    }
    pub fn unbiased(&self, kind: PriceKind) -> Option<Iv> {
        if !self.loaded {
            return None;
        }
        let (p, _) = self.pair(kind);
        Some(Iv::point(p.clone()).widen(&(q_int(2) * ulp() + &self.extra_slack)))
    }
}

fn pow10_signed(e: i32) -> Q {
    if e >= 0 {
        pow10(e as u32)
    } else {
        Q::one() / pow10((-e) as u32)
    }
}

pub fn oracle_view(vm: &Vm, bank: &Bank, now: i64) -> OracleView {
    let frac = |m: u32| -> Q {
        if m == 0 {
            q_ratio(429_496_730u64, 4_294_967_295u64)
        } else {
            q_ratio(m as u64, 4_294_967_295u64)
        }
    };
    match bank.config.oracle_setup {
        OracleSetup::Fixed => {
            let p = q_w(bank.config.fixed_price);
            OracleView { loaded: true, why: "fixed", spot: p.clone(), spot_sigma: q_zero(), ema: p, ema_sigma: q_zero(), k: q_zero(), max_conf_frac: q_one(), extra_slack: q_zero() }
        }
        OracleSetup::PythPushOracle => {
            use anchor_lang::{AnchorDeserialize, Discriminator};
            use pyth_solana_receiver_sdk::price_update::{PriceUpdateV2, VerificationLevel};
            let key = bank.config.oracle_keys[0];
            let Some(a) = vm.get(&key) else { return OracleView::unusable("missing") };
            if a.owner != pyth_solana_receiver_sdk::ID {
                return OracleView::unusable("owner");
            }
            if a.data.len() < 8 || a.data[..8] != *PriceUpdateV2::DISCRIMINATOR {
                return OracleView::unusable("discriminator");
            }
            let Ok(p) = PriceUpdateV2::deserialize(&mut &a.data[8..]) else { return OracleView::unusable("layout") };
            if p.verification_level != VerificationLevel::Full {
                return OracleView::unusable("verification");
            }
            let max_age: i64 = if bank.config.oracle_max_age == 0 { 60 } else { bank.config.oracle_max_age as i64 };
            let m = p.price_message;
            if m.publish_time.saturating_add(max_age) < now {
                return OracleView::unusable("stale");
            }
            let sc = pow10_signed(m.exponent);
            OracleView {
                loaded: true,
                why: "pyth",
                spot: q_int(m.price) * &sc,
                spot_sigma: q_int(m.conf) * &sc,
                ema: q_int(m.ema_price) * &sc,
                ema_sigma: q_int(m.ema_conf) * &sc,
                k: q_ratio(212, 100),
                max_conf_frac: frac(bank.config.oracle_max_confidence),
                extra_slack: q_zero(),
            }
        }
        OracleSetup::SwitchboardPull => {
            use switchboard_on_demand::{Discriminator as D, PullFeedAccountData};
            let key = bank.config.oracle_keys[0];
            let Some(a) = vm.get(&key) else { return OracleView::unusable("missing") };
            if a.owner != marginfi::constants::SWITCHBOARD_PULL_ID {
                return OracleView::unusable("owner");
            }
            let sz = std::mem::size_of::<PullFeedAccountData>();
            if a.data.len() < 8 + sz || a.data[..8] != <PullFeedAccountData as D>::DISCRIMINATOR[..] {
                return OracleView::unusable("discriminator");
            }
            let feed: PullFeedAccountData = bytemuck::pod_read_unaligned(&a.data[8..8 + sz]);
            let max_age = bank.config.oracle_max_age as i64;
            if now.saturating_sub(feed.last_update_timestamp) > max_age {
                return OracleView::unusable("stale");
            }
            let sc = Q::one() / pow10(18);
            let p = q_int(feed.result.value) * &sc;
            let s = q_int(feed.result.std_dev) * &sc;
            OracleView { loaded: true, why: "swb", spot: p.clone(), spot_sigma: s.clone(), ema: p, ema_sigma: s, k: q_ratio(196, 100), max_conf_frac: frac(bank.config.oracle_max_confidence), extra_slack: q_zero() }
        }
        OracleSetup::StakedWithPythPush => {
            // the group's SOL feed (Pyth push) scaled by the LST rate of the bank's single-validator pool:
            // (delegated stake - the pool's own 1 SOL) / LST supply, applied to the feed's integer mantissas
            use anchor_lang::{AnchorDeserialize, Discriminator};
            use pyth_solana_receiver_sdk::price_update::{PriceUpdateV2, VerificationLevel};
            use solana_program::program_pack::Pack;
            let key = bank.config.oracle_keys[0];
            let Some(a) = vm.get(&key) else { return OracleView::unusable("missing") };
            if a.owner != pyth_solana_receiver_sdk::ID {
                return OracleView::unusable("owner");
            }
            if a.data.len() < 8 || a.data[..8] != *PriceUpdateV2::DISCRIMINATOR {
                return OracleView::unusable("discriminator");
            }
            let Ok(p) = PriceUpdateV2::deserialize(&mut &a.data[8..]) else { return OracleView::unusable("layout") };
            if p.verification_level != VerificationLevel::Full {
                return OracleView::unusable("verification");
            }
            let max_age: i64 = if bank.config.oracle_max_age == 0 { 60 } else { bank.config.oracle_max_age as i64 };
            let m = p.price_message;
            if m.publish_time.saturating_add(max_age) < now {
                return OracleView::unusable("stale");
            }
            let Some(mint) = vm.get(&bank.config.oracle_keys[1]) else { return OracleView::unusable("lst-mint-missing") };
            if mint.owner != spl_token::ID {
                return OracleView::unusable("lst-mint-owner");
            }
            let Ok(mint) = spl_token::state::Mint::unpack(&mint.data) else { return OracleView::unusable("lst-mint-layout") };
            if mint.supply == 0 {
                return OracleView::unusable("lst-supply-zero");
            }
            let Some(pool) = vm.get(&bank.config.oracle_keys[2]) else { return OracleView::unusable("sol-pool-missing") };
            if pool.data.len() < 164 || pool.data[..4] != 2u32.to_le_bytes() {
                return OracleView::unusable("sol-pool-state");
            }
            let stake = u64::from_le_bytes(pool.data[156..164].try_into().unwrap());
            let Some(adj) = stake.checked_sub(1_000_000_000) else { return OracleView::unusable("sol-pool-below-one-sol") };
            let scale = |x: i64| -> Q { Q::from_integer(q_floor(&(q_int(x) * q_int(adj) / q_int(mint.supply)))) };
            let sc = pow10_signed(m.exponent);
            OracleView {
                loaded: true,
                why: "staked",
                spot: scale(m.price) * &sc,
                spot_sigma: q_int(m.conf) * &sc,
                ema: scale(m.ema_price) * &sc,
                ema_sigma: q_int(m.ema_conf) * &sc,
                k: q_ratio(212, 100),
                max_conf_frac: frac(bank.config.oracle_max_confidence),
                extra_slack: q_zero(),
            }
        }
        OracleSetup::KaminoPythPush | OracleSetup::SolendPythPull | OracleSetup::DriftPythPull | OracleSetup::KaminoSwitchboardPull | OracleSetup::SolendSwitchboardPull | OracleSetup::DriftSwitchboardPull => venue_view(vm, bank, now, frac(bank.config.oracle_max_confidence)),
        _ => OracleView::unusable("unsupported-kind"),
    }
}

/// What the reference knows about the venue side of a venue bank: the EXACT exchange rate applied to the feed
/// (`rate`, a rational from the raw venue account; Kamino / Solend: native underlying units per collateral unit,
/// Drift: cumulative_deposit_interest / 10^10, the factor between a whole 9-decimal scaled-balance unit and a whole
/// token) and an enclosure `[rho_lo, rho_hi]` of the rate the program itself computes in fixed point.
#[derive(Clone, Debug)]
pub struct VenueRate {
    pub rate: Q,
    pub rho_lo: Q,
    pub rho_hi: Q,
}

/// Kamino / Solend: enclosure of the program's I80F48 ratio. With L = exact total liquidity (native units, a
/// rational: available + borrowed - fees from the venue's own 2^-60 / 10^-18 fixed point), S = collateral supply
/// (integer > 0), T = 10^decimals, u = 2^-48 and fl(x) = largest multiple of u <= x, the program computes
///   Lr  = available + fl(borrowed) - sum_i fl(fee_i)        =>  L - u < Lr < L + n_fees * u
///   Ls  = fl(Lr / T)                                        =>  Lr/T - u < Ls <= Lr/T
///   Cs  = fl(S / T)                                         =>  S/T - u < Cs <= S/T
///   rho = fl(Ls / Cs)                                       =>  Ls/Cs - u < rho <= Ls/Cs
/// hence  rho <= ((L + n_fees u) / T) / (S/T - u)  =: rho_hi   (needs S/T > u, true for every supply >= 1 and
/// decimals <= 14) and  rho > ((L - u)/T - u) / (S/T) - u =: rho_lo (clamped at 0). Nothing else is assumed about
/// the order or direction of the individual roundings.
fn lending_rate_enclosure(l: &Q, supply: u64, decimals: u32, n_fees: u32) -> Option<VenueRate> {
    if supply == 0 {
        // the program applies no adjustment when the scaled collateral supply is zero
        return Some(VenueRate { rate: q_one(), rho_lo: q_one(), rho_hi: q_one() });
    }
    if l.is_negative() {
        return None;
    }
    let u = ulp();
    let t = pow10(decimals);
    let s_t = q_int(supply) / &t;
    if s_t <= u {
        return None;
    }
    let rate = l / q_int(supply);
    let rho_hi = ((l + q_int(n_fees) * &u) / &t) / (&s_t - &u);
    let rho_lo = q_max(q_zero(), ((l - &u) / &t - &u) / &s_t - &u);
    Some(VenueRate { rate, rho_lo, rho_hi })
}

/// Freshness + exchange rate of the venue account of a venue bank (`oracle_keys[1]`), from raw bytes.
/// Err("venue-stale") when it was not refreshed in the current slot (Kamino / Solend) / second (Drift).
pub fn venue_rate(vm: &Vm, bank: &Bank, now: i64) -> Result<VenueRate, &'static str> {
    venue_rate_at(vm, bank, now, vm.clock.slot)
}
/// same, freshness judged against an explicit slot (slot 0 / time 0 = never stale: the rate alone)
pub fn venue_rate_at(vm: &Vm, bank: &Bank, now: i64, slot: u64) -> Result<VenueRate, &'static str> {
    use crate::{venue_drift as vd, venue_kamino as vk, venue_solend as vs};
    let venue_key = bank.config.oracle_keys[1];
    let Some(va) = vm.get(&venue_key) else { return Err("venue-account-missing") };
    match bank.config.oracle_setup {
        OracleSetup::KaminoPythPush | OracleSetup::KaminoSwitchboardPull => {
            let Some(r) = vk::read_reserve(vm, &venue_key) else { return Err("venue-account") };
            if r.slot < slot {
                return Err("venue-stale");
            }
            let sf = |b: [u8; 16]| Q::new(num_bigint::BigInt::from(u128::from_le_bytes(b)), num_bigint::BigInt::from(1u8) << 60);
            let l = q_int(r.available_amount) + sf(r.borrowed_amount_sf) - sf(r.accumulated_protocol_fees_sf) - sf(r.accumulated_referrer_fees_sf) - sf(r.pending_referrer_fees_sf);
            lending_rate_enclosure(&l, r.mint_total_supply, r.mint_decimals as u32, 3).ok_or("venue-rate")
        }
        OracleSetup::SolendPythPull | OracleSetup::SolendSwitchboardPull => {
            if va.owner != vs::program_id() || va.data.len() != solend_mocks::state::RESERVE_LEN || va.data[0] != 1 {
                return Err("venue-account");
            }
            let r: solend_mocks::state::SolendMinimalReserve = bytemuck::pod_read_unaligned(&va.data[1..]);
            if { r.last_update_slot } < slot {
                return Err("venue-stale");
            }
            let wad = |b: [u8; 16]| Q::new(num_bigint::BigInt::from(u128::from_le_bytes(b)), num_bigint::BigInt::from(10u8).pow(18));
            let l = q_int({ r.liquidity_available_amount }) + wad(r.liquidity_borrowed_amount_wads) - wad(r.liquidity_accumulated_protocol_fees_wads);
            lending_rate_enclosure(&l, { r.collateral_mint_total_supply }, r.liquidity_mint_decimals as u32, 1).ok_or("venue-rate")
        }
        OracleSetup::DriftPythPull | OracleSetup::DriftSwitchboardPull => {
            if va.owner != vd::program_id() || va.data.len() != vd::SM_LEN || va.data[..8] != vd::SPOT_MARKET_DISC {
                return Err("venue-account");
            }
            let ts = u64::from_le_bytes(va.data[vd::SM_LAST_INTEREST_TS..vd::SM_LAST_INTEREST_TS + 8].try_into().unwrap());
            if (ts as i64) < now {
                return Err("venue-stale");
            }
            let ci = u128::from_le_bytes(va.data[vd::SM_CUM_DEPOSIT_INTEREST..vd::SM_CUM_DEPOSIT_INTEREST + 16].try_into().unwrap());
            // one 9-decimal scaled-balance unit is worth ci / 10^(19 - dec) native tokens; per whole unit (10^9 scaled
            // units vs 10^dec native units) the price is scaled by ci / 10^10 - in integer arithmetic, so the
            // program's rate IS the exact rate
            let rate = Q::new(num_bigint::BigInt::from(ci), num_bigint::BigInt::from(10u8).pow(10));
            Ok(VenueRate { rate: rate.clone(), rho_lo: rate.clone(), rho_hi: rate })
        }
        _ => Err("not-a-venue-bank"),
    }
}

/// Venue banks (Kamino / Solend / Drift x Pyth / Switchboard): the feed's view as for PythPushOracle /
/// SwitchboardPull, scaled by the exact venue rate; unusable("venue-stale") when the venue account was not refreshed
/// in the current slot (Kamino / Solend: `slot < clock.slot`) / second (Drift: `last_interest_ts < now`).
///
/// Slack derivation. The program multiplies the feed's INTEGER mantissas m (price, EMA price; Pyth: 10^expo units,
/// Switchboard: 10^-18 units) and c (confidences) by its own rate rho and truncates to an integer:
///   m' = floor(m * rho),  rho in [rho_lo, rho_hi]   =>   m * rho_lo - 1 < m' <= m * rho_hi      (m >= 0)
/// (Drift: rho = cumulative_deposit_interest / 10^10 exactly, integer arithmetic, so rho_lo = rho_hi = rate.)
/// Against the reference value m * rate the program's adjusted mantissa is therefore off by at most
///   d(m) = max( m * (rho_hi - rate), m * (rate - rho_lo) + 1 )     mantissa units,
/// and likewise d(c) for the confidence. The biased price is P -+ min(k sigma, 0.05 P); `min` is 1-Lipschitz in each
/// argument, so its error is at most max(k d(c), 0.05 d(m)) and the biased price is off by at most
///   (1.05 d(m) + k d(c)) * unit.
/// That is `extra_slack` (with m, c the larger of the spot and EMA mantissas): one or two units of the feed's
/// last digit plus ~10^decimals 2^-48 / S relative - seven to fifteen orders of magnitude below a swapped bias
/// (2 x confidence) or a rate applied the wrong way round (rate^2).
fn venue_view(vm: &Vm, bank: &Bank, now: i64, max_conf_frac: Q) -> OracleView {
    let setup = bank.config.oracle_setup;
    // --- the venue account: freshness and exchange rate
    let vr = match venue_rate(vm, bank, now) {
        Ok(v) => v,
        Err(why) => return OracleView::unusable(why),
    };
    // --- the price feed: raw integer mantissas (price, conf, ema price, ema conf), the unit of one mantissa step, k
    let key = bank.config.oracle_keys[0];
    let Some(a) = vm.get(&key) else { return OracleView::unusable("missing") };
    let pyth = matches!(setup, OracleSetup::KaminoPythPush | OracleSetup::SolendPythPull | OracleSetup::DriftPythPull);
    let (m_spot, c_spot, m_ema, c_ema, unit, k): (Q, Q, Q, Q, Q, Q) = if pyth {
        use anchor_lang::{AnchorDeserialize, Discriminator};
        use pyth_solana_receiver_sdk::price_update::{PriceUpdateV2, VerificationLevel};
        if a.owner != pyth_solana_receiver_sdk::ID {
            return OracleView::unusable("owner");
        }
        if a.data.len() < 8 || a.data[..8] != *PriceUpdateV2::DISCRIMINATOR {
            return OracleView::unusable("discriminator");
        }
        let Ok(p) = PriceUpdateV2::deserialize(&mut &a.data[8..]) else { return OracleView::unusable("layout") };
        if p.verification_level != VerificationLevel::Full {
            return OracleView::unusable("verification");
        }
        let max_age: i64 = if bank.config.oracle_max_age == 0 { 60 } else { bank.config.oracle_max_age as i64 };
        let m = p.price_message;
        if m.publish_time.saturating_add(max_age) < now {
            return OracleView::unusable("stale");
        }
        (q_int(m.price), q_int(m.conf), q_int(m.ema_price), q_int(m.ema_conf), pow10_signed(m.exponent), q_ratio(212, 100))
    } else {
        use switchboard_on_demand::{Discriminator as D, PullFeedAccountData};
        if a.owner != marginfi::constants::SWITCHBOARD_PULL_ID {
            return OracleView::unusable("owner");
        }
        let sz = std::mem::size_of::<PullFeedAccountData>();
        if a.data.len() < 8 + sz || a.data[..8] != <PullFeedAccountData as D>::DISCRIMINATOR[..] {
            return OracleView::unusable("discriminator");
        }
        let feed: PullFeedAccountData = bytemuck::pod_read_unaligned(&a.data[8..8 + sz]);
        if now.saturating_sub(feed.last_update_timestamp) > bank.config.oracle_max_age as i64 {
            return OracleView::unusable("stale");
        }
        (q_int(feed.result.value), q_int(feed.result.std_dev), q_int(feed.result.value), q_int(feed.result.std_dev), Q::one() / pow10(18), q_ratio(196, 100))
    };
    if !m_spot.is_positive() || !m_ema.is_positive() || c_spot.is_negative() || c_ema.is_negative() {
        // Drift's adapter refuses negative inputs; the lending adapters would carry a sign through, which no
        // caller of the reference generates
        return OracleView::unusable("venue-nonpositive-price");
    }
    let d = |m: &Q| -> Q { q_max(m * (&vr.rho_hi - &vr.rate), m * (&vr.rate - &vr.rho_lo) + q_one()) };
    let m_big = q_max(m_spot.clone(), m_ema.clone());
    let c_big = q_max(c_spot.clone(), c_ema.clone());
    let extra_slack = (q_ratio(105, 100) * d(&m_big) + &k * d(&c_big)) * &unit;
    let sc = &vr.rate * &unit;
    OracleView { loaded: true, why: "venue", spot: m_spot * &sc, spot_sigma: c_spot * &sc, ema: m_ema * &sc, ema_sigma: c_ema * &sc, k, max_conf_frac, extra_slack }
}

#[derive(Clone, Debug)]
pub struct PosVal {
    pub bank: Pubkey,
    pub is_liab: bool,
    pub value: Iv,
    /// value of sub-threshold residues ignored by the program (added to enclosure by callers)
    pub weight: Q,
    pub price: Option<Iv>,
}

#[derive(Clone, Debug)]
pub struct Health {
    /// None = undefined (a needed oracle is unusable): the program must fail
    pub assets: Option<Iv>,
    pub liabs: Option<Iv>,
    pub positions: Vec<PosVal>,
    pub n_liabs: usize,
    pub isolated_liab: bool,
    pub emode_active: bool,
    pub cap_active: bool,
    pub conf_active: bool,
    pub stale_collateral: bool,
    pub reduce_only_collateral: bool,
    /// value of positions holding < 1 share on the relevant side (ignored by the program)
    pub ignored: Q,
    /// debts the program ignores (< 1 liability share) although they are worth >= 1 native unit (possible only
    /// when the liability share value is > 1): a lower bound of their weighted value, and the part of `ignored`
    /// that stems from those same debts
    pub strict_debt_lo: Q,
    pub strict_debt_in_ignored: Q,
}
impl Health {
    pub fn defined(&self) -> bool {
        self.assets.is_some() && self.liabs.is_some()
    }
    pub fn health(&self) -> Option<Iv> {
        Some(self.assets.as_ref()?.sub(self.liabs.as_ref()?))
    }
}

pub fn one_share() -> i128 {
    1i128 << 48
}

/// weight of the bank for a requirement / side (exact bits)
fn bank_weight(b: &Bank, req: Req, liab: bool) -> Q {
    match (req, liab) {
        (Req::Equity, _) => q_one(),
        (Req::Initial, false) => q_w(b.config.asset_weight_init),
        (Req::Initial, true) => q_w(b.config.liability_weight_init),
        (Req::Maintenance, false) => q_w(b.config.asset_weight_maint),
        (Req::Maintenance, true) => q_w(b.config.liability_weight_maint),
    }
}

/// Reconciled e-mode: for each collateral tag present in EVERY liability bank's entry list, the
/// minimum init and the minimum maint weight.
pub fn reconciled_emode(liab_banks: &[Bank]) -> Vec<(u16, Q, Q)> {
    let mut out: Vec<(u16, Q, Q)> = vec![];
    if liab_banks.is_empty() {
        return out;
    }
    let first = &liab_banks[0];
    for e in first.emode.emode_config.entries.iter() {
        let tag = e.collateral_bank_emode_tag;
        if tag == 0 {
            continue;
        }
        let mut wi = q_w(e.asset_weight_init);
        let mut wm = q_w(e.asset_weight_maint);
        let mut everywhere = true;
        for other in &liab_banks[1..] {
            match other.emode.emode_config.entries.iter().find(|x| x.collateral_bank_emode_tag == tag) {
                Some(x) => {
                    wi = q_min(wi, q_w(x.asset_weight_init));
                    wm = q_min(wm, q_w(x.asset_weight_maint));
                }
                None => {
                    everywhere = false;
                    break;
                }
            }
        }
        if everywhere && !out.iter().any(|o| o.0 == tag) {
            out.push((tag, wi, wm));
        }
    }
    out
}

/// Reference health of `acct` under `req` from raw bytes at time `now`.
pub fn health(vm: &Vm, acct: &MarginfiAccount, req: Req, now: i64) -> Health {
    health_with_kind(vm, acct, req, now, None)
}

pub fn health_with_kind(vm: &Vm, acct: &MarginfiAccount, req: Req, now: i64, force_kind: Option<PriceKind>) -> Health {
    let kind = force_kind.unwrap_or(match req {
        Req::Initial | Req::Equity => PriceKind::Ema,
        Req::Maintenance => PriceKind::Spot,
    });
    let mut h = Health {
        assets: Some(Iv::zero()),
        liabs: Some(Iv::zero()),
        positions: vec![],
        n_liabs: 0,
        isolated_liab: false,
        emode_active: false,
        cap_active: false,
        conf_active: false,
        stale_collateral: false,
        reduce_only_collateral: false,
        ignored: q_zero(),
        strict_debt_lo: q_zero(),
        strict_debt_in_ignored: q_zero(),
    };
    let mut banks: Vec<(Pubkey, Bank, i128, i128)> = vec![];
    for b in acct.lending_account.balances.iter() {
        if b.active == 0 {
            continue;
        }
        let Some(bank) = try_read_bank(vm, &b.bank_pk) else {
            h.assets = None;
            h.liabs = None;
            return h;
        };
        banks.push((b.bank_pk, bank, crate::snap::bits(b.asset_shares), crate::snap::bits(b.liability_shares)));
    }
    let liab_banks: Vec<Bank> = banks.iter().filter(|x| x.3 >= one_share()).map(|x| x.1).collect();
    let emode = reconciled_emode(&liab_banks);
    for (key, bank, a_bits, l_bits) in banks.iter() {
        let d = if bank.config.asset_tag == 4 { 9 } else { bank.mint_decimals as u32 };
        let scale = pow10(d);
        let ov = oracle_view(vm, bank, now);
        if *l_bits >= one_share() {
            h.n_liabs += 1;
            if bank.config.risk_tier == RiskTier::Isolated {
                h.isolated_liab = true;
            }
            let amount = Iv::point(q_bits(*l_bits) * q_w(bank.liability_share_value)).trunc();
            let w = bank_weight(bank, req, true);
            match ov.high(kind) {
                None => {
                    h.liabs = None;
                    h.assets = None;
                    h.positions.push(PosVal { bank: *key, is_liab: true, value: Iv::zero(), weight: w, price: None });
                }
                Some(p) => {
                    if ov.band(kind).map(|b| b.is_positive()).unwrap_or(false) {
                        h.conf_active = true;
                    }
                    let v = amount.mul_q(&w).trunc().mul(&p).trunc().mul_q(&(Q::one() / &scale)).trunc();
                    if let Some(l) = h.liabs.as_mut() {
                        *l = l.add(&v);
                    }
                    h.positions.push(PosVal { bank: *key, is_liab: true, value: v, weight: w, price: Some(p) });
                }
            }
            // any asset residue on a liability position is ignored by the program
            continue;
        }
        if *a_bits >= one_share() {
            // asset side
            if bank.config.risk_tier == RiskTier::Isolated {
                h.positions.push(PosVal { bank: *key, is_liab: false, value: Iv::zero(), weight: q_zero(), price: None });
                continue;
            }
            if req == Req::Initial && bank.config.operational_state == BankOperationalState::ReduceOnly {
                h.reduce_only_collateral = true;
                h.positions.push(PosVal { bank: *key, is_liab: false, value: Iv::zero(), weight: q_zero(), price: None });
                continue;
            }
            let low = ov.low(kind);
            let Some(p) = low else {
                if req == Req::Initial {
                    h.stale_collateral = true;
                    h.positions.push(PosVal { bank: *key, is_liab: false, value: Iv::zero(), weight: q_zero(), price: None });
                    continue;
                } else {
                    h.assets = None;
                    h.liabs = None;
                    h.positions.push(PosVal { bank: *key, is_liab: false, value: Iv::zero(), weight: q_zero(), price: None });
                    continue;
                }
            };
            if ov.band(kind).map(|b| b.is_positive()).unwrap_or(false) {
                h.conf_active = true;
            }
            let mut w = bank_weight(bank, req, false);
            if req != Req::Equity && bank.emode.emode_tag != 0 {
                if let Some((_, wi, wm)) = emode.iter().find(|e| e.0 == bank.emode.emode_tag) {
                    let ew = if req == Req::Initial { wi.clone() } else { wm.clone() };
                    if ew > w {
                        h.emode_active = true;
                    }
                    w = q_max(w, ew);
                }
            }
            let mut w_iv = Iv::point(w.clone());
            if req == Req::Initial && bank.config.total_asset_value_init_limit != 0 {
                let total = Iv::point(q_w(bank.total_asset_shares) * q_w(bank.asset_share_value)).trunc().mul(&p).trunc().mul_q(&(Q::one() / &scale)).trunc();
                let limit = q_int(bank.config.total_asset_value_init_limit);
                if total.hi > limit {
                    h.cap_active = true;
                    // discount = limit / total (only when total > limit); enclosure covers both sides of the comparison
                    let lo_t = q_max(total.lo.clone(), limit.clone());
                    let disc = Iv { lo: &limit / &total.hi, hi: q_min(q_one(), &limit / &lo_t) }.trunc();
                    let disc = Iv { lo: q_max(disc.lo, q_zero()), hi: if total.lo > limit { disc.hi } else { q_one() } };
                    w_iv = w_iv.mul(&disc).trunc();
                }
            }
            let amount = Iv::point(q_bits(*a_bits) * q_w(bank.asset_share_value)).trunc();
            let v = amount.mul(&w_iv).trunc().mul(&p).trunc().mul_q(&(Q::one() / &scale)).trunc();
            // a value can never be negative in the program (price low >= 0 when conf <= 5%)
            if let Some(a) = h.assets.as_mut() {
                *a = a.add(&v);
            }
            h.positions.push(PosVal { bank: *key, is_liab: false, value: v, weight: w, price: Some(p) });
            continue;
        }
        // neither side reaches one share: ignored by the program; remember the value
        let av = q_bits(*a_bits) * q_w(bank.asset_share_value);
        let lv = q_bits(*l_bits) * q_w(bank.liability_share_value);
        let px = q_max(ov.spot.clone(), ov.ema.clone()) * q_ratio(105, 100);
        if lv >= q_one() {
            // the statement counts this debt (it is not "less than one native unit")
            if let Some(p) = ov.high(kind) {
                if p.lo.is_positive() {
                    h.strict_debt_lo += &lv * bank_weight(bank, req, true) * &p.lo / &scale;
                }
            }
            h.strict_debt_in_ignored += &lv * &px * q_int(2) / &scale;
        }
        h.ignored += (av + lv) * px * q_int(2) / &scale;
    }
    h
}

pub fn acct_health(vm: &Vm, key: &Pubkey, req: Req) -> Option<Health> {
    let a = read_macct(vm, key)?;
    Some(health(vm, &a, req, vm.now()))
}
