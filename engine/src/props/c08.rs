//! C08 — authorization matrix.
//!
//! Oracle = two hand-written tables (DESIGN.md Appendix B.1 / B.2):
//!   * `role_table`  : instruction × account-state variant → who may successfully sign
//!   * `slot_table`  : instruction → binding class of every account slot
//! written from the property statement, the doc comments of lib.rs and the struct field comments —
//! not from the `#[account(..)]` attributes, which are the thing under test.
//!
//! Per generated world (main group + a mirrored "foreign" group with its own admins, banks on the
//! SAME mints, the same users with the same positions) every instruction gets a recipe whose
//! baseline call succeeds; then every cell (signer identity × signature bit, single-slot
//! substitution) is executed on a snapshot and must fail whenever the tables say "not entitled" /
//! "bound slot violated".
use crate::common::*;
use crate::svm::{proxy_id_allowed, wrap_cpi, Acct, Vm};
use crate::world::*;
use anchor_lang::{InstructionData, ToAccountMetas};
use marginfi_type_crate::types::{Bank, BankConfigOpt, MarginfiAccount, RiskTier};
use proptest::prelude::*;
use serde::{Deserialize, Serialize};
use serde_json::{json, Value};
use solana_program::{
    instruction::{AccountMeta, Instruction},
    pubkey::Pubkey,
    system_program,
};
use std::collections::BTreeMap;

const RULE: &str = "worlds sampled by proptest (token program, oracle kind, decimals, prices, fee settings, permissionless-bankruptcy flag per world; main group + mirrored foreign group on the same mints); per world the matrix is enumerated COMPLETELY: every non-venue instruction x account-state variant {normal, frozen, in receivership, disabled, after an empty receivership bracket, after a used one, after whatever hostile multi-start transaction ([start(D), (short ix), start(D2), (withdraw(D)), end(D2)] and permutations) the program lets commit} x {every signer identity x signature bit set/cleared, every non-free slot x every applicable substitute}; expectation from the hand-written role table / slot-binding table; non-trivial = an asserted (must-fail) cell whose instruction's baseline call succeeded in that world";

// bank indices
const B_COL: usize = 0; // collateral of A, fixed oracle
const B_LIAB: usize = 1; // everybody's liability, Pyth
const B_DCOL: usize = 2; // collateral of the distressed accounts, Pyth (crashed)
const B_DUST: usize = 3; // empty-but-active balances; purge target
const B_SPARE: usize = 4; // no positions: close_bank / setup_emissions
const NB: usize = 5;
const EM: usize = NB; // index of the emissions mint in the per-identity token account list
// user indices
const U_A: usize = 0; // healthy account with positions
const U_L: usize = 1; // lender / liquidator
const U_D: usize = 2; // distressed (liquidatable) account
const U_E: usize = 3; // empty account
const U_D2: usize = 4; // second distressed account
const NU: usize = 5;

#[derive(Clone, Debug, Serialize, Deserialize, PartialEq)]
pub struct Params {
    /// 0 SPL, 1 Token-2022, 2 Token-2022 with transfer fee
    pub tok: Vec<u8>,
    /// 0 fixed, 1 Pyth
    pub ora: Vec<u8>,
    pub dec: Vec<u8>,
    /// dollars per token
    pub price: Vec<u32>,
    pub program_fees: bool,
    pub liq_fee: u32,
    pub init_fee: u32,
    pub permless: bool,
    pub fee_bps: u16,
}

pub fn params_strategy() -> impl Strategy<Value = Params> {
    (
        prop::collection::vec(0u8..3, NB),
        prop::collection::vec(0u8..2, NB),
        prop::collection::vec(prop::sample::select(vec![6u8, 8, 9]), NB),
        prop::collection::vec(1u32..=50, NB),
        any::<bool>(),
        prop::sample::select(vec![0u32, 5000]),
        prop::sample::select(vec![0u32, 5000, 1_000_000]),
        any::<bool>(),
        prop::sample::select(vec![1u16, 10, 100]),
    )
        .prop_map(|(mut tok, mut ora, dec, price, program_fees, liq_fee, init_fee, permless, fee_bps)| {
            ora[B_COL] = 0;
            ora[B_LIAB] = 1;
            ora[B_DCOL] = 1;
            if tok[B_DUST] == 2 {
                tok[B_DUST] = 1;
            }
            if !tok[..3].contains(&0) {
                tok[0] = 0;
            }
            if tok[..3].iter().all(|t| *t == 0) {
                tok[1] = 1;
            }
            Params { tok, ora, dec, price, program_fees, liq_fee, init_fee, permless, fee_bps }
        })
}

fn oracle_spec(p: &Params, i: usize) -> OracleSpec {
    if p.ora[i] == 0 {
        OracleSpec::fixed(p.price[i] as i64, 0)
    } else {
        let m = p.price[i] as i64 * 100_000_000;
        OracleSpec::pyth(m, -8, (m / 2000) as u64)
    }
}

fn world_spec(p: &Params) -> WorldSpec {
    let banks = (0..NB)
        .map(|i| BankSpec {
            decimals: p.dec[i],
            token: p.tok[i],
            fee_bps: if p.tok[i] == 2 { p.fee_bps } else { 0 },
            fee_max: if p.tok[i] == 2 { 1_000_000 } else { 0 },
            curve: CurveSpec { zero: 40_000_000, hundred: 2_000_000_000, points: vec![], ins_fixed: 20_000, ins_ir: 100_000, prot_fixed: 20_000, prot_ir: 100_000, orig: 0 },
            oracle: oracle_spec(p, i),
            permissionless_bad_debt: i == B_LIAB && p.permless,
            staked: None,
            ..BankSpec::default()
        })
        .collect();
    WorldSpec {
        program_fee_fixed: 10_000,
        program_fee_rate: 100_000,
        program_fees_enabled: p.program_fees,
        bank_init_flat_sol_fee: p.init_fee,
        liq_flat_sol_fee: p.liq_fee,
        banks,
        n_users: NU as u8,
        distinct_roles: true,
        ..WorldSpec::default()
    }
}

pub struct Env {
    pub p: Params,
    /// main group view; owns the live store
    pub m: World,
    /// foreign group view (its `vm` is a stale placeholder — swap the live one in with `with_f`)
    pub f: World,
    pub ids: Vec<(&'static str, Pubkey)>,
    /// identity → token account per bank index (+ emissions mint at index EM)
    pub toks: BTreeMap<Pubkey, Vec<Pubkey>>,
    pub receiver: Pubkey,
    pub payer: Pubkey,
    pub emint: Pubkey,
    pub fake_owner: Pubkey,
}

fn mfi(accounts: Vec<AccountMeta>, data: Vec<u8>) -> Instruction {
    Instruction { program_id: marginfi::ID, accounts, data }
}
fn pda(seeds: &[&[u8]]) -> Pubkey {
    Pubkey::find_program_address(seeds, &marginfi::ID).0
}
fn em_auth(bank: &Pubkey, mint: &Pubkey) -> Pubkey {
    pda(&[b"emissions_auth_seed", bank.as_ref(), mint.as_ref()])
}
fn em_vault(bank: &Pubkey, mint: &Pubkey) -> Pubkey {
    pda(&[b"emissions_token_account_seed", bank.as_ref(), mint.as_ref()])
}
fn metadata_key(bank: &Pubkey) -> Pubkey {
    pda(&[b"metadata", bank.as_ref()])
}
fn staked_key(group: &Pubkey) -> Pubkey {
    pda(&[b"staked_settings", group.as_ref()])
}
fn acct_pda(group: &Pubkey, auth: &Pubkey, idx: u16) -> Pubkey {
    pda(&[b"marginfi_account", group.as_ref(), auth.as_ref(), &idx.to_le_bytes(), &0u16.to_le_bytes()])
}
fn ten(d: u8) -> u64 {
    10u64.pow(d as u32)
}

/// run `g` on the foreign view with the live store swapped in
fn with_f<R>(e: &mut Env, g: impl FnOnce(&mut World) -> R) -> R {
    std::mem::swap(&mut e.m.vm, &mut e.f.vm);
    let r = g(&mut e.f);
    std::mem::swap(&mut e.m.vm, &mut e.f.vm);
    r
}
/// a copy of the foreign view over a given store (for building instructions that read state)
fn f_over(e: &Env, vm: &Vm) -> World {
    let mut f = e.f.clone();
    f.vm = vm.clone();
    f
}
fn m_over(e: &Env, vm: &Vm) -> World {
    let mut m = e.m.clone();
    m.vm = vm.clone();
    m
}

// ------------------------------------------------------------------------------------------
// instruction constructors missing from world.rs (generic over the group view `w`)
// ------------------------------------------------------------------------------------------
fn ix_group_init(group: Pubkey, admin: Pubkey) -> Instruction {
    mfi(
        marginfi::accounts::MarginfiGroupInitialize { marginfi_group: group, admin, fee_state: fee_state_key(), system_program: system_program::ID }.to_account_metas(Some(true)),
        marginfi::instruction::MarginfiGroupInitialize {}.data(),
    )
}
fn ix_config_group_fee(w: &World, signer: Pubkey, enable: bool) -> Instruction {
    mfi(
        marginfi::accounts::ConfigGroupFee { marginfi_group: w.group, global_fee_admin: signer, fee_state: w.fee_state }.to_account_metas(Some(true)),
        marginfi::instruction::ConfigGroupFee { enable_program_fee: enable }.data(),
    )
}
fn bank_info(w: &World, key: Pubkey, mint_of: &BankInfo, oracle_key: Pubkey) -> BankInfo {
    BankInfo {
        key,
        oracle_key,
        oracle_extra: vec![],
        lv: bank_pda("liquidity_vault", &key),
        lv_auth: bank_pda("liquidity_vault_auth", &key),
        iv: bank_pda("insurance_vault", &key),
        iv_auth: bank_pda("insurance_vault_auth", &key),
        fv: bank_pda("fee_vault", &key),
        fv_auth: bank_pda("fee_vault_auth", &key),
        fee_ata: ata(&w.fee_wallet, &mint_of.mint, &mint_of.token_program),
        ..mint_of.clone()
    }
}
fn ix_add_bank(w: &World, b: &BankInfo, admin: Pubkey, payer: Pubkey) -> Instruction {
    let mut cfg = bank_config_compact(&b.spec);
    cfg.operational_state = marginfi_type_crate::types::BankOperationalState::Operational;
    mfi(
        marginfi::accounts::LendingPoolAddBank {
            marginfi_group: w.group,
            admin,
            fee_payer: payer,
            fee_state: w.fee_state,
            global_fee_wallet: w.fee_wallet,
            bank_mint: b.mint,
            bank: b.key,
            liquidity_vault_authority: b.lv_auth,
            liquidity_vault: b.lv,
            insurance_vault_authority: b.iv_auth,
            insurance_vault: b.iv,
            fee_vault_authority: b.fv_auth,
            fee_vault: b.fv,
            token_program: b.token_program,
            system_program: system_program::ID,
        }
        .to_account_metas(Some(true)),
        marginfi::instruction::LendingPoolAddBank { bank_config: cfg }.data(),
    )
}
fn ix_add_bank_seed(w: &World, b: &BankInfo, admin: Pubkey, payer: Pubkey, seed: u64) -> Instruction {
    let mut cfg = bank_config_compact(&b.spec);
    cfg.operational_state = marginfi_type_crate::types::BankOperationalState::Operational;
    mfi(
        marginfi::accounts::LendingPoolAddBankWithSeed {
            marginfi_group: w.group,
            admin,
            fee_payer: payer,
            fee_state: w.fee_state,
            global_fee_wallet: w.fee_wallet,
            bank_mint: b.mint,
            bank: b.key,
            liquidity_vault_authority: b.lv_auth,
            liquidity_vault: b.lv,
            insurance_vault_authority: b.iv_auth,
            insurance_vault: b.iv,
            fee_vault_authority: b.fv_auth,
            fee_vault: b.fv,
            token_program: b.token_program,
            system_program: system_program::ID,
        }
        .to_account_metas(Some(true)),
        marginfi::instruction::LendingPoolAddBankWithSeed { bank_config: cfg, bank_seed: seed }.data(),
    )
}
fn ix_force_tokenless(w: &World, bi: usize, signer: Pubkey) -> Instruction {
    mfi(
        marginfi::accounts::LendingPoolForceTokenlessRepayComplete { group: w.group, risk_admin: signer, bank: w.banks[bi].key }.to_account_metas(Some(true)),
        marginfi::instruction::LendingPoolForceTokenlessRepayComplete {}.data(),
    )
}
fn ix_setup_emissions(w: &World, bi: usize, emint: Pubkey, signer: Pubkey, funding: Pubkey) -> Instruction {
    let b = w.banks[bi].key;
    mfi(
        marginfi::accounts::LendingPoolSetupEmissions {
            group: w.group,
            delegate_emissions_admin: signer,
            bank: b,
            emissions_mint: emint,
            emissions_auth: em_auth(&b, &emint),
            emissions_token_account: em_vault(&b, &emint),
            emissions_funding_account: funding,
            token_program: spl_token::ID,
            system_program: system_program::ID,
        }
        .to_account_metas(Some(true)),
        marginfi::instruction::LendingPoolSetupEmissions { flags: 2, rate: 1_000_000_000, total_emissions: 1_000_000_000_000 }.data(),
    )
}
fn ix_update_emissions(w: &World, bi: usize, emint: Pubkey, signer: Pubkey, funding: Pubkey) -> Instruction {
    let b = w.banks[bi].key;
    mfi(
        marginfi::accounts::LendingPoolUpdateEmissionsParameters {
            group: w.group,
            delegate_emissions_admin: signer,
            bank: b,
            emissions_mint: emint,
            emissions_token_account: em_vault(&b, &emint),
            emissions_funding_account: funding,
            token_program: spl_token::ID,
        }
        .to_account_metas(Some(true)),
        marginfi::instruction::LendingPoolUpdateEmissionsParameters { emissions_flags: None, emissions_rate: Some(2_000_000_000), additional_emissions: Some(1000) }.data(),
    )
}
fn ix_withdraw_emissions(w: &World, macct: Pubkey, signer: Pubkey, bi: usize, emint: Pubkey, dst: Pubkey) -> Instruction {
    let b = w.banks[bi].key;
    mfi(
        marginfi::accounts::LendingAccountWithdrawEmissions {
            group: w.group,
            marginfi_account: macct,
            authority: signer,
            bank: b,
            emissions_mint: emint,
            emissions_auth: em_auth(&b, &emint),
            emissions_vault: em_vault(&b, &emint),
            destination_account: dst,
            token_program: spl_token::ID,
        }
        .to_account_metas(Some(true)),
        marginfi::instruction::LendingAccountWithdrawEmissions {}.data(),
    )
}
fn ix_withdraw_emissions_perm(w: &World, macct: Pubkey, bi: usize, emint: Pubkey, dst: Pubkey) -> Instruction {
    let b = w.banks[bi].key;
    mfi(
        marginfi::accounts::LendingAccountWithdrawEmissionsPermissionless {
            group: w.group,
            marginfi_account: macct,
            bank: b,
            emissions_mint: emint,
            emissions_auth: em_auth(&b, &emint),
            emissions_vault: em_vault(&b, &emint),
            destination_account: dst,
            token_program: spl_token::ID,
        }
        .to_account_metas(Some(true)),
        marginfi::instruction::LendingAccountWithdrawEmissionsPermissionless {}.data(),
    )
}
fn ix_settle_emissions(w: &World, macct: Pubkey, bi: usize) -> Instruction {
    mfi(
        marginfi::accounts::LendingAccountSettleEmissions { marginfi_account: macct, bank: w.banks[bi].key }.to_account_metas(Some(true)),
        marginfi::instruction::LendingAccountSettleEmissions {}.data(),
    )
}
fn ix_update_em_dest(macct: Pubkey, signer: Pubkey, dest: Pubkey) -> Instruction {
    mfi(
        marginfi::accounts::MarginfiAccountUpdateEmissionsDestinationAccount { marginfi_account: macct, authority: signer, destination_account: dest }.to_account_metas(Some(true)),
        marginfi::instruction::MarginfiAccountUpdateEmissionsDestinationAccount {}.data(),
    )
}
fn ix_account_init(w: &World, macct: Pubkey, auth: Pubkey, payer: Pubkey) -> Instruction {
    mfi(
        marginfi::accounts::MarginfiAccountInitialize { marginfi_group: w.group, marginfi_account: macct, authority: auth, fee_payer: payer, system_program: system_program::ID }.to_account_metas(Some(true)),
        marginfi::instruction::MarginfiAccountInitialize {}.data(),
    )
}
fn ix_account_init_pda(w: &World, auth: Pubkey, payer: Pubkey, idx: u16) -> Instruction {
    mfi(
        marginfi::accounts::MarginfiAccountInitializePda {
            marginfi_group: w.group,
            marginfi_account: acct_pda(&w.group, &auth, idx),
            authority: auth,
            fee_payer: payer,
            instructions_sysvar: solana_program::sysvar::instructions::ID,
            system_program: system_program::ID,
        }
        .to_account_metas(Some(true)),
        marginfi::instruction::MarginfiAccountInitializePda { account_index: idx, third_party_id: None }.data(),
    )
}
fn ix_transfer(w: &World, old: Pubkey, new: Pubkey, signer: Pubkey, payer: Pubkey, new_auth: Pubkey) -> Instruction {
    mfi(
        marginfi::accounts::TransferToNewAccount {
            group: w.group,
            old_marginfi_account: old,
            new_marginfi_account: new,
            authority: signer,
            fee_payer: payer,
            new_authority: new_auth,
            global_fee_wallet: w.fee_wallet,
            system_program: system_program::ID,
        }
        .to_account_metas(Some(true)),
        marginfi::instruction::TransferToNewAccount {}.data(),
    )
}
fn ix_transfer_pda(w: &World, old: Pubkey, signer: Pubkey, payer: Pubkey, new_auth: Pubkey, idx: u16) -> Instruction {
    mfi(
        marginfi::accounts::TransferToNewAccountPda {
            group: w.group,
            old_marginfi_account: old,
            new_marginfi_account: acct_pda(&w.group, &new_auth, idx),
            authority: signer,
            fee_payer: payer,
            new_authority: new_auth,
            global_fee_wallet: w.fee_wallet,
            instructions_sysvar: solana_program::sysvar::instructions::ID,
            system_program: system_program::ID,
        }
        .to_account_metas(Some(true)),
        marginfi::instruction::TransferToNewAccountPda { account_index: idx, third_party_id: None }.data(),
    )
}
fn ix_close_account(macct: Pubkey, signer: Pubkey, payer: Pubkey) -> Instruction {
    mfi(
        marginfi::accounts::MarginfiAccountClose { marginfi_account: macct, authority: signer, fee_payer: payer }.to_account_metas(Some(true)),
        marginfi::instruction::MarginfiAccountClose {}.data(),
    )
}
fn ix_withdraw_fees_perm(w: &World, bi: usize, dst: Pubkey, amount: u64) -> Instruction {
    let b = &w.banks[bi];
    let mut m = marginfi::accounts::LendingPoolWithdrawFeesPermissionless {
        group: w.group,
        bank: b.key,
        fee_vault: b.fv,
        fee_vault_authority: b.fv_auth,
        fees_destination_account: dst,
        token_program: b.token_program,
    }
    .to_account_metas(Some(true));
    if b.token_program == spl_token_2022::ID {
        m.push(AccountMeta::new_readonly(b.mint, false));
    }
    mfi(m, marginfi::instruction::LendingPoolWithdrawFeesPermissionless { amount }.data())
}
fn ix_update_fees_dest(w: &World, bi: usize, signer: Pubkey, dst: Pubkey) -> Instruction {
    mfi(
        marginfi::accounts::LendingPoolUpdateFeesDestinationAccount { group: w.group, bank: w.banks[bi].key, admin: signer, destination_account: dst }.to_account_metas(Some(true)),
        marginfi::instruction::LendingPoolUpdateFeesDestinationAccount {}.data(),
    )
}
fn ix_pulse_price(w: &World, bi: usize) -> Instruction {
    let mut m = marginfi::accounts::LendingPoolPulseBankPriceCache { group: w.group, bank: w.banks[bi].key }.to_account_metas(Some(true));
    if w.banks[bi].oracle_kind != 0 {
        m.push(AccountMeta::new_readonly(w.banks[bi].oracle_key, false));
    }
    mfi(m, marginfi::instruction::LendingPoolPulseBankPriceCache {}.data())
}
fn ix_edit_fee_state(w: &World, signer: Pubkey) -> Instruction {
    mfi(
        marginfi::accounts::EditFeeState { global_fee_admin: signer, fee_state: w.fee_state }.to_account_metas(Some(true)),
        marginfi::instruction::EditGlobalFeeState {
            admin: w.roles.fee_admin,
            fee_wallet: w.fee_wallet,
            bank_init_flat_sol_fee: w.spec.bank_init_flat_sol_fee,
            liquidation_flat_sol_fee: w.spec.liq_flat_sol_fee,
            program_fee_fixed: w_mill(w.spec.program_fee_fixed),
            program_fee_rate: w_mill(w.spec.program_fee_rate),
            liquidation_max_fee: w_mill(w.spec.liq_max_fee),
        }
        .data(),
    )
}
fn ix_init_fee_state(w: &World, payer: Pubkey) -> Instruction {
    mfi(
        marginfi::accounts::InitFeeState { payer, fee_state: w.fee_state, system_program: system_program::ID }.to_account_metas(Some(true)),
        marginfi::instruction::InitGlobalFeeState {
            admin: w.roles.fee_admin,
            fee_wallet: w.fee_wallet,
            bank_init_flat_sol_fee: w.spec.bank_init_flat_sol_fee,
            liquidation_flat_sol_fee: w.spec.liq_flat_sol_fee,
            program_fee_fixed: w_mill(w.spec.program_fee_fixed),
            program_fee_rate: w_mill(w.spec.program_fee_rate),
            liquidation_max_fee: w_mill(w.spec.liq_max_fee),
        }
        .data(),
    )
}
fn ix_init_staked(w: &World, signer: Pubkey, payer: Pubkey) -> Instruction {
    use marginfi::instructions::marginfi_group::StakedSettingsConfig;
    mfi(
        marginfi::accounts::InitStakedSettings { marginfi_group: w.group, admin: signer, fee_payer: payer, staked_settings: staked_key(&w.group), system_program: system_program::ID }
            .to_account_metas(Some(true)),
        marginfi::instruction::InitStakedSettings {
            settings: StakedSettingsConfig {
                oracle: kp("c08_staked_oracle", 0),
                asset_weight_init: w_mill(800_000),
                asset_weight_maint: w_mill(900_000),
                deposit_limit: 1_000_000,
                total_asset_value_init_limit: 1_000_000,
                oracle_max_age: 60,
                risk_tier: RiskTier::Collateral,
            },
        }
        .data(),
    )
}
fn ix_edit_staked(w: &World, signer: Pubkey) -> Instruction {
    use marginfi::instructions::marginfi_group::StakedSettingsEditConfig;
    mfi(
        marginfi::accounts::EditStakedSettings { marginfi_group: w.group, admin: signer, staked_settings: staked_key(&w.group) }.to_account_metas(Some(true)),
        marginfi::instruction::EditStakedSettings {
            settings: StakedSettingsEditConfig { oracle: None, asset_weight_init: None, asset_weight_maint: None, deposit_limit: Some(2_000_000), total_asset_value_init_limit: None, oracle_max_age: None, risk_tier: None },
        }
        .data(),
    )
}
fn ix_migrate_curve(bank: Pubkey) -> Instruction {
    mfi(marginfi::accounts::MigrateCurve { bank }.to_account_metas(Some(true)), marginfi::instruction::MigrateCurve {}.data())
}
fn ix_init_metadata(bank: Pubkey, payer: Pubkey) -> Instruction {
    mfi(
        marginfi::accounts::InitBankMetadata { bank, fee_payer: payer, metadata: metadata_key(&bank), system_program: system_program::ID }.to_account_metas(Some(true)),
        marginfi::instruction::InitBankMetadata {}.data(),
    )
}
fn ix_write_metadata(w: &World, bi: usize, signer: Pubkey) -> Instruction {
    let b = w.banks[bi].key;
    mfi(
        marginfi::accounts::WriteBankMetadata { group: w.group, bank: b, metadata_admin: signer, metadata: metadata_key(&b) }.to_account_metas(Some(true)),
        marginfi::instruction::WriteBankMetadata { ticker: Some(b"TICK".to_vec()), description: Some(b"a bank".to_vec()) }.data(),
    )
}
fn ix_delev_limit(w: &World, signer: Pubkey) -> Instruction {
    mfi(
        marginfi::accounts::ConfigureDeleverageWithdrawalLimit { marginfi_group: w.group, admin: signer }.to_account_metas(Some(true)),
        marginfi::instruction::ConfigureDeleverageWithdrawalLimit { limit: 1_000_000 }.data(),
    )
}
fn ix_purge(w: &World, macct: Pubkey, signer: Pubkey, bi: usize) -> Instruction {
    mfi(
        marginfi::accounts::LendingAccountPurgeDelevBalance { group: w.group, marginfi_account: macct, risk_admin: signer, bank: w.banks[bi].key }.to_account_metas(Some(true)),
        marginfi::instruction::PurgeDeleverageBalance {}.data(),
    )
}

// ------------------------------------------------------------------------------------------
// environment: main group (World::build) + foreign group (same real instructions, other keys)
// ------------------------------------------------------------------------------------------
fn ex(vm: &mut Vm, ix: &Instruction, what: &str) -> Result<(), String> {
    vm.exec(ix).map_err(|e| format!("{what}: {e:?}"))
}

fn build_foreign(m: &mut World) -> Result<World, String> {
    let roles = Roles {
        admin: kp("c08_fadmin", 0),
        emode: kp("c08_femode", 0),
        curve: kp("c08_fcurve", 0),
        limit: kp("c08_flimit", 0),
        emissions: kp("c08_femissions", 0),
        metadata: kp("c08_fmetadata", 0),
        risk: kp("c08_frisk", 0),
        fee_admin: m.roles.fee_admin,
        stranger: m.roles.stranger,
    };
    for k in [roles.admin, roles.emode, roles.curve, roles.limit, roles.emissions, roles.metadata, roles.risk] {
        m.vm.set(k, wallet_acct(1_000_000_000_000));
    }
    let mut f = World { vm: Vm::default(), spec: m.spec.clone(), fee_state: m.fee_state, fee_wallet: m.fee_wallet, group: kp("c08_fgroup", 0), roles, banks: vec![], users: vec![], counter: 0 };
    ex(&mut m.vm, &ix_group_init(f.group, f.roles.admin), "f group init")?;
    ex(&mut m.vm, &f.ix_group_configure(&f.roles.clone(), None, None), "f group configure")?;
    if !m.spec.program_fees_enabled {
        ex(&mut m.vm, &ix_config_group_fee(&f, f.roles.fee_admin, false), "f config_group_fee")?;
    }
    for i in 0..m.banks.len() {
        let info = bank_info(&f, kp("c08_fbank", i as u64), &m.banks[i], kp("c08_foracle", i as u64));
        ex(&mut m.vm, &ix_add_bank(&f, &info, f.roles.admin, f.roles.admin), "f add_bank")?;
        f.banks.push(info);
        let o = f.banks[i].spec.oracle.clone();
        if o.kind == 0 {
            ex(&mut m.vm, &f.ix_set_fixed_price(i, o.fixed_price().into(), f.roles.admin), "f fixed price")?;
        } else {
            let now = m.vm.now();
            m.vm.set(f.banks[i].oracle_key, o.account(now).unwrap());
            ex(&mut m.vm, &f.ix_config_oracle(i, 3, f.banks[i].oracle_key, f.roles.admin), "f config oracle")?;
        }
        if f.banks[i].spec.permissionless_bad_debt {
            let mut opt = BankConfigOpt::default();
            opt.permissionless_bad_debt_settlement = Some(true);
            ex(&mut m.vm, &f.ix_configure_bank(i, opt, f.roles.admin), "f configure bank")?;
        }
    }
    for u in 0..m.users.len() {
        let macct = kp("c08_fmacct", u as u64);
        ex(&mut m.vm, &f.ix_account_init(macct, m.users[u].auth), "f account init")?;
        f.users.push(UserInfo { auth: m.users[u].auth, accts: vec![macct], tokens: m.users[u].tokens.clone() });
    }
    Ok(f)
}

struct Shared {
    emint: Pubkey,
    em_funding: Pubkey,
    payer: Pubkey,
}

/// the same positions in either group (w owns the live store while this runs)
fn populate(w: &mut World, p: &Params, s: &Shared) -> Result<(), String> {
    let tokn = |b: usize, n: u64| n * ten(p.dec[b]);
    let us = w.users.clone();
    let dep = |w: &mut World, u: usize, b: usize, amt: u64| -> Result<(), String> {
        let ix = w.ix_deposit(us[u].accts[0], us[u].auth, b, us[u].tokens[b], amt, None);
        ex(&mut w.vm, &ix, &format!("deposit u{u} b{b}"))
    };
    let wd = |w: &mut World, u: usize, b: usize, amt: u64| -> Result<(), String> {
        let ix = w.ix_withdraw(us[u].accts[0], us[u].auth, b, us[u].tokens[b], amt, None);
        ex(&mut w.vm, &ix, &format!("withdraw u{u} b{b}"))
    };
    let bor = |w: &mut World, u: usize, b: usize, amt: u64| -> Result<(), String> {
        let ix = w.ix_borrow(us[u].accts[0], us[u].auth, b, us[u].tokens[b], amt);
        ex(&mut w.vm, &ix, &format!("borrow u{u} b{b}"))
    };
    // lender / liquidator
    dep(w, U_L, B_LIAB, tokn(B_LIAB, 1_000_000))?;
    dep(w, U_L, B_COL, tokn(B_COL, 100_000))?;
    dep(w, U_L, B_DCOL, tokn(B_DCOL, 1000))?;
    // healthy account
    dep(w, U_A, B_COL, tokn(B_COL, 10_000))?;
    dep(w, U_A, B_DCOL, tokn(B_DCOL, 10))?;
    dep(w, U_A, B_DUST, 1000)?;
    wd(w, U_A, B_DUST, 1000)?;
    bor(w, U_A, B_LIAB, tokn(B_LIAB, 500) / p.price[B_LIAB] as u64)?;
    // distressed accounts: borrow 30 % of the collateral value, collateral crashes to 40 % later
    for u in [U_D, U_D2] {
        dep(w, u, B_DCOL, tokn(B_DCOL, 1000))?;
        dep(w, u, B_COL, 100)?;
        dep(w, u, B_DUST, 1000)?;
        wd(w, u, B_DUST, 1000)?;
        let amt = (tokn(B_LIAB, 300) as u128 * p.price[B_DCOL] as u128 / p.price[B_LIAB] as u128) as u64;
        bor(w, u, B_LIAB, amt)?;
    }
    for u in [U_A, U_D, U_D2] {
        let ix = w.ix_init_liq_record(us[u].accts[0], s.payer);
        ex(&mut w.vm, &ix, "init liq record")?;
    }
    for u in [U_A, U_D] {
        ex(&mut w.vm, &ix_update_em_dest(us[u].accts[0], us[u].auth, us[u].auth), "emissions destination")?;
    }
    let ix = ix_setup_emissions(w, B_COL, s.emint, w.roles.emissions, s.em_funding);
    ex(&mut w.vm, &ix, "setup emissions")?;
    for b in [B_COL, B_LIAB] {
        ex(&mut w.vm, &ix_init_metadata(w.banks[b].key, s.payer), "init metadata")?;
    }
    Ok(())
}

pub fn build_env(p: &Params) -> Result<Env, String> {
    let spec = world_spec(p);
    let mut m = World::build(&spec)?;
    let f = build_foreign(&mut m)?;
    let receiver = kp("c08_receiver", 0);
    let payer = kp("c08_payer", 0);
    let emint = kp("c08_emint", 0);
    let fake_owner = kp("c08_fake_program", 0);
    m.vm.set(receiver, wallet_acct(1_000_000_000_000));
    m.vm.set(payer, wallet_acct(1_000_000_000_000));
    m.vm.set(emint, spl_mint_acct(6));
    let ids: Vec<(&'static str, Pubkey)> = vec![
        ("user_a", m.users[U_A].auth),
        ("user_l", m.users[U_L].auth),
        ("user_d", m.users[U_D].auth),
        ("user_e", m.users[U_E].auth),
        ("stranger", m.roles.stranger),
        ("group_admin", m.roles.admin),
        ("emode_admin", m.roles.emode),
        ("curve_admin", m.roles.curve),
        ("limit_admin", m.roles.limit),
        ("emissions_admin", m.roles.emissions),
        ("metadata_admin", m.roles.metadata),
        ("risk_admin", m.roles.risk),
        ("fee_admin", m.roles.fee_admin),
        ("receiver", receiver),
        ("foreign_admin", f.roles.admin),
    ];
    let mut toks: BTreeMap<Pubkey, Vec<Pubkey>> = BTreeMap::new();
    let mut holders: Vec<Pubkey> = ids.iter().map(|x| x.1).collect();
    holders.extend([f.roles.emissions, f.roles.risk, m.users[U_D2].auth]);
    for (n, h) in holders.iter().enumerate() {
        let mut v = vec![];
        if let Some(u) = m.users.iter().find(|u| u.auth == *h) {
            v = u.tokens.clone();
        } else {
            for b in 0..NB {
                let k = kp("c08_ita", (n as u64) << 8 | b as u64);
                let a = m.make_token_acct(&m.banks[b].clone(), *h, 1 << 61);
                m.vm.set(k, a);
                v.push(k);
            }
        }
        let k = kp("c08_ita", (n as u64) << 8 | EM as u64);
        m.vm.set(k, spl_token_acct(emint, *h, 1 << 60));
        v.push(k);
        toks.insert(*h, v);
    }
    // canonical ATAs of the emissions destinations
    for u in [U_A, U_D] {
        let a = m.users[u].auth;
        m.vm.set(ata(&a, &emint, &spl_token::ID), spl_token_acct(emint, a, 0));
    }
    let mut e = Env { p: p.clone(), m, f, ids, toks, receiver, payer, emint, fake_owner };
    let s = Shared { emint, em_funding: e.toks[&e.m.roles.emissions][EM], payer };
    populate(&mut e.m, p, &s).map_err(|x| format!("main: {x}"))?;
    let s = Shared { emint, em_funding: e.toks[&e.f.roles.emissions][EM], payer };
    let pp = p.clone();
    with_f(&mut e, |f| populate(f, &pp, &s)).map_err(|x| format!("foreign: {x}"))?;
    // a day passes (interest, fees, emissions), then the distressed collateral crashes
    e.m.vm.advance(86_400);
    e.m.refresh_oracles();
    with_f(&mut e, |f| f.refresh_oracles());
    let o = oracle_spec(p, B_DCOL);
    let nm = o.mant * 4 / 10;
    let nc = o.conf * 4 / 10;
    e.m.set_price(B_DCOL, nm, nc, nm, nc).map_err(|x| format!("crash: {x:?}"))?;
    with_f(&mut e, |f| f.set_price(B_DCOL, nm, nc, nm, nc)).map_err(|x| format!("f crash: {x:?}"))?;
    Ok(e)
}

impl Env {
    fn a(&self, u: usize) -> Pubkey {
        self.m.users[u].accts[0]
    }
    fn fa(&self, u: usize) -> Pubkey {
        self.f.users[u].accts[0]
    }
    fn auth(&self, u: usize) -> Pubkey {
        self.m.users[u].auth
    }
    fn tok(&self, who: &Pubkey, b: usize) -> Pubkey {
        self.toks.get(who).map(|v| v[b]).unwrap_or_else(|| self.toks[&self.m.roles.stranger][b])
    }
    fn bank_of_key(&self, k: &Pubkey) -> Option<usize> {
        self.m.banks.iter().position(|b| b.key == *k)
    }
    fn vault(&self, w: &World, b: usize, kind: u8) -> Pubkey {
        match kind {
            0 => w.banks[b].lv,
            1 => w.banks[b].iv,
            _ => w.banks[b].fv,
        }
    }
    fn vault_auth(&self, w: &World, b: usize, kind: u8) -> Pubkey {
        match kind {
            0 => w.banks[b].lv_auth,
            1 => w.banks[b].iv_auth,
            _ => w.banks[b].fv_auth,
        }
    }
    /// another bank of the same group, preferably with the same token program
    fn sibling(&self, b: usize) -> usize {
        let tp = self.m.banks[b].token_program;
        (0..3).find(|j| *j != b && self.m.banks[*j].token_program == tp).unwrap_or((b + 1) % 3)
    }
}

// ------------------------------------------------------------------------------------------
// THE ORACLE, part 1: slot-binding classes (Appendix B.2) and the per-instruction slot table
// ------------------------------------------------------------------------------------------
const LIQ: u8 = 0;
const INS: u8 = 1;
const FEE: u8 = 2;

#[derive(Clone, Debug, PartialEq)]
pub enum B {
    /// must be the group the instruction's bank / account / role belongs to
    Group,
    /// the caller may pick any group, but it must be a group of this program
    GroupAny,
    /// bank of the instruction's group
    Bank(usize),
    /// the caller may pick any bank, but it must be a bank of this program
    BankAny(usize),
    Vault(usize, u8),
    VaultAuth(usize, u8),
    /// account of the instruction's group (user index)
    Acct(usize),
    /// instruction without a group slot: the account is bound by authority / record only.
    /// `tied` = a sibling account of ANOTHER authority must be refused
    AcctAny(usize, bool),
    Record(usize),
    FeeState,
    FeeWallet,
    FeeAta(usize),
    /// the bank's mint, passed in remaining accounts for Token-2022
    Mint(usize),
    EmMint(usize),
    EmVault(usize),
    EmAuth(usize),
    /// oracle of a bank in the observation accounts; asserted only when that price is needed
    Oracle(usize, bool),
    ObsBank(usize),
    Metadata(usize),
    Staked,
    TokenProgram(usize),
    SystemProgram,
    Sysvar,
    /// a PDA the instruction creates: must be exactly that address
    Pda,
    /// the role signer (the role table decides)
    Signer,
    /// chosen freely by the caller: exercised, never asserted
    Free,
    /// token account of the signer for that bank's mint (index EM = emissions mint): free; follows the identity
    FreeTok(usize),
}

/// concrete objects a recipe binds the symbolic slot table to
#[derive(Clone, Copy, Default)]
struct Cx {
    b: usize,
    b2: usize,
    u: usize,
    u2: usize,
}

/// account slots in declaration order, written from lib.rs doc comments / struct field comments
fn slot_table(ix: &str, c: Cx) -> Vec<(&'static str, B)> {
    use B::*;
    let (b, b2, u, u2) = (c.b, c.b2, c.u, c.u2);
    match ix {
        "lending_account_deposit" | "lending_account_repay" => vec![
            ("group", Group), ("marginfi_account", Acct(u)), ("authority", Signer), ("bank", Bank(b)),
            ("signer_token_account", FreeTok(b)), ("liquidity_vault", Vault(b, LIQ)), ("token_program", TokenProgram(b)),
        ],
        "lending_account_withdraw" | "lending_account_borrow" => vec![
            ("group", Group), ("marginfi_account", Acct(u)), ("authority", Signer), ("bank", Bank(b)),
            ("destination_token_account", FreeTok(b)), ("bank_liquidity_vault_authority", VaultAuth(b, LIQ)),
            ("liquidity_vault", Vault(b, LIQ)), ("token_program", TokenProgram(b)),
        ],
        "lending_account_close_balance" => vec![("group", Group), ("marginfi_account", Acct(u)), ("authority", Signer), ("bank", Bank(b))],
        "lending_account_withdraw_emissions" => vec![
            ("group", Group), ("marginfi_account", Acct(u)), ("authority", Signer), ("bank", Bank(b)), ("emissions_mint", EmMint(b)),
            ("emissions_auth", EmAuth(b)), ("emissions_vault", EmVault(b)), ("destination_account", FreeTok(EM)), ("token_program", TokenProgram(EM)),
        ],
        "lending_account_settle_emissions" => vec![("marginfi_account", Acct(u)), ("bank", Bank(b))],
        "marginfi_account_update_emissions_destination_account" => vec![("marginfi_account", AcctAny(u, true)), ("authority", Signer), ("destination_account", Free)],
        "lending_account_withdraw_emissions_permissionless" => vec![
            ("group", Group), ("marginfi_account", Acct(u)), ("bank", Bank(b)), ("emissions_mint", EmMint(b)), ("emissions_auth", EmAuth(b)),
            ("emissions_vault", EmVault(b)), ("destination_account", Free), ("token_program", TokenProgram(EM)),
        ],
        "lending_account_start_flashloan" => vec![("marginfi_account", AcctAny(u, true)), ("authority", Signer), ("ixs_sysvar", Sysvar)],
        "lending_account_end_flashloan" => vec![("marginfi_account", AcctAny(u, true)), ("authority", Signer)],
        "marginfi_account_set_freeze" => vec![("group", Group), ("marginfi_account", Acct(u)), ("admin", Signer)],
        "marginfi_account_init_liq_record" => vec![("marginfi_account", AcctAny(u, false)), ("fee_payer", Free), ("liquidation_record", Pda), ("system_program", SystemProgram)],
        "marginfi_account_initialize" => vec![("marginfi_group", GroupAny), ("marginfi_account", Free), ("authority", Free), ("fee_payer", Free), ("system_program", SystemProgram)],
        "marginfi_account_initialize_pda" => vec![
            ("marginfi_group", GroupAny), ("marginfi_account", Pda), ("authority", Free), ("fee_payer", Free), ("instructions_sysvar", Sysvar), ("system_program", SystemProgram),
        ],
        "lending_account_liquidate" => vec![
            ("group", Group), ("asset_bank", Bank(b)), ("liab_bank", Bank(b2)), ("liquidator_marginfi_account", Acct(u)), ("authority", Signer),
            ("liquidatee_marginfi_account", Acct(u2)), ("bank_liquidity_vault_authority", VaultAuth(b2, LIQ)), ("bank_liquidity_vault", Vault(b2, LIQ)),
            ("bank_insurance_vault", Vault(b2, INS)), ("token_program", TokenProgram(b2)),
        ],
        "start_liquidation" => vec![("marginfi_account", AcctAny(u, true)), ("liquidation_record", Record(u)), ("liquidation_receiver", Free), ("instruction_sysvar", Sysvar)],
        "end_liquidation" => vec![
            ("marginfi_account", AcctAny(u, true)), ("liquidation_record", Record(u)), ("liquidation_receiver", Signer), ("fee_state", FeeState),
            ("global_fee_wallet", FeeWallet), ("system_program", SystemProgram),
        ],
        "start_deleverage" => vec![("marginfi_account", Acct(u)), ("liquidation_record", Record(u)), ("group", Group), ("risk_admin", Signer), ("instruction_sysvar", Sysvar)],
        "end_deleverage" => vec![("marginfi_account", Acct(u)), ("liquidation_record", Record(u)), ("group", Group), ("risk_admin", Signer)],
        "lending_account_pulse_health" => vec![("marginfi_account", AcctAny(u, false))],
        "purge_deleverage_balance" => vec![("group", Group), ("marginfi_account", Acct(u)), ("risk_admin", Signer), ("bank", Bank(b))],
        "transfer_to_new_account" => vec![
            ("group", Group), ("old_marginfi_account", Acct(u)), ("new_marginfi_account", Free), ("authority", Signer), ("fee_payer", Free),
            ("new_authority", Free), ("global_fee_wallet", FeeWallet), ("system_program", SystemProgram),
        ],
        "transfer_to_new_account_pda" => vec![
            ("group", Group), ("old_marginfi_account", Acct(u)), ("new_marginfi_account", Pda), ("authority", Signer), ("fee_payer", Free),
            ("new_authority", Free), ("global_fee_wallet", FeeWallet), ("instructions_sysvar", Sysvar), ("system_program", SystemProgram),
        ],
        "marginfi_account_close" => vec![("marginfi_account", AcctAny(u, true)), ("authority", Signer), ("fee_payer", Free)],
        "lending_pool_accrue_bank_interest" | "lending_pool_pulse_bank_price_cache" => vec![("group", Group), ("bank", Bank(b))],
        "lending_pool_add_bank" | "lending_pool_add_bank_with_seed" => vec![
            ("marginfi_group", Group), ("admin", Signer), ("fee_payer", Free), ("fee_state", FeeState), ("global_fee_wallet", FeeWallet), ("bank_mint", Free),
            ("bank", if ix == "lending_pool_add_bank" { Free } else { Pda }), ("liquidity_vault_authority", Pda), ("liquidity_vault", Pda),
            ("insurance_vault_authority", Pda), ("insurance_vault", Pda), ("fee_vault_authority", Pda), ("fee_vault", Pda),
            ("token_program", TokenProgram(b)), ("system_program", SystemProgram),
        ],
        "lending_pool_close_bank" => vec![("group", Group), ("bank", Bank(b)), ("admin", Signer)],
        "lending_pool_collect_bank_fees" => vec![
            ("group", Group), ("bank", Bank(b)), ("liquidity_vault_authority", VaultAuth(b, LIQ)), ("liquidity_vault", Vault(b, LIQ)), ("insurance_vault", Vault(b, INS)),
            ("fee_vault", Vault(b, FEE)), ("fee_state", FeeState), ("fee_ata", FeeAta(b)), ("token_program", TokenProgram(b)),
        ],
        "lending_pool_withdraw_fees" => vec![
            ("group", Group), ("bank", Bank(b)), ("admin", Signer), ("fee_vault", Vault(b, FEE)), ("fee_vault_authority", VaultAuth(b, FEE)),
            ("dst_token_account", Free), ("token_program", TokenProgram(b)),
        ],
        "lending_pool_withdraw_insurance" => vec![
            ("group", Group), ("bank", Bank(b)), ("admin", Signer), ("insurance_vault", Vault(b, INS)), ("insurance_vault_authority", VaultAuth(b, INS)),
            ("dst_token_account", Free), ("token_program", TokenProgram(b)),
        ],
        "lending_pool_update_fees_destination_account" => vec![("group", Group), ("bank", Bank(b)), ("admin", Signer), ("destination_account", Free)],
        "lending_pool_withdraw_fees_permissionless" => vec![
            ("group", Group), ("bank", Bank(b)), ("fee_vault", Vault(b, FEE)), ("fee_vault_authority", VaultAuth(b, FEE)),
            // the destination is the one the admin registered on the bank: bound to the bank
            ("fees_destination_account", FeeAta(b)), ("token_program", TokenProgram(b)),
        ],
        "lending_pool_configure_bank_emode" => vec![("group", Group), ("emode_admin", Signer), ("bank", Bank(b))],
        "lending_pool_configure_bank_oracle" | "lending_pool_configure_bank" | "lending_pool_set_fixed_oracle_price" => vec![("group", Group), ("admin", Signer), ("bank", Bank(b))],
        "lending_pool_configure_bank_interest_only" => vec![("group", Group), ("delegate_curve_admin", Signer), ("bank", Bank(b))],
        "lending_pool_configure_bank_limits_only" => vec![("group", Group), ("delegate_limit_admin", Signer), ("bank", Bank(b))],
        "lending_pool_force_tokenless_repay_complete" => vec![("group", Group), ("risk_admin", Signer), ("bank", Bank(b))],
        "config_group_fee" => vec![("marginfi_group", GroupAny), ("global_fee_admin", Signer), ("fee_state", FeeState)],
        "marginfi_group_configure" | "configure_deleverage_withdrawal_limit" => vec![("marginfi_group", Group), ("admin", Signer)],
        "lending_pool_setup_emissions" => vec![
            ("group", Group), ("delegate_emissions_admin", Signer), ("bank", Bank(b)), ("emissions_mint", Free), ("emissions_auth", Pda),
            ("emissions_token_account", Pda), ("emissions_funding_account", FreeTok(EM)), ("token_program", TokenProgram(EM)), ("system_program", SystemProgram),
        ],
        "lending_pool_update_emissions_parameters" => vec![
            ("group", Group), ("delegate_emissions_admin", Signer), ("bank", Bank(b)), ("emissions_mint", EmMint(b)), ("emissions_token_account", EmVault(b)),
            ("emissions_funding_account", FreeTok(EM)), ("token_program", TokenProgram(EM)),
        ],
        "edit_global_fee_state" | "panic_pause" | "panic_unpause" => vec![("global_fee_admin", Signer), ("fee_state", FeeState)],
        "edit_staked_settings" => vec![("marginfi_group", Group), ("admin", Signer), ("staked_settings", Staked)],
        "lending_pool_clone_emode" => vec![("group", Group), ("signer", Signer), ("copy_from_bank", Bank(b)), ("copy_to_bank", Bank(b2))],
        "lending_pool_handle_bankruptcy" => vec![
            ("group", Group), ("signer", Signer), ("bank", Bank(b)), ("marginfi_account", Acct(u)), ("liquidity_vault", Vault(b, LIQ)),
            ("insurance_vault", Vault(b, INS)), ("insurance_vault_authority", VaultAuth(b, INS)), ("token_program", TokenProgram(b)),
        ],
        "init_bank_metadata" => vec![("bank", BankAny(b)), ("fee_payer", Free), ("metadata", Pda), ("system_program", SystemProgram)],
        "init_global_fee_state" => vec![("payer", Free), ("fee_state", Pda), ("system_program", SystemProgram)],
        "init_staked_settings" => vec![("marginfi_group", Group), ("admin", Signer), ("fee_payer", Free), ("staked_settings", Pda), ("system_program", SystemProgram)],
        "marginfi_group_initialize" => vec![("marginfi_group", Free), ("admin", Free), ("fee_state", FeeState), ("system_program", SystemProgram)],
        "migrate_curve" => vec![("bank", BankAny(b))],
        "panic_unpause_permissionless" => vec![("fee_state", FeeState)],
        "propagate_fee_state" => vec![("fee_state", FeeState), ("marginfi_group", GroupAny)],
        "write_bank_metadata" => vec![("group", Group), ("bank", Bank(b)), ("metadata_admin", Signer), ("metadata", Metadata(b))],
        _ => vec![],
    }
}

// ------------------------------------------------------------------------------------------
// THE ORACLE, part 2: role table (Appendix B.1)
// ------------------------------------------------------------------------------------------
#[derive(Clone, Debug, PartialEq)]
pub enum Role {
    /// no role signer at all (permissionless): only slot bindings are asserted
    None,
    /// exactly these keys may sign
    Keys(Vec<Pubkey>),
    /// a signer slot exists but anybody may fill it
    Anyone,
    /// every identity must be refused
    Nobody,
}

/// who may successfully sign `ix` on an account of `auth` in state `variant`
fn role_table(e: &Env, ix: &str, variant: &str, auth: Pubkey, permless: bool) -> Role {
    let r = &e.m.roles;
    let k = |v: &[Pubkey]| Role::Keys(v.to_vec());
    match ix {
        // group admin
        "marginfi_group_configure" | "lending_pool_add_bank" | "lending_pool_add_bank_with_seed" | "lending_pool_configure_bank" | "lending_pool_configure_bank_oracle"
        | "lending_pool_set_fixed_oracle_price" | "lending_pool_withdraw_fees" | "lending_pool_withdraw_insurance" | "lending_pool_update_fees_destination_account"
        | "lending_pool_close_bank" | "init_staked_settings" | "edit_staked_settings" | "configure_deleverage_withdrawal_limit" | "marginfi_account_set_freeze" => k(&[r.admin]),
        "lending_pool_configure_bank_interest_only" => k(&[r.curve]),
        "lending_pool_configure_bank_limits_only" => k(&[r.limit]),
        "lending_pool_configure_bank_emode" => k(&[r.emode]),
        "lending_pool_clone_emode" => k(&[r.admin, r.emode]),
        "lending_pool_setup_emissions" | "lending_pool_update_emissions_parameters" => k(&[r.emissions]),
        "write_bank_metadata" => k(&[r.metadata]),
        "lending_pool_force_tokenless_repay_complete" | "purge_deleverage_balance" | "start_deleverage" | "end_deleverage" => k(&[r.risk]),
        "lending_pool_handle_bankruptcy" => {
            if permless {
                Role::Anyone
            } else {
                k(&[r.admin, r.risk])
            }
        }
        "edit_global_fee_state" | "config_group_fee" | "panic_pause" | "panic_unpause" => k(&[r.fee_admin]),
        // account authority; the group admin INSTEAD while frozen; never a receivership signer
        "lending_account_deposit" | "lending_account_borrow" | "lending_account_close_balance" | "lending_account_withdraw_emissions" | "transfer_to_new_account"
        | "transfer_to_new_account_pda" | "lending_account_liquidate" => {
            if variant == "frozen" {
                k(&[r.admin])
            } else {
                k(&[auth])
            }
        }
        // as above, or anyone strictly inside an active receivership
        "lending_account_withdraw" | "lending_account_repay" => match variant {
            "frozen" => k(&[r.admin]),
            "receivership" => Role::Anyone,
            _ => k(&[auth]),
        },
        // authority only; frozen => refused for everyone
        "lending_account_start_flashloan" | "lending_account_end_flashloan" | "marginfi_account_update_emissions_destination_account" | "marginfi_account_close" => {
            if variant == "frozen" {
                Role::Nobody
            } else {
                k(&[auth])
            }
        }
        "end_liquidation" => k(&[e.receiver]),
        _ => Role::None,
    }
}

// ------------------------------------------------------------------------------------------
// cases and cells
// ------------------------------------------------------------------------------------------
pub struct Case {
    pub ix: &'static str,
    pub variant: &'static str,
    pub pre: Vm,
    pub before: Vec<Instruction>,
    pub x: Instruction,
    pub after: Vec<Instruction>,
    /// X is executed via CPI from the allow-listed proxy program
    pub cpi: bool,
    pub slots: Vec<(String, B)>,
    pub role: Role,
    /// false: no call is expected to succeed in this state (disabled / frozen-for-everyone / banned in receivership)
    pub need_baseline: bool,
    /// foreign role key that corresponds to the baseline signer (for the "foreign group signed by its own admin" substitute)
    pub f_signer: Option<Pubkey>,
    pub problem: Option<String>,
}

impl Case {
    pub fn name(&self) -> String {
        if self.variant == "normal" {
            self.ix.to_string()
        } else {
            format!("{}@{}", self.ix, self.variant)
        }
    }
}

fn has_liab(vm: &Vm, acct: &Pubkey, bank: &Pubkey) -> bool {
    read_macct(vm, acct)
        .map(|a| a.lending_account.balances.iter().any(|b| b.active != 0 && b.bank_pk == *bank && crate::snap::bits(b.liability_shares) > 0))
        .unwrap_or(false)
}

/// classify remaining accounts: mint / observation bank / oracle. An oracle is asserted when the
/// price is needed: the position is a liability of `acct`, or the bank is listed in `need`.
fn obs(e: &Env, vm: &Vm, metas: &[AccountMeta], tag: &str, acct: Option<Pubkey>, need: &[usize]) -> Vec<(String, B)> {
    let mut out = vec![];
    for (n, m) in metas.iter().enumerate() {
        let k = m.pubkey;
        let b = if let Some(i) = e.bank_of_key(&k) {
            (format!("{tag}{n}:bank{i}"), B::ObsBank(i))
        } else if let Some(i) = e.m.banks.iter().position(|b| b.oracle_kind != 0 && b.oracle_key == k) {
            let liab = acct.map(|a| has_liab(vm, &a, &e.m.banks[i].key)).unwrap_or(false);
            (format!("{tag}{n}:oracle{i}"), B::Oracle(i, liab || need.contains(&i)))
        } else if let Some(i) = e.m.banks.iter().position(|b| b.mint == k) {
            (format!("{tag}{n}:mint{i}"), B::Mint(i))
        } else {
            (format!("{tag}{n}:free"), B::Free)
        };
        out.push(b);
    }
    out
}

fn foreign_role(e: &Env, k: &Pubkey) -> Option<Pubkey> {
    let (m, f) = (&e.m.roles, &e.f.roles);
    [(m.admin, f.admin), (m.emode, f.emode), (m.curve, f.curve), (m.limit, f.limit), (m.emissions, f.emissions), (m.metadata, f.metadata), (m.risk, f.risk)]
        .iter()
        .find(|x| x.0 == *k)
        .map(|x| x.1)
}

struct Mk<'a> {
    e: &'a Env,
    out: Vec<Case>,
}

impl<'a> Mk<'a> {
    /// register a case; `rem` describes x.accounts[static..]
    #[allow(clippy::too_many_arguments)]
    fn add(&mut self, ix: &'static str, variant: &'static str, pre: &Vm, before: Vec<Instruction>, x: Instruction, after: Vec<Instruction>, cpi: bool, cx: Cx, rem: Vec<(String, B)>, auth: Pubkey, need_baseline: bool) {
        let e = self.e;
        let mut slots: Vec<(String, B)> = slot_table(ix, cx).into_iter().map(|(n, b)| (n.to_string(), b)).collect();
        let mut problem = None;
        if slots.is_empty() {
            problem = Some("no slot table".to_string());
        }
        slots.extend(rem);
        if slots.len() != x.accounts.len() {
            problem = Some(format!("slot table has {} entries, instruction has {} accounts", slots.len(), x.accounts.len()));
        }
        let permless = e.p.permless;
        let role = role_table(e, ix, variant, auth, permless);
        let f_signer = slots.iter().position(|s| s.1 == B::Signer).and_then(|i| x.accounts.get(i)).and_then(|m| foreign_role(e, &m.pubkey));
        self.out.push(Case { ix, variant, pre: pre.clone(), before, x, after, cpi, slots, role, need_baseline, f_signer, problem });
    }
}

// ------------------------------------------------------------------------------------------
// recipes: per instruction (and account-state variant) a state in which the baseline call succeeds
// ------------------------------------------------------------------------------------------
fn both(e: &Env, vm: &mut Vm, g: impl Fn(&World) -> Instruction) -> Result<(), String> {
    let ix = g(&m_over(e, vm));
    vm.exec(&ix).map_err(|x| format!("main prep: {x:?}"))?;
    let ix = g(&f_over(e, vm));
    vm.exec(&ix).map_err(|x| format!("foreign prep: {x:?}"))?;
    Ok(())
}

fn mint_rem(e: &Env, b: usize) -> Vec<(String, B)> {
    if e.m.banks[b].token_program == spl_token_2022::ID {
        vec![(format!("rem:mint{b}"), B::Mint(b))]
    } else {
        vec![]
    }
}
fn mark_signer(ix: &mut Instruction, k: &Pubkey) {
    for m in ix.accounts.iter_mut() {
        if m.pubkey == *k {
            m.is_signer = true;
        }
    }
}

/// user-facing instructions on the account of user `u` in state `vm`, baseline signer `sg`
#[allow(clippy::too_many_arguments)]
fn user_cases(mk: &mut Mk, variant: &'static str, vm: &Vm, u: usize, sg: Pubkey, wb: usize, before: &[Instruction], after: &[Instruction], cpi: bool, need: bool, tag: u64) {
    let e = mk.e;
    let w = m_over(e, vm);
    let acct = e.a(u);
    let auth = e.auth(u);
    let t = |b: usize| e.tok(&sg, b);
    let tokn = |b: usize, n: u64| n * ten(e.p.dec[b]);
    let (bf, af) = (before.to_vec(), after.to_vec());
    // inside a receivership the AUTHORITY can still do what the handler does not ban: those calls are the baselines there
    let rcv = variant == "receivership";
    // deposit
    let x = w.ix_deposit(acct, sg, B_COL, t(B_COL), 1000, None);
    mk.add("lending_account_deposit", variant, vm, bf.clone(), x, af.clone(), cpi, Cx { b: B_COL, u, ..Cx::default() }, mint_rem(e, B_COL), auth, need);
    if variant != "receivership" {
        // repay / withdraw inside a receivership have their own recipe (they are allowed there)
        let x = w.ix_repay(acct, sg, B_LIAB, t(B_LIAB), tokn(B_LIAB, 1), None);
        mk.add("lending_account_repay", variant, vm, bf.clone(), x, af.clone(), cpi, Cx { b: B_LIAB, u, ..Cx::default() }, mint_rem(e, B_LIAB), auth, need);
        let x = w.ix_withdraw(acct, sg, wb, t(wb), tokn(wb, 1), None);
        let n = 8 + mint_rem(e, wb).len();
        let mut rem = mint_rem(e, wb);
        rem.extend(obs(e, vm, &x.accounts[n..], "risk", Some(acct), &[]));
        mk.add("lending_account_withdraw", variant, vm, bf.clone(), x, af.clone(), cpi, Cx { b: wb, u, ..Cx::default() }, rem, auth, need);
    }
    // borrow
    let x = w.ix_borrow(acct, sg, B_LIAB, t(B_LIAB), tokn(B_LIAB, 1));
    let n = 8 + mint_rem(e, B_LIAB).len();
    let mut rem = mint_rem(e, B_LIAB);
    rem.extend(obs(e, vm, &x.accounts[n..], "risk", Some(acct), &[B_LIAB]));
    mk.add("lending_account_borrow", variant, vm, bf.clone(), x, af.clone(), cpi, Cx { b: B_LIAB, u, ..Cx::default() }, rem, auth, need);
    // close_balance on the empty-but-active balance
    let x = w.ix_close_balance(acct, sg, B_DUST);
    // inside a receivership the closing end_liquidation must not list the balance that was just closed
    let af_close = if variant == "receivership" { vec![w.ix_end_liquidation(acct, e.receiver, w.risk_metas(&acct, None, Some(e.m.banks[B_DUST].key)))] } else { af.clone() };
    mk.add("lending_account_close_balance", variant, vm, bf.clone(), x, af_close, cpi, Cx { b: B_DUST, u, ..Cx::default() }, vec![], auth, need || rcv);
    // withdraw_emissions
    let x = ix_withdraw_emissions(&w, acct, sg, B_COL, e.emint, t(EM));
    mk.add("lending_account_withdraw_emissions", variant, vm, bf.clone(), x, af.clone(), cpi, Cx { b: B_COL, u, ..Cx::default() }, vec![], auth, need || rcv);
    // transfer to a new account (keypair and PDA flavours)
    let new = kp("c08_newacct", tag);
    let mut x = ix_transfer(&w, acct, new, sg, e.payer, e.m.roles.stranger);
    mark_signer(&mut x, &new);
    mk.add("transfer_to_new_account", variant, vm, bf.clone(), x, af.clone(), cpi, Cx { u, ..Cx::default() }, vec![], auth, need);
    let x = ix_transfer_pda(&w, acct, sg, e.payer, e.m.roles.stranger, 7);
    mk.add("transfer_to_new_account_pda", variant, vm, bf.clone(), x, af.clone(), cpi, Cx { u, ..Cx::default() }, vec![], auth, need);
    // emissions destination
    let x = ix_update_em_dest(acct, sg, e.m.roles.stranger);
    let need_ed = (need || rcv) && variant != "frozen";
    mk.add("marginfi_account_update_emissions_destination_account", variant, vm, bf.clone(), x, af.clone(), cpi, Cx { u, ..Cx::default() }, vec![], auth, need_ed);
}

pub fn build_cases(e: &Env) -> Result<Vec<Case>, String> {
    let mut mk = Mk { e, out: vec![] };
    let base = e.m.vm.clone();
    let m = &e.m;
    let r = &e.m.roles;
    let none = Pubkey::default();
    let (a, l, d, ee) = (e.a(U_A), e.a(U_L), e.a(U_D), e.a(U_E));
    let tokn = |b: usize, n: u64| n * ten(e.p.dec[b]);
    let cx0 = Cx::default();

    // ================= user instructions, NORMAL =================
    user_cases(&mut mk, "normal", &base, U_A, e.auth(U_A), B_COL, &[], &[], false, true, 1);
    // flashloan bracket
    {
        let s = m.ix_start_flashloan(a, e.auth(U_A), 1);
        let en = m.ix_end_flashloan(a, e.auth(U_A), m.risk_metas(&a, None, None));
        let rem = obs(e, &base, &en.accounts[2..], "risk", Some(a), &[]);
        mk.add("lending_account_start_flashloan", "normal", &base, vec![], s.clone(), vec![en.clone()], false, Cx { u: U_A, ..cx0 }, vec![], e.auth(U_A), true);
        mk.add("lending_account_end_flashloan", "normal", &base, vec![s], en, vec![], false, Cx { u: U_A, ..cx0 }, rem, e.auth(U_A), true);
    }
    // close the empty account
    mk.add("marginfi_account_close", "normal", &base, vec![], ix_close_account(ee, e.auth(U_E), e.payer), vec![], false, Cx { u: U_E, ..cx0 }, vec![], e.auth(U_E), true);
    // classic liquidation: L liquidates D (asset = crashed collateral, liability = B_LIAB)
    let liq_case = |mk: &mut Mk, variant: &'static str, vm: &Vm, lq: usize, le: usize, sg: Pubkey, before: Vec<Instruction>, after: Vec<Instruction>, cpi: bool, need: bool| {
        let w = m_over(e, vm);
        let x = w.ix_liquidate(e.a(lq), sg, e.a(le), B_DCOL, B_LIAB, tokn(B_DCOL, 10));
        let mut rem = mint_rem(e, B_LIAB);
        let n0 = 10 + rem.len();
        let n_le = w.risk_metas(&e.a(le), None, None).len();
        let total = x.accounts.len();
        // the first of the two leading oracle slots is a legacy one: the asset price is read from the asset bank's own
        // observation pair further down (asserted there), so only the liability oracle is needed here
        rem.extend(obs(e, vm, &x.accounts[n0..n0 + 2], "px", None, &[B_LIAB]));
        // after the liquidation the liquidator owes nothing new but holds both banks; its B_LIAB position may flip to a liability
        rem.extend(obs(e, vm, &x.accounts[n0 + 2..total - n_le], "liquidator", Some(e.a(lq)), &[]));
        rem.extend(obs(e, vm, &x.accounts[total - n_le..], "liquidatee", Some(e.a(le)), &[B_DCOL]));
        mk.add("lending_account_liquidate", variant, vm, before, x, after, cpi, Cx { b: B_DCOL, b2: B_LIAB, u: lq, u2: le }, rem, e.auth(lq), need);
    };
    liq_case(&mut mk, "normal", &base, U_L, U_D, e.auth(U_L), vec![], vec![], false, true);

    // ================= FROZEN =================
    {
        let mut vm = base.clone();
        for k in [a, l, ee] {
            vm.exec(&m.ix_set_freeze(k, r.admin, true)).map_err(|x| format!("freeze: {x:?}"))?;
        }
        user_cases(&mut mk, "frozen", &vm, U_A, r.admin, B_COL, &[], &[], false, true, 2);
        let w = m_over(e, &vm);
        let s = w.ix_start_flashloan(a, e.auth(U_A), 1);
        let en = w.ix_end_flashloan(a, e.auth(U_A), w.risk_metas(&a, None, None));
        let rem = obs(e, &vm, &en.accounts[2..], "risk", Some(a), &[]);
        mk.add("lending_account_start_flashloan", "frozen", &vm, vec![], s.clone(), vec![en.clone()], false, Cx { u: U_A, ..cx0 }, vec![], e.auth(U_A), false);
        mk.add("lending_account_end_flashloan", "frozen", &vm, vec![s], en, vec![], false, Cx { u: U_A, ..cx0 }, rem, e.auth(U_A), false);
        mk.add("marginfi_account_close", "frozen", &vm, vec![], ix_close_account(ee, e.auth(U_E), e.payer), vec![], false, Cx { u: U_E, ..cx0 }, vec![], e.auth(U_E), false);
        liq_case(&mut mk, "frozen", &vm, U_L, U_D, r.admin, vec![], vec![], false, true);
    }

    // ================= DISABLED (the old account after a transfer) =================
    {
        let mut vm = base.clone();
        let new = kp("c08_newacct", 99);
        let mut x = ix_transfer(m, a, new, e.auth(U_A), e.payer, e.auth(U_A));
        mark_signer(&mut x, &new);
        vm.exec(&x).map_err(|x| format!("disable: {x:?}"))?;
        user_cases(&mut mk, "disabled", &vm, U_A, e.auth(U_A), B_COL, &[], &[], false, false, 3);
        let w = m_over(e, &vm);
        let s = w.ix_start_flashloan(a, e.auth(U_A), 1);
        let en = w.ix_end_flashloan(a, e.auth(U_A), vec![]);
        mk.add("lending_account_start_flashloan", "disabled", &vm, vec![], s.clone(), vec![en.clone()], false, Cx { u: U_A, ..cx0 }, vec![], e.auth(U_A), false);
        mk.add("lending_account_end_flashloan", "disabled", &vm, vec![s], en, vec![], false, Cx { u: U_A, ..cx0 }, vec![], e.auth(U_A), false);
        mk.add("marginfi_account_close", "disabled", &vm, vec![], ix_close_account(a, e.auth(U_A), e.payer), vec![], false, Cx { u: U_A, ..cx0 }, vec![], e.auth(U_A), false);
    }

    // ================= RECEIVERSHIP (account D, receiver R) =================
    let rc = e.receiver;
    let start = m.ix_start_liquidation(d, rc);
    let end = m.ix_end_liquidation(d, rc, m.risk_metas(&d, None, None));
    {
        // allowed: repay then withdraw, by anyone
        let repay_amt = (tokn(B_LIAB, 30) as u128 * e.p.price[B_DCOL] as u128 / e.p.price[B_LIAB] as u128) as u64;
        let rp = m.ix_repay(d, rc, B_LIAB, e.tok(&rc, B_LIAB), repay_amt, None);
        let pair = {
            let mut v = vec![AccountMeta::new_readonly(m.banks[B_DCOL].key, false)];
            if m.banks[B_DCOL].oracle_kind != 0 {
                v.push(AccountMeta::new_readonly(m.banks[B_DCOL].oracle_key, false));
            }
            v
        };
        let wd = m.ix_withdraw_with(d, rc, B_DCOL, e.tok(&rc, B_DCOL), tokn(B_DCOL, 60), None, pair.clone());
        mk.add("lending_account_repay", "receivership", &base, vec![start.clone()], rp.clone(), vec![wd.clone(), end.clone()], false, Cx { b: B_LIAB, u: U_D, ..cx0 }, mint_rem(e, B_LIAB), e.auth(U_D), true);
        let mut rem = mint_rem(e, B_DCOL);
        rem.extend(obs(e, &base, &pair, "own", None, &[B_DCOL]));
        mk.add("lending_account_withdraw", "receivership", &base, vec![start.clone(), rp], wd, vec![end.clone()], false, Cx { b: B_DCOL, u: U_D, ..cx0 }, rem, e.auth(U_D), true);
        // everything else that changes balances is banned for a receivership signer (executed via CPI from an allow-listed program,
        // because top-level instructions other than withdraw/repay already make start_liquidation fail)
        user_cases(&mut mk, "receivership", &base, U_D, e.auth(U_D), B_DCOL, &[start.clone()], &[end.clone()], true, false, 4);
        mk.add("marginfi_account_close", "receivership", &base, vec![start.clone()], ix_close_account(d, e.auth(U_D), e.payer), vec![end.clone()], true, Cx { u: U_D, ..cx0 }, vec![], e.auth(U_D), false);
        liq_case(&mut mk, "receivership", &base, U_D, U_D2, e.auth(U_D), vec![start.clone()], vec![end.clone()], true, false);
        let s = m.ix_start_flashloan(d, e.auth(U_D), 2);
        let en = m.ix_end_flashloan(d, e.auth(U_D), m.risk_metas(&d, None, None));
        let rem = obs(e, &base, &en.accounts[2..], "risk", Some(d), &[]);
        mk.add("lending_account_start_flashloan", "receivership", &base, vec![start.clone()], s.clone(), vec![en.clone(), end.clone()], false, Cx { u: U_D, ..cx0 }, vec![], e.auth(U_D), false);
        mk.add("lending_account_end_flashloan", "receivership", &base, vec![start.clone(), s], en, vec![end.clone()], false, Cx { u: U_D, ..cx0 }, rem, e.auth(U_D), false);
    }
    // ================= AFTER a receivership (empty bracket / used bracket, each closed in its own transaction) =================
    // "strictly inside": once the bracket's transaction is over the account is its authority's alone again
    {
        let mut vm = base.clone();
        // (the authority then tops its collateral up, so that its own borrow / withdraw baselines pass the health check)
        let topup = m.ix_deposit(d, e.auth(U_D), B_COL, e.tok(&e.auth(U_D), B_COL), tokn(B_COL, 10_000), None);
        if vm.exec_tx(&[start.clone(), end.clone()]).ok {
            // signer identities right after the bracket (no baseline demanded: the account is still unhealthy) ...
            user_cases(&mut mk, "after-empty-receivership", &vm, U_D, e.auth(U_D), B_DCOL, &[], &[], false, false, 5);
            // ... and the full matrix once the authority has topped up
            if vm.exec(&topup).is_ok() {
                user_cases(&mut mk, "after-empty-receivership+topup", &vm, U_D, e.auth(U_D), B_DCOL, &[], &[], false, true, 7);
            }
        }
        let repay_amt = (tokn(B_LIAB, 30) as u128 * e.p.price[B_DCOL] as u128 / e.p.price[B_LIAB] as u128) as u64;
        let rp = m.ix_repay(d, rc, B_LIAB, e.tok(&rc, B_LIAB), repay_amt, None);
        let mut pair = vec![AccountMeta::new_readonly(m.banks[B_DCOL].key, false)];
        if m.banks[B_DCOL].oracle_kind != 0 {
            pair.push(AccountMeta::new_readonly(m.banks[B_DCOL].oracle_key, false));
        }
        let wd = m.ix_withdraw_with(d, rc, B_DCOL, e.tok(&rc, B_DCOL), tokn(B_DCOL, 60), None, pair);
        let mut vm = base.clone();
        if vm.exec_tx(&[start.clone(), rp, wd, end.clone()]).ok {
            user_cases(&mut mk, "after-used-receivership", &vm, U_D, e.auth(U_D), B_DCOL, &[], &[], false, false, 6);
            if vm.exec(&topup).is_ok() {
                user_cases(&mut mk, "after-used-receivership+topup", &vm, U_D, e.auth(U_D), B_DCOL, &[], &[], false, true, 8);
            }
        }
    }
    // ================= AFTER a hostile multi-start transaction =================
    // "strictly inside an active receivership": a transaction that opens a bracket on D and closes only ANOTHER account's
    // must not commit; whatever the program lets commit, D is its authority's alone afterwards - every signer cell of the
    // user instructions is evaluated on the resulting state (no baseline demanded: D is still unhealthy).
    {
        let d2 = e.a(U_D2);
        let start2 = m.ix_start_liquidation(d2, rc);
        let end2 = m.ix_end_liquidation(d2, rc, m.risk_metas(&d2, None, None));
        // a short (< 8 bytes of data) top-level instruction of an allow-listed program, e.g. an ATA CreateIdempotent
        let short = Instruction { program_id: crate::svm::proxy_id_allowed(), accounts: vec![], data: vec![1] };
        let pair = {
            let mut v = vec![AccountMeta::new_readonly(m.banks[B_DCOL].key, false)];
            if m.banks[B_DCOL].oracle_kind != 0 {
                v.push(AccountMeta::new_readonly(m.banks[B_DCOL].oracle_key, false));
            }
            v
        };
        let wd = m.ix_withdraw_with(d, rc, B_DCOL, e.tok(&rc, B_DCOL), tokn(B_DCOL, 60), None, pair);
        let shapes: Vec<(u64, Vec<Instruction>)> = vec![
            (20, vec![start.clone(), start2.clone(), end2.clone()]),
            (21, vec![start.clone(), short.clone(), start2.clone(), end2.clone()]),
            (22, vec![start.clone(), short.clone(), start2.clone(), wd.clone(), end2.clone()]),
            (23, vec![start.clone(), wd.clone(), short.clone(), start2.clone(), end2.clone()]),
            (24, vec![start2.clone(), short.clone(), start.clone(), end.clone()]),
        ];
        for (tag, shape) in shapes {
            let mut vm = base.clone();
            if vm.exec_tx(&shape).ok {
                user_cases(&mut mk, "after-multi-start-transaction", &vm, U_D, e.auth(U_D), B_DCOL, &[], &[], false, false, tag);
            }
        }
    }
    // the bracket instructions themselves
    {
        let rem = obs(e, &base, &start.accounts[4..], "risk", Some(d), &[B_DCOL]); // maintenance health: every position's price is needed
        mk.add("start_liquidation", "normal", &base, vec![], start.clone(), vec![end.clone()], false, Cx { u: U_D, ..cx0 }, rem, none, true);
        let rem = obs(e, &base, &end.accounts[6..], "risk", Some(d), &[B_DCOL]); // maintenance health: every position's price is needed
        mk.add("end_liquidation", "normal", &base, vec![start.clone()], end.clone(), vec![], false, Cx { u: U_D, ..cx0 }, rem, none, true);
        let sd = m.ix_start_deleverage(d, r.risk);
        let ed = m.ix_end_deleverage(d, r.risk, m.risk_metas(&d, None, None));
        let rem = obs(e, &base, &sd.accounts[5..], "risk", Some(d), &[B_DCOL]); // maintenance health: every position's price is needed
        mk.add("start_deleverage", "normal", &base, vec![], sd.clone(), vec![ed.clone()], false, Cx { u: U_D, ..cx0 }, rem, none, true);
        let rem = obs(e, &base, &ed.accounts[4..], "risk", Some(d), &[B_DCOL]); // maintenance health: every position's price is needed
        mk.add("end_deleverage", "normal", &base, vec![sd], ed, vec![], false, Cx { u: U_D, ..cx0 }, rem, none, true);
    }

    // ================= other account-level instructions =================
    {
        let x = ix_settle_emissions(m, a, B_COL);
        mk.add("lending_account_settle_emissions", "normal", &base, vec![], x, vec![], false, Cx { b: B_COL, u: U_A, ..cx0 }, vec![], none, true);
        let dst = ata(&e.auth(U_A), &e.emint, &spl_token::ID);
        let x = ix_withdraw_emissions_perm(m, a, B_COL, e.emint, dst);
        mk.add("lending_account_withdraw_emissions_permissionless", "normal", &base, vec![], x, vec![], false, Cx { b: B_COL, u: U_A, ..cx0 }, vec![], none, true);
        let x = m.ix_set_freeze(a, r.admin, true);
        mk.add("marginfi_account_set_freeze", "normal", &base, vec![], x, vec![], false, Cx { u: U_A, ..cx0 }, vec![], none, true);
        let x = m.ix_init_liq_record(l, e.payer);
        mk.add("marginfi_account_init_liq_record", "normal", &base, vec![], x, vec![], false, Cx { u: U_L, ..cx0 }, vec![], none, true);
        let newk = kp("c08_newacct", 50);
        let mut x = ix_account_init(m, newk, e.auth(U_E), e.payer);
        mark_signer(&mut x, &newk);
        mk.add("marginfi_account_initialize", "normal", &base, vec![], x, vec![], false, cx0, vec![], none, true);
        let x = ix_account_init_pda(m, e.auth(U_E), e.payer, 3);
        mk.add("marginfi_account_initialize_pda", "normal", &base, vec![], x, vec![], false, cx0, vec![], none, true);
        let x = m.ix_pulse_health(a);
        // pulse_health never fails on bad observation accounts: it records the error in the (purely informational) cache
        let rem: Vec<(String, B)> = obs(e, &base, &x.accounts[1..], "risk", Some(a), &[]).into_iter().map(|(n, _)| (n, B::Free)).collect();
        mk.add("lending_account_pulse_health", "normal", &base, vec![], x, vec![], false, Cx { u: U_A, ..cx0 }, rem, none, true);
    }

    // ================= bank / group administration =================
    let simple = |mk: &mut Mk, name: &'static str, vm: &Vm, x: Instruction, b: usize| {
        mk.add(name, "normal", vm, vec![], x, vec![], false, Cx { b, ..cx0 }, vec![], none, true);
    };
    simple(&mut mk, "marginfi_group_configure", &base, m.ix_group_configure(r, None, None), 0);
    simple(&mut mk, "configure_deleverage_withdrawal_limit", &base, ix_delev_limit(m, r.admin), 0);
    {
        let mut o = BankConfigOpt::default();
        o.deposit_limit = Some(u64::MAX - 1);
        simple(&mut mk, "lending_pool_configure_bank", &base, m.ix_configure_bank(B_LIAB, o, r.admin), B_LIAB);
    }
    simple(&mut mk, "lending_pool_configure_bank_interest_only", &base, m.ix_configure_interest_only(B_LIAB, curve_opt(&m.banks[B_LIAB].spec.curve), r.curve), B_LIAB);
    simple(&mut mk, "lending_pool_configure_bank_limits_only", &base, m.ix_configure_limits_only(B_LIAB, Some(u64::MAX - 2), None, None, r.limit), B_LIAB);
    simple(&mut mk, "lending_pool_set_fixed_oracle_price", &base, m.ix_set_fixed_price(B_COL, oracle_spec(&e.p, B_COL).fixed_price().into(), r.admin), B_COL);
    simple(&mut mk, "lending_pool_configure_bank_emode", &base, m.ix_config_emode(B_LIAB, 5, &[], r.emode), B_LIAB);
    {
        let x = m.ix_clone_emode(B_COL, B_LIAB, r.admin);
        mk.add("lending_pool_clone_emode", "normal", &base, vec![], x, vec![], false, Cx { b: B_COL, b2: B_LIAB, ..cx0 }, vec![], none, true);
        // re-point the Pyth bank at its own oracle (the new oracle account is the admin's free choice)
        let x = m.ix_config_oracle(B_LIAB, 3, m.banks[B_LIAB].oracle_key, r.admin);
        mk.add("lending_pool_configure_bank_oracle", "normal", &base, vec![], x, vec![], false, Cx { b: B_LIAB, ..cx0 }, vec![("rem:new_oracle".into(), B::Free)], none, true);
        let x = m.ix_accrue(B_LIAB);
        simple(&mut mk, "lending_pool_accrue_bank_interest", &base, x, B_LIAB);
        let x = ix_pulse_price(m, B_LIAB);
        let rem = obs(e, &base, &x.accounts[2..], "px", None, &[B_LIAB]);
        mk.add("lending_pool_pulse_bank_price_cache", "normal", &base, vec![], x, vec![], false, Cx { b: B_LIAB, ..cx0 }, rem, none, true);
        simple(&mut mk, "lending_pool_close_bank", &base, m.ix_close_bank(B_SPARE, r.admin), B_SPARE);
        simple(&mut mk, "migrate_curve", &base, ix_migrate_curve(m.banks[B_DCOL].key), B_DCOL);
        simple(&mut mk, "init_bank_metadata", &base, ix_init_metadata(m.banks[B_DCOL].key, e.payer), B_DCOL);
        simple(&mut mk, "write_bank_metadata", &base, ix_write_metadata(m, B_COL, r.metadata), B_COL);
        // emissions
        let x = ix_setup_emissions(m, B_SPARE, e.emint, r.emissions, e.tok(&r.emissions, EM));
        simple(&mut mk, "lending_pool_setup_emissions", &base, x, B_SPARE);
        let x = ix_update_emissions(m, B_COL, e.emint, r.emissions, e.tok(&r.emissions, EM));
        simple(&mut mk, "lending_pool_update_emissions_parameters", &base, x, B_COL);
    }
    // new banks
    {
        let nb = bank_info(m, kp("c08_newbank", 0), &m.banks[B_COL], none);
        let mut x = ix_add_bank(m, &nb, r.admin, e.payer);
        mark_signer(&mut x, &nb.key);
        simple(&mut mk, "lending_pool_add_bank", &base, x, B_COL);
        let seed = 42u64;
        let key = pda(&[m.group.as_ref(), m.banks[B_COL].mint.as_ref(), &seed.to_le_bytes()]);
        let nb = bank_info(m, key, &m.banks[B_COL], none);
        simple(&mut mk, "lending_pool_add_bank_with_seed", &base, ix_add_bank_seed(m, &nb, r.admin, e.payer, seed), B_COL);
        let gk = kp("c08_newgroup", 0);
        let mut x = ix_group_init(gk, e.payer);
        mark_signer(&mut x, &gk);
        simple(&mut mk, "marginfi_group_initialize", &base, x, 0);
    }
    // fees: accrue first so that there is something outstanding
    {
        let mut vm = base.clone();
        both(e, &mut vm, |w| w.ix_accrue(B_LIAB))?;
        let x = m.ix_collect_fees(B_LIAB);
        mk.add("lending_pool_collect_bank_fees", "normal", &vm, vec![], x, vec![], false, Cx { b: B_LIAB, ..cx0 }, mint_rem(e, B_LIAB), none, true);
        both(e, &mut vm, |w| w.ix_collect_fees(B_LIAB))?;
        let dst = e.tok(&r.admin, B_LIAB);
        let x = m.ix_withdraw_fees(B_LIAB, r.admin, dst, 1);
        mk.add("lending_pool_withdraw_fees", "normal", &vm, vec![], x, vec![], false, Cx { b: B_LIAB, ..cx0 }, mint_rem(e, B_LIAB), none, true);
        let x = m.ix_withdraw_insurance(B_LIAB, r.admin, dst, 1);
        mk.add("lending_pool_withdraw_insurance", "normal", &vm, vec![], x, vec![], false, Cx { b: B_LIAB, ..cx0 }, mint_rem(e, B_LIAB), none, true);
        let x = ix_update_fees_dest(m, B_LIAB, r.admin, dst);
        mk.add("lending_pool_update_fees_destination_account", "normal", &vm, vec![], x, vec![], false, Cx { b: B_LIAB, ..cx0 }, vec![], none, true);
        let fdst = e.tok(&e.f.roles.risk, B_LIAB);
        vm.exec(&ix_update_fees_dest(m, B_LIAB, r.admin, dst)).map_err(|x| format!("fees dest: {x:?}"))?;
        vm.exec(&ix_update_fees_dest(&e.f, B_LIAB, e.f.roles.admin, fdst)).map_err(|x| format!("f fees dest: {x:?}"))?;
        let x = ix_withdraw_fees_perm(m, B_LIAB, dst, 1);
        mk.add("lending_pool_withdraw_fees_permissionless", "normal", &vm, vec![], x, vec![], false, Cx { b: B_LIAB, ..cx0 }, mint_rem(e, B_LIAB), none, true);
        // bankruptcy: the distressed collateral becomes worthless (both groups)
        let mut mm = m_over(e, &vm);
        mm.set_price(B_DCOL, 1, 0, 1, 0).map_err(|x| format!("bankrupt price: {x:?}"))?;
        let mut ff = f_over(e, &mm.vm);
        ff.set_price(B_DCOL, 1, 0, 1, 0).map_err(|x| format!("f bankrupt price: {x:?}"))?;
        let vm = ff.vm.clone();
        let w = m_over(e, &vm);
        let x = w.ix_bankruptcy(B_LIAB, d, r.risk);
        let n = 8 + mint_rem(e, B_LIAB).len();
        let mut rem = mint_rem(e, B_LIAB);
        // a bankruptcy assessment values EVERY position (unweighted assets against liabilities): the collateral bank's
        // oracle is needed too
        rem.extend(obs(e, &vm, &x.accounts[n..], "risk", Some(d), &[B_DCOL]));
        mk.add("lending_pool_handle_bankruptcy", "normal", &vm, vec![], x, vec![], false, Cx { b: B_LIAB, u: U_D, ..cx0 }, rem, none, true);
    }
    // deleveraging mode: tokenless repayments allowed -> complete -> purge
    {
        let mut vm = base.clone();
        let mut o = BankConfigOpt::default();
        o.tokenless_repayments_allowed = Some(true);
        vm.exec(&m.ix_configure_bank(B_DUST, o.clone(), r.admin)).map_err(|x| format!("tokenless: {x:?}"))?;
        vm.exec(&e.f.ix_configure_bank(B_DUST, o, e.f.roles.admin)).map_err(|x| format!("f tokenless: {x:?}"))?;
        simple(&mut mk, "lending_pool_force_tokenless_repay_complete", &vm, ix_force_tokenless(m, B_DUST, r.risk), B_DUST);
        vm.exec(&ix_force_tokenless(m, B_DUST, r.risk)).map_err(|x| format!("complete: {x:?}"))?;
        vm.exec(&ix_force_tokenless(&e.f, B_DUST, e.f.roles.risk)).map_err(|x| format!("f complete: {x:?}"))?;
        let x = ix_purge(m, a, r.risk, B_DUST);
        mk.add("purge_deleverage_balance", "normal", &vm, vec![], x, vec![], false, Cx { b: B_DUST, u: U_A, ..cx0 }, vec![], none, true);
    }
    // global fee state / panic
    {
        simple(&mut mk, "edit_global_fee_state", &base, ix_edit_fee_state(m, r.fee_admin), 0);
        simple(&mut mk, "config_group_fee", &base, ix_config_group_fee(m, r.fee_admin, true), 0);
        simple(&mut mk, "propagate_fee_state", &base, m.ix_propagate_fee_state(), 0);
        simple(&mut mk, "panic_pause", &base, m.ix_panic_pause(r.fee_admin), 0);
        let mut vm = base.clone();
        vm.exec(&m.ix_panic_pause(r.fee_admin)).map_err(|x| format!("pause: {x:?}"))?;
        simple(&mut mk, "panic_unpause", &vm, m.ix_panic_unpause(r.fee_admin), 0);
        vm.advance(3 * 3600);
        simple(&mut mk, "panic_unpause_permissionless", &vm, m.ix_panic_unpause_permissionless(), 0);
        let mut vm = base.clone();
        vm.accts.remove(&m.fee_state);
        simple(&mut mk, "init_global_fee_state", &vm, ix_init_fee_state(m, e.payer), 0);
    }
    // staked settings
    {
        simple(&mut mk, "init_staked_settings", &base, ix_init_staked(m, r.admin, e.payer), 0);
        let mut vm = base.clone();
        vm.exec(&ix_init_staked(m, r.admin, e.payer)).map_err(|x| format!("staked: {x:?}"))?;
        vm.exec(&ix_init_staked(&e.f, e.f.roles.admin, e.payer)).map_err(|x| format!("f staked: {x:?}"))?;
        simple(&mut mk, "edit_staked_settings", &vm, ix_edit_staked(m, r.admin), 0);
    }
    Ok(mk.out)
}

// ------------------------------------------------------------------------------------------
// cells
// ------------------------------------------------------------------------------------------
pub struct Cell {
    pub id: String,
    pub sig: String,
    pub repl: Vec<(usize, Pubkey)>,
    pub unsign: Option<usize>,
    pub fab: Vec<(Pubkey, Acct)>,
    pub must_fail: bool,
    pub kind: &'static str,
}

const AUTHORITY_SIGNED: &[&str] = &[
    "lending_account_deposit",
    "lending_account_repay",
    "lending_account_withdraw",
    "lending_account_borrow",
    "lending_account_close_balance",
    "lending_account_withdraw_emissions",
    "transfer_to_new_account",
    "transfer_to_new_account_pda",
    "lending_account_liquidate",
];

fn fresh(case: &Case, slot: &str, sub: &str) -> Pubkey {
    kp("c08_fresh", fnv(format!("{}|{}|{}", case.name(), slot, sub).as_bytes()))
}

fn signer_cells(e: &Env, c: &Case) -> Vec<Cell> {
    let mut out = vec![];
    if c.role == Role::None {
        return out;
    }
    let Some(si) = c.slots.iter().position(|s| s.1 == B::Signer) else { return out };
    for (name, key) in &e.ids {
        for signed in [true, false] {
            let mut repl = vec![(si, *key)];
            for (j, s) in c.slots.iter().enumerate() {
                if let B::FreeTok(b) = s.1 {
                    repl.push((j, e.tok(key, b)));
                }
            }
            let entitled = match &c.role {
                Role::Keys(v) => v.contains(key),
                Role::Anyone => true,
                _ => false,
            };
            let must_fail = !signed || !entitled;
            let tail = if signed { "" } else { ":unsigned" };
            out.push(Cell {
                id: format!("signer:{}:{}:{}", c.slots[si].0, name, if signed { "signed" } else { "unsigned" }),
                sig: format!("auth:signer:{}:{}{}", c.name(), name, tail),
                repl,
                unsign: if signed { None } else { Some(si) },
                fab: vec![],
                must_fail,
                kind: "signer",
            });
        }
    }
    out
}

fn bank_of_binding(b: &B) -> Option<usize> {
    match b {
        B::Bank(i) | B::Vault(i, _) | B::VaultAuth(i, _) | B::Oracle(i, _) | B::ObsBank(i) | B::EmVault(i) | B::EmAuth(i) | B::Metadata(i) | B::FeeAta(i) | B::Mint(i) | B::EmMint(i) => Some(*i),
        _ => None,
    }
}

/// every slot bound to bank `b`, replaced by the foreign group's counterpart
fn cluster(e: &Env, c: &Case, b: usize) -> Vec<(usize, Pubkey)> {
    let f = &e.f;
    let mut v = vec![];
    for (j, s) in c.slots.iter().enumerate() {
        let k = match &s.1 {
            B::Bank(i) | B::ObsBank(i) if *i == b => f.banks[b].key,
            B::Vault(i, k) if *i == b => e.vault(f, b, *k),
            B::VaultAuth(i, k) if *i == b => e.vault_auth(f, b, *k),
            B::Oracle(i, _) if *i == b => f.banks[b].oracle_key,
            B::EmVault(i) if *i == b => em_vault(&f.banks[b].key, &e.emint),
            B::EmAuth(i) if *i == b => em_auth(&f.banks[b].key, &e.emint),
            B::Metadata(i) if *i == b => metadata_key(&f.banks[b].key),
            B::FeeAta(i) if *i == b && c.ix == "lending_pool_withdraw_fees_permissionless" => e.tok(&f.roles.risk, b),
            _ => continue,
        };
        v.push((j, k));
    }
    v
}

fn subst_cells(e: &Env, c: &Case) -> Vec<Cell> {
    let mut out = vec![];
    let (m, f) = (&e.m, &e.f);
    let vm = &c.pre;
    let si = c.slots.iter().position(|s| s.1 == B::Signer);
    let has_record = c.slots.iter().any(|s| matches!(s.1, B::Record(_)));
    let authority_signed = AUTHORITY_SIGNED.contains(&c.ix);
    for (j, (sname, bind)) in c.slots.iter().enumerate() {
        let orig = c.x.accounts[j].pubkey;
        let mut subs: Vec<(&str, Vec<(usize, Pubkey)>, Vec<(Pubkey, Acct)>, bool)> = vec![];
        let one = |k: Pubkey| vec![(j, k)];
        // fabricated look-alikes of the right account
        let clone_as = |sub: &str, owner: Pubkey| -> (Vec<(usize, Pubkey)>, Vec<(Pubkey, Acct)>) {
            let k = fresh(c, sname, sub);
            let mut a = vm.get(&orig).cloned().unwrap_or_default();
            a.owner = owner;
            if a.lamports == 0 {
                a.lamports = 1_000_000;
            }
            (vec![(j, k)], vec![(k, a)])
        };
        let add_clones = |subs: &mut Vec<(&str, Vec<(usize, Pubkey)>, Vec<(Pubkey, Acct)>, bool)>, wrong_type: Option<Pubkey>| {
            let (r, fb) = clone_as("clone-fake-owner", e.fake_owner);
            subs.push(("clone-fake-owner", r, fb, true));
            let (r, fb) = clone_as("clone-system-owner", system_program::ID);
            subs.push(("clone-system-owner", r, fb, true));
            subs.push(("empty-system", one(fresh(c, sname, "empty")), vec![], true));
            if let Some(k) = wrong_type {
                subs.push(("wrong-type", one(k), vec![], true));
            }
        };
        match bind {
            B::Group | B::GroupAny => {
                subs.push(("foreign-group", one(f.group), vec![], *bind == B::Group));
                // a foreign group signed by its own role holder is an attack only if some OTHER slot belongs to the main group
                let group_bound_object = c.slots.iter().any(|s| matches!(s.1, B::Bank(_) | B::Acct(_) | B::Staked | B::Metadata(_)));
                if let (B::Group, Some(si), Some(fs), true) = (bind, si, c.f_signer, group_bound_object) {
                    let mut r = vec![(j, f.group), (si, fs)];
                    for (q, s) in c.slots.iter().enumerate() {
                        if let B::FreeTok(b) = s.1 {
                            r.push((q, e.tok(&fs, b)));
                        }
                    }
                    subs.push(("foreign-group+its-signer", r, vec![], true));
                }
                add_clones(&mut subs, Some(m.banks[B_COL].key));
            }
            B::Bank(b) | B::BankAny(b) => {
                let bound = matches!(bind, B::Bank(_));
                subs.push(("foreign-bank", one(f.banks[*b].key), vec![], bound));
                let cl = cluster(e, c, *b);
                if cl.len() > 1 && bound {
                    subs.push(("foreign-bank-cluster", cl, vec![], true));
                }
                let tied = c.slots.iter().enumerate().any(|(q, s)| q != j && !matches!(s.1, B::Bank(_)) && bank_of_binding(&s.1) == Some(*b));
                subs.push(("sibling-bank", one(m.banks[e.sibling(*b)].key), vec![], bound && tied));
                add_clones(&mut subs, Some(e.a(U_A)));
                if bound {
                    if let Some(mut bk) = try_read_bank(vm, &orig) {
                        bk.group = f.group;
                        let k = fresh(c, sname, "regrouped");
                        let mut a = vm.get(&orig).cloned().unwrap();
                        a.data[8..8 + std::mem::size_of::<Bank>()].copy_from_slice(bytemuck::bytes_of(&bk));
                        subs.push(("regrouped-copy", one(k), vec![(k, a)], true));
                    }
                }
            }
            B::Vault(b, k) => {
                subs.push(("sibling-bank-vault", one(e.vault(m, e.sibling(*b), *k)), vec![], true));
                for ok in 0..3u8 {
                    if ok != *k {
                        subs.push((if (ok + 3 - *k) % 3 == 1 { "same-bank-other-vault-1" } else { "same-bank-other-vault-2" }, one(e.vault(m, *b, ok)), vec![], true));
                    }
                }
                subs.push(("foreign-bank-vault", one(e.vault(f, *b, *k)), vec![], true));
                let owner = vm.get(&orig).map(|a| a.owner).unwrap_or_default();
                let (r, fb) = clone_as("clone-other-address", owner);
                subs.push(("clone-other-address", r, fb, true));
                add_clones(&mut subs, None);
            }
            B::VaultAuth(b, k) => {
                subs.push(("sibling-bank-authority", one(e.vault_auth(m, e.sibling(*b), *k)), vec![], true));
                for ok in 0..3u8 {
                    if ok != *k {
                        subs.push((if (ok + 3 - *k) % 3 == 1 { "same-bank-other-authority-1" } else { "same-bank-other-authority-2" }, one(e.vault_auth(m, *b, ok)), vec![], true));
                    }
                }
                subs.push(("foreign-bank-authority", one(e.vault_auth(f, *b, *k)), vec![], true));
                subs.push(("stranger-wallet", one(m.roles.stranger), vec![], true));
            }
            B::Acct(u) | B::AcctAny(u, _) => {
                let grouped = matches!(bind, B::Acct(_));
                let tied = match bind {
                    B::AcctAny(_, t) => *t,
                    _ => authority_signed && sname != "liquidatee_marginfi_account",
                };
                subs.push(("foreign-account", one(e.fa(*u)), vec![], grouped || has_record));
                let other = if *u == U_D { U_D2 } else { U_D };
                subs.push(("other-user-account", one(e.a(other)), vec![], tied || has_record));
                add_clones(&mut subs, Some(m.banks[B_COL].key));
                if grouped {
                    if let Some(mut ma) = read_macct(vm, &orig) {
                        ma.group = f.group;
                        let k = fresh(c, sname, "regrouped");
                        let mut a = vm.get(&orig).cloned().unwrap();
                        a.data[8..8 + std::mem::size_of::<MarginfiAccount>()].copy_from_slice(bytemuck::bytes_of(&ma));
                        subs.push(("regrouped-copy", one(k), vec![(k, a)], true));
                    }
                }
            }
            B::Record(u) => {
                let other = if *u == U_A { U_D } else { U_A };
                subs.push(("other-account-record", one(World::liq_record_key(&e.a(other))), vec![], true));
                subs.push(("foreign-account-record", one(World::liq_record_key(&e.fa(*u))), vec![], true));
                add_clones(&mut subs, Some(e.a(*u)));
            }
            B::FeeState => {
                let (r, fb) = clone_as("clone-other-address", marginfi::ID);
                subs.push(("clone-other-address", r, fb, true));
                add_clones(&mut subs, Some(m.group));
            }
            B::FeeWallet => {
                subs.push(("stranger-wallet", one(m.roles.stranger), vec![], true));
                subs.push(("payer-wallet", one(e.payer), vec![], true));
            }
            B::FeeAta(b) => {
                subs.push(("stranger-token-account", one(e.tok(&m.roles.stranger, *b)), vec![], true));
                add_clones(&mut subs, None);
            }
            B::Mint(b) | B::EmMint(b) => {
                let other = if matches!(bind, B::EmMint(_)) { m.banks[*b].mint } else { m.banks[e.sibling(*b)].mint };
                subs.push(("other-mint", one(other), vec![], true));
                let (r, fb) = clone_as("clone-fake-owner", e.fake_owner);
                subs.push(("clone-fake-owner", r, fb, true));
            }
            B::EmVault(b) => {
                subs.push(("foreign-bank-emissions-vault", one(em_vault(&f.banks[*b].key, &e.emint)), vec![], true));
                subs.push(("sibling-bank-emissions-vault", one(em_vault(&m.banks[e.sibling(*b)].key, &e.emint)), vec![], true));
                subs.push(("stranger-token-account", one(e.tok(&m.roles.stranger, EM)), vec![], true));
                add_clones(&mut subs, None);
            }
            B::EmAuth(b) => {
                subs.push(("foreign-bank-emissions-authority", one(em_auth(&f.banks[*b].key, &e.emint)), vec![], true));
                subs.push(("sibling-bank-emissions-authority", one(em_auth(&m.banks[e.sibling(*b)].key, &e.emint)), vec![], true));
                subs.push(("stranger-wallet", one(m.roles.stranger), vec![], true));
            }
            B::Oracle(b, assert_) => {
                if let Some(o) = (0..NB).find(|q| q != b && m.banks[*q].oracle_kind != 0) {
                    subs.push(("other-bank-oracle", one(m.banks[o].oracle_key), vec![], *assert_));
                }
                subs.push(("foreign-bank-oracle", one(f.banks[*b].oracle_key), vec![], *assert_));
                let (r, fb) = clone_as("clone-fake-owner", e.fake_owner);
                subs.push(("clone-fake-owner", r, fb, *assert_));
            }
            B::ObsBank(b) => {
                subs.push(("sibling-bank", one(m.banks[e.sibling(*b)].key), vec![], true));
                subs.push(("foreign-bank", one(f.banks[*b].key), vec![], true));
                let (r, fb) = clone_as("clone-fake-owner", e.fake_owner);
                subs.push(("clone-fake-owner", r, fb, true));
            }
            B::Metadata(b) => {
                let o = if *b == B_COL { B_LIAB } else { B_COL };
                subs.push(("other-bank-metadata", one(metadata_key(&m.banks[o].key)), vec![], true));
                subs.push(("foreign-bank-metadata", one(metadata_key(&f.banks[*b].key)), vec![], true));
                add_clones(&mut subs, None);
            }
            B::Staked => {
                subs.push(("foreign-group-settings", one(staked_key(&f.group)), vec![], true));
                add_clones(&mut subs, Some(m.group));
            }
            B::TokenProgram(_) => {
                let other = if orig == spl_token::ID { spl_token_2022::ID } else { spl_token::ID };
                subs.push(("other-token-program", one(other), vec![], true));
                subs.push(("system-program", one(system_program::ID), vec![], true));
            }
            B::SystemProgram => {
                subs.push(("token-program", one(spl_token::ID), vec![], true));
                subs.push(("fake-program", one(e.fake_owner), vec![], true));
            }
            B::Sysvar => {
                subs.push(("clock-sysvar", one(solana_program::sysvar::clock::ID), vec![], true));
                subs.push(("empty-system", one(fresh(c, sname, "empty")), vec![], true));
            }
            B::Pda => {
                subs.push(("fresh-address", one(fresh(c, sname, "pda")), vec![], true));
                subs.push(("stranger-wallet", one(m.roles.stranger), vec![], true));
            }
            B::Free => subs.push(("free-other", one(fresh(c, sname, "free")), vec![], false)),
            B::FreeTok(b) => subs.push(("free-other-token-account", one(e.tok(&m.roles.stranger, *b)), vec![], false)),
            B::Signer => {}
        }
        for (name, repl, fab, assert_) in subs {
            if repl.len() == 1 && repl[0].1 == orig {
                continue;
            }
            out.push(Cell {
                id: format!("subst:{sname}:{name}"),
                sig: format!("auth:subst:{}:{}:{}", c.name(), sname, name),
                repl,
                unsign: None,
                fab,
                must_fail: assert_,
                kind: "subst",
            });
        }
    }
    out
}

pub fn cells_of(e: &Env, c: &Case) -> Vec<Cell> {
    let mut v = signer_cells(e, c);
    if c.need_baseline {
        v.extend(subst_cells(e, c));
    }
    v
}

pub struct Outcome {
    pub ok: bool,
    pub err: Option<(usize, u64)>,
    pub changed: Vec<String>,
    /// pre-state owners of the accounts the transaction modified
    pub changed_owners: Vec<Pubkey>,
    pub untouched_on_failure: bool,
}

fn execute(c: &Case, cell: Option<&Cell>) -> Outcome {
    let mut vm = c.pre.clone();
    let mut x = c.x.clone();
    if let Some(cell) = cell {
        for (k, a) in &cell.fab {
            vm.set(*k, a.clone());
        }
        for (j, k) in &cell.repl {
            x.accounts[*j].pubkey = *k;
        }
        if let Some(j) = cell.unsign {
            x.accounts[j].is_signer = false;
        }
    }
    let snap = vm.accts.clone();
    let mut ixs = c.before.clone();
    ixs.push(if c.cpi { wrap_cpi(proxy_id_allowed(), &x) } else { x });
    ixs.extend(c.after.iter().cloned());
    let r = vm.exec_tx(&ixs);
    let mut changed = vec![];
    let mut changed_owners = vec![];
    if r.ok {
        for (k, a) in vm.accts.iter() {
            match snap.get(k) {
                Some(o) if o == a => {}
                Some(o) => {
                    changed_owners.push(o.owner);
                    let off = o.data.iter().zip(a.data.iter()).position(|(p, q)| p != q);
                    changed.push(format!("{k}: lamports {}->{}, first differing byte {:?}", o.lamports, a.lamports, off));
                }
                None => changed.push(format!("{k}: created ({} bytes)", a.data.len())),
            }
        }
        for k in snap.keys() {
            if !vm.accts.contains_key(k) {
                changed.push(format!("{k}: closed"));
            }
        }
        changed.truncate(12);
    }
    let untouched = r.ok || vm.accts == snap;
    Outcome { ok: r.ok, err: r.err.as_ref().map(|(i, e)| (*i, crate::svm::err_code(e))), changed, changed_owners, untouched_on_failure: untouched }
}

// ------------------------------------------------------------------------------------------
// driver
// ------------------------------------------------------------------------------------------
fn process_case(e: &Env, c: &Case, wi: usize, report: &mut Report, only_cell: Option<&str>) {
    let name = c.name();
    report.label(&format!("case:{name}"));
    if let Some(p) = &c.problem {
        report.engine_errors.push(format!("{name}: {p}"));
        return;
    }
    let mut cells = cells_of(e, c);
    let reached = if c.need_baseline {
        let b = execute(c, None);
        if !b.ok {
            report.label(&format!("unreached:{name}"));
            report.label(&format!("unreached-why:{name}:{:?}", b.err));
            // the entitled call does not go through in this state: the substitution cells would be vacuous, but a
            // WRONG signer being accepted is a violation whether or not the entitled one is (e.g. a frozen account
            // that obeys another role than the group admin), so the signer cells are still evaluated
            let n0 = cells.len();
            cells.retain(|x| x.kind == "signer" && x.must_fail);
            report.add_extra("cells_unreached", (n0 - cells.len()) as u64);
            false
        } else {
            report.label(&format!("reached:{name}"));
            true
        }
    } else {
        report.label(&format!("no-baseline-by-design:{name}"));
        false
    };
    for cell in &cells {
        if let Some(o) = only_cell {
            if o != cell.id {
                continue;
            }
        }
        report.eval();
        report.add_extra("cells_evaluated", 1);
        report.label(&format!("ix:{}", c.ix));
        let out = execute(c, Some(cell));
        if only_cell.is_some() {
            report.label(&format!("replay-outcome: ok={} err={:?} must_fail={}", out.ok, out.err, cell.must_fail));
        }
        if !cell.must_fail {
            report.add_extra("cells_counted_only", 1);
            if cell.kind == "signer" {
                report.label(if out.ok { "entitled:accepted" } else { "entitled:refused" });
                if !out.ok {
                    report.label(&format!("entitled-refused:{name}:{}", cell.id));
                }
            } else {
                report.label(if out.ok { "free-or-legit-substitute:accepted" } else { "free-or-legit-substitute:refused" });
            }
            continue;
        }
        report.add_extra("cells_asserted", 1);
        report.label(&format!("asserted:{}", cell.kind));
        if reached {
            report.nontrivial_hash(fnv(format!("{wi}|{name}|{}", cell.id).as_bytes()));
        } else {
            report.add_extra("cells_asserted_without_baseline", 1);
        }
        let replay = json!({"params": e.p, "case": name, "cell": cell.id});
        // svm-lite does not model the runtime rule "only the owner program may modify an account": SPL-Token relies on it
        // (it does not check the owner of source/destination itself). With the OTHER token program substituted, a token
        // account of the right program that got modified means the real runtime rejects the transaction.
        if out.ok && cell.id.ends_with(":other-token-program") {
            let passed = cell.repl[0].1;
            if out.changed_owners.iter().any(|o| (*o == spl_token::ID || *o == spl_token_2022::ID) && *o != passed) {
                report.label("refused-by-runtime-owner-rule(emulated)");
                continue;
            }
        }
        // a wrong token program that was never invoked (nothing to transfer in this state) moved nothing: not a claim of the statement
        if out.ok && matches!(c.slots[cell.repl[0].0].1, B::TokenProgram(_)) && !out.changed_owners.iter().any(|o| *o == spl_token::ID || *o == spl_token_2022::ID) {
            report.label(&format!("token-program-never-invoked:{name}"));
            continue;
        }
        if out.ok {
            report.violation(
                &cell.sig,
                format!(
                    "{name}: cell {} was ACCEPTED but the {} says it must be refused (replaced slots: {:?}; signature bit cleared on slot: {:?}); store changes: {:?}",
                    cell.id,
                    if cell.kind == "signer" { "role table" } else { "slot-binding table" },
                    cell.repl.iter().map(|(j, k)| format!("{}={k}", c.slots[*j].0)).collect::<Vec<_>>(),
                    cell.unsign.map(|j| c.slots[j].0.clone()),
                    out.changed
                ),
                replay,
            );
        } else if !out.untouched_on_failure {
            report.violation(&format!("{}:store-changed-on-failure", cell.sig), format!("{name}: cell {} failed but left the store modified", cell.id), replay);
        }
    }
}

fn gen_worlds(ctx: &Ctx, n: u32) -> Vec<Params> {
    let mut v = vec![];
    let strat = params_strategy();
    run_prop(ctx.seed_bytes("c08-worlds", 0), n, &strat, |p, counting| {
        if counting {
            v.push(p.clone());
        }
        Ok(())
    });
    v
}

pub fn run(ctx: &Ctx) -> Report {
    let n = ctx.tier.pick(320u32, 8000);
    let worlds = gen_worlds(ctx, n);
    let threads = ctx.threads.max(1);
    let mut report = par_workers(threads, |w| {
        let mut r = Report::new(RULE);
        r.exhaustive = false;
        r.nontrivial_floor = 1000;
        // many worlds: one world per worker at a time; few worlds: every worker builds each world and takes a slice of its cases
        let by_world = worlds.len() >= threads;
        for (wi, p) in worlds.iter().enumerate() {
            if by_world && wi % threads != w {
                continue;
            }
            let lead = by_world || w == 0;
            let e = match build_env(p) {
                Ok(e) => e,
                Err(x) => {
                    if lead {
                        r.engine_errors.push(format!("world {wi} not built: {x} ({})", serde_json::to_string(p).unwrap()));
                    }
                    continue;
                }
            };
            let cases = match build_cases(&e) {
                Ok(c) => c,
                Err(x) => {
                    if lead {
                        r.engine_errors.push(format!("world {wi} recipes: {x} ({})", serde_json::to_string(p).unwrap()));
                    }
                    continue;
                }
            };
            if lead {
                r.label("worlds");
                if wi < 2 {
                    r.sample(json!({"world": p, "cases": cases.len(), "cells": cases.iter().map(|c| cells_of(&e, c).len()).sum::<usize>()}));
                }
                r.label(&format!("token-programs:{:?}", &p.tok[..3]));
            }
            for (ci, c) in cases.iter().enumerate() {
                if !by_world && (ci + wi) % threads != w {
                    continue;
                }
                process_case(&e, c, wi, &mut r, None);
            }
        }
        r
    });
    report.exhaustive = false;
    // a case that is never reached in any world is a generator bug
    let names: Vec<String> = report.labels.keys().filter_map(|k| k.strip_prefix("case:").map(|s| s.to_string())).collect();
    for nme in names {
        let by_design = report.labels.contains_key(&format!("no-baseline-by-design:{nme}"));
        if !by_design && !report.labels.contains_key(&format!("reached:{nme}")) {
            let why: Vec<&String> = report.labels.keys().filter(|k| k.starts_with(&format!("unreached-why:{nme}:"))).collect();
            report.engine_errors.push(format!("baseline of {nme} never succeeded in any world ({why:?}): its cells were never reached"));
        }
    }
    for k in ["cells_evaluated", "cells_asserted", "cells_unreached", "cells_counted_only", "cells_asserted_without_baseline"] {
        report.add_extra(k, 0);
    }
    report.assumptions = STD_ASSUMPTIONS.iter().map(|s| s.to_string()).collect();
    report.assumptions.push("skipped instructions: kamino_*/drift_*/solend_* (venues), lending_pool_clone_bank (staging only), lending_pool_add_bank_permissionless and propagate_staked_settings (need a stake pool / staked bank)".into());
    report.assumptions.push("svm-lite does not enforce 'only the owner program may modify an account' (SPL-Token relies on it instead of checking the owner of source/destination): for the 'other-token-program' substitute that rule is emulated in the check (a modified token account owned by the program that was NOT passed = rejected by the real runtime); a wrong token program that is never invoked because nothing is transferred is counted, not asserted".into());
    report.assumptions.push("equivalent-by-redundancy observations (not violations): lending_account_liquidate ignores its first remaining account (legacy asset-oracle slot; the asset price comes from the asset bank's observation pair), so that slot is treated as free; lending_account_pulse_health records bad observation accounts in the informational cache instead of failing, so its observation slots are treated as free".into());
    report.assumptions.push("substitutes 'regrouped-copy' (a copy of the right bank/account whose group field names the foreign group) and all 'clone-*' accounts are fabricated with vm.set; everything else is created by real instructions".into());
    report
}

pub fn replay(_ctx: &Ctx, case: &Value) -> Report {
    let mut r = Report::new(RULE);
    let Ok(p) = serde_json::from_value::<Params>(case["params"].clone()) else {
        r.engine_errors.push("bad replay: params".into());
        return r;
    };
    let (Some(cn), Some(cell)) = (case["case"].as_str(), case["cell"].as_str()) else {
        r.engine_errors.push("bad replay: case/cell".into());
        return r;
    };
    let e = match build_env(&p) {
        Ok(e) => e,
        Err(x) => {
            r.engine_errors.push(format!("world not built: {x}"));
            return r;
        }
    };
    match build_cases(&e) {
        Ok(cases) => {
            let mut found = false;
            for c in cases.iter().filter(|c| c.name() == cn) {
                found = true;
                process_case(&e, c, 0, &mut r, Some(cell));
            }
            if !found {
                r.engine_errors.push(format!("no case {cn}"));
            }
        }
        Err(x) => r.engine_errors.push(format!("recipes: {x}")),
    }
    r
}
