//! One module per property. Each exposes `run(&Ctx) -> Report` and `replay(&Ctx, &Value) -> Report`.
use crate::common::{Ctx, Report};
use serde_json::Value;

pub fn run(ctx: &Ctx) -> Option<Report> {
    match ctx.prop.as_str() {
        _ => None,
    }
}

pub fn replay(ctx: &Ctx, _case: &Value) -> Option<Report> {
    match ctx.prop.as_str() {
        _ => None,
    }
}
