//! One module per property. Each exposes `run(&Ctx) -> Report` and `replay(&Ctx, &Value) -> Report`.
use crate::common::{Ctx, Report};
use serde_json::Value;

pub mod brackets;
pub mod c03rt;
pub mod c04;
pub mod c05;
pub mod c06a;
pub mod c07;
pub mod c08;
pub mod c08b;
pub mod c09a;
pub mod c09b;
pub mod c12;
pub mod c13;
pub mod c14;
pub mod c15;
pub mod c15b;
pub mod c16b;
pub mod c17b;
pub mod c18;
pub mod c19;
pub mod c20;
pub mod c20b;
pub mod stateful;
pub mod venuecamp;
use stateful::Target;

pub fn run(ctx: &Ctx) -> Option<Report> {
    let mut r = run_first_halves(ctx)?;
    // the venue campaign (props/venuecamp.rs) is an additional half of nine properties
    if venuecamp::PIDS.contains(&ctx.prop.as_str()) && std::env::var("MFV_NO_VENUECAMP").is_err() {
        if std::env::var("MFV_ONLY_VENUECAMP").is_ok() {
            let floor = r.nontrivial_floor;
            r = Report::new("");
            r.nontrivial_floor = floor.min(1);
        }
        venuecamp::run(ctx, &ctx.prop, &mut r);
    }
    Some(r)
}

fn run_first_halves(ctx: &Ctx) -> Option<Report> {
    if std::env::var("MFV_ONLY_VENUECAMP").is_ok() && venuecamp::PIDS.contains(&ctx.prop.as_str()) {
        return Some(Report::new(""));
    }
    match ctx.prop.as_str() {
        "C01" => Some(stateful::run_target(ctx, Target::C01)),
        "C02" => Some(stateful::run_target(ctx, Target::C02)),
        "C16" => {
            let mut r = stateful::run_target(ctx, Target::C16);
            let floor = r.nontrivial_floor;
            r.merge(c16b::run(ctx));
            r.nontrivial_floor = floor;
            Some(r)
        }
        "C17" => {
            let mut r = stateful::run_target(ctx, Target::C17);
            let floor = r.nontrivial_floor;
            r.merge(c17b::run(ctx));
            r.nontrivial_floor = floor;
            Some(r)
        }
        "C03" => {
            let mut r = stateful::run_target(ctx, Target::C03);
            let floor = r.nontrivial_floor;
            r.merge(c03rt::run(ctx));
            r.nontrivial_floor = floor;
            Some(r)
        }
        "C04" => Some(c04::run(ctx)),
        "C05" => Some(c05::run(ctx)),
        "C07" => Some(c07::run(ctx)),
        "C08" => {
            let mut r = c08::run(ctx);
            let floor = r.nontrivial_floor;
            r.merge(c08b::run(ctx));
            r.nontrivial_floor = floor;
            Some(r)
        }
        "C09" => {
            let mut r = c09a::run(ctx);
            let floor = r.nontrivial_floor;
            r.merge(c09b::run(ctx));
            r.nontrivial_floor = floor;
            Some(r)
        }
        "C10" => Some(brackets::run(ctx, true)),
        "C11" => Some(brackets::run(ctx, false)),
        "C12" => Some(c12::run(ctx)),
        "C13" => Some(c13::run(ctx)),
        "C14" => {
            let mut r = c14::run(ctx);
            // evaluations = executed matrix cells (the module counts worlds there)
            if let Some(c) = r.extra.get("cells_evaluated").and_then(|x| x.as_u64()) {
                r.evaluations = r.evaluations.max(c);
            }
            Some(r)
        }
        "C15" => {
            let mut r = c15::run(ctx);
            if r.violations.is_empty() {
                let floor = r.nontrivial_floor;
                let ex = r.exhaustive;
                r.merge(c15b::run(ctx));
                r.nontrivial_floor = floor;
                r.exhaustive = ex;
            }
            Some(r)
        }
        "C18" => Some(c18::run(ctx)),
        "C19" => Some(c19::run(ctx)),
        "C20" => {
            let mut r = c20::run(ctx);
            let floor = r.nontrivial_floor;
            r.merge(c20b::run(ctx));
            r.nontrivial_floor = floor;
            Some(r)
        }
        "C06" => {
            let mut r = stateful::run_target(ctx, Target::C06);
            let pure = c06a::run(ctx);
            let floor = r.nontrivial_floor;
            r.merge(pure);
            r.nontrivial_floor = floor;
            Some(r)
        }
        _ => None,
    }
}

pub fn replay(ctx: &Ctx, case: &Value) -> Option<Report> {
    if case.get("half").and_then(|h| h.as_str()) == Some("venuecamp") {
        return Some(venuecamp::replay(ctx, &ctx.prop, case));
    }
    match ctx.prop.as_str() {
        "C01" => Some(stateful::replay_target(ctx, Target::C01, case)),
        "C02" => Some(stateful::replay_target(ctx, Target::C02, case)),
        "C16" => {
            if case.get("half").and_then(|h| h.as_str()) == Some("c16b") {
                Some(c16b::replay(ctx, case))
            } else {
                Some(stateful::replay_target(ctx, Target::C16, case))
            }
        }
        "C17" => {
            if case.get("half").and_then(|h| h.as_str()) == Some("c17b") {
                Some(c17b::replay(ctx, case))
            } else {
                Some(stateful::replay_target(ctx, Target::C17, case))
            }
        }
        "C03" => {
            if case.get("ops").is_some() {
                Some(stateful::replay_target(ctx, Target::C03, case))
            } else {
                Some(c03rt::replay(ctx, case))
            }
        }
        "C04" => Some(c04::replay(ctx, case)),
        "C05" => Some(c05::replay(ctx, case)),
        "C07" => Some(c07::replay(ctx, case)),
        "C08" => {
            if case.get("half").and_then(|h| h.as_str()) == Some("c08b") {
                Some(c08b::replay(ctx, case))
            } else {
                Some(c08::replay(ctx, case))
            }
        }
        "C09" => {
            if case.get("half").and_then(|h| h.as_str()) == Some("c09b") {
                Some(c09b::replay(ctx, case))
            } else {
                Some(c09a::replay(ctx, case))
            }
        }
        "C10" => Some(brackets::replay(ctx, case, true)),
        "C11" => Some(brackets::replay(ctx, case, false)),
        "C12" => Some(c12::replay(ctx, case)),
        "C13" => Some(c13::replay(ctx, case)),
        "C14" => Some(c14::replay(ctx, case)),
        "C15" => {
            if case.get("half").and_then(|h| h.as_str()) == Some("c15b") {
                Some(c15b::replay(ctx, case))
            } else {
                Some(c15::replay(ctx, case))
            }
        }
        "C18" => Some(c18::replay(ctx, case)),
        "C19" => Some(c19::replay(ctx, case)),
        "C20" => {
            if case.get("half").and_then(|h| h.as_str()) == Some("c20b-legs") {
                Some(c20b::replay_legs(ctx, case))
            } else if case.get("half").and_then(|h| h.as_str()) == Some("c20b-stale") {
                Some(c20b::replay_stale(ctx, case))
            } else if case.get("half").and_then(|h| h.as_str()) == Some("c20b") {
                Some(c20b::replay(ctx, case))
            } else {
                Some(c20::replay(ctx, case))
            }
        }
        "C06" => {
            if case.get("ops").is_some() {
                Some(stateful::replay_target(ctx, Target::C06, case))
            } else {
                Some(c06a::replay(ctx, case))
            }
        }
        _ => None,
    }
}
