//! C13 — accepted configurations are coherent and always leave a liquidation buffer.
//!
//! Stage 1: random ADMIN HISTORIES (add_bank / add_bank_with_seed / add_bank_permissionless,
//! configure_bank with every Option combination, interest-only, limits-only, e-mode configure,
//! e-mode clone, group leverage caps, staked-settings init/edit/propagate, fixed price) executed
//! through the real entrypoint. After every SUCCESSFUL instruction every bank whose bytes changed is
//! judged against the statement's predicate in exact rationals; a clause is judged only when one of
//! the bank fields it depends on was written by that instruction (or the bank is new), so lowering
//! the group caps never retro-actively condemns an untouched bank and one defect is not reported
//! again by every later unrelated write.
//! Stage 2: portfolios under accepted configurations with EMA == spot and zero confidence; the
//! account is driven to the borrow limit by bisection on the real program; the reference model's
//! maintenance health must not be definitely negative and a classic liquidation must fail.
use crate::common::*;
use crate::model::*;
use crate::num::*;
use crate::props::c04::c04_bank_strategy_pub;
use crate::svm::{Acct, Vm};
use crate::world::*;
use anchor_lang::{InstructionData, ToAccountMetas};
use fixed::types::I80F48;
use marginfi_type_crate::types::{
    Bank, BankConfigCompact, BankConfigOpt, BankOperationalState, EmodeEntry, MarginfiGroup, RiskTier, StakedSettings, WrappedI80F48,
    INTEREST_CURVE_SEVEN_POINT, MAX_EMODE_ENTRIES,
};
use num_traits::{Signed, ToPrimitive, Zero};
use proptest::prelude::*;
use serde::{Deserialize, Deserializer, Serialize, Serializer};
use serde_json::{json, Value};
use solana_program::{
    instruction::{AccountMeta, Instruction},
    program_error::ProgramError,
    pubkey::Pubkey,
    system_program,
};
use std::collections::{BTreeMap, BTreeSet};

const ONE: i128 = 1i128 << 48;
const MAX_BANKS: usize = 6;
const ORACLE_MIN_AGE_STATED: u16 = 10;

// ------------------------------------------------------------------------------------------
// raw I80F48 bits, serialised as a decimal string
// ------------------------------------------------------------------------------------------
#[derive(Clone, Copy, Debug, PartialEq, Eq)]
pub struct B(pub i128);
impl Serialize for B {
    fn serialize<S: Serializer>(&self, s: S) -> Result<S::Ok, S::Error> {
        s.serialize_str(&self.0.to_string())
    }
}
impl<'de> Deserialize<'de> for B {
    fn deserialize<D: Deserializer<'de>>(d: D) -> Result<B, D::Error> {
        let s = String::deserialize(d)?;
        s.parse::<i128>().map(B).map_err(serde::de::Error::custom)
    }
}
fn wb(b: i128) -> WrappedI80F48 {
    I80F48::from_bits(b).into()
}
fn bits_of(w: WrappedI80F48) -> i128 {
    I80F48::from(w).to_bits()
}

// ------------------------------------------------------------------------------------------
// case types
// ------------------------------------------------------------------------------------------
/// one weight of a configure request, resolved against the bank's CURRENT state when executed
#[derive(Clone, Debug, Serialize, Deserialize)]
pub enum WSel {
    Abs(B),
    /// anchor + d ulps; anchor: 0 zero, 1 one, 2 two, 3 current aw_init, 4 current aw_maint,
    /// 5 current lw_init, 6 current lw_maint
    Rel { to: u8, d: i16 },
    /// the liability weight that puts the bank's e-th non-empty e-mode entry exactly at the group's
    /// leverage cap (for the requirement type of the field), plus d ulps
    LwAtCap { e: u8, d: i16 },
}

/// one e-mode weight, resolved against the bank's liability weight and the group's caps when executed
#[derive(Clone, Debug, Serialize, Deserialize)]
pub enum ESel {
    Abs(B),
    /// lw * (1 - 1/cap) + d ulps; other = use the other requirement type's cap
    AtCap { other: bool, d: i16 },
    /// millionths of the liability weight
    Frac(u32),
    /// liability weight + d ulps
    EqLw { d: i16 },
    /// the entry's resolved init weight + d ulps (maint only)
    EqInit { d: i16 },
}

#[derive(Clone, Debug, Serialize, Deserialize)]
pub struct EntryGen {
    pub tag: u16,
    pub flags: u8,
    pub init: ESel,
    pub maint: ESel,
}

#[derive(Clone, Debug, Serialize, Deserialize)]
pub struct CfgGen {
    pub aw_i: B,
    pub aw_m: B,
    pub lw_i: B,
    pub lw_m: B,
    pub isolated: bool,
    pub max_age: u16,
    pub op_state: u8,
    pub asset_tag: u8,
    pub dep: u64,
    pub bor: u64,
    pub init_limit: u64,
    pub max_conf: u32,
    pub curve: CurveSpec,
}

#[derive(Clone, Debug, Default, Serialize, Deserialize)]
pub struct OptGen {
    pub aw_i: Option<WSel>,
    pub aw_m: Option<WSel>,
    pub lw_i: Option<WSel>,
    pub lw_m: Option<WSel>,
    pub dep: Option<u64>,
    pub bor: Option<u64>,
    pub op_state: Option<u8>,
    /// curve and a bit mask of the fields that are Some
    pub curve: Option<(CurveSpec, u8)>,
    pub isolated: Option<bool>,
    pub asset_tag: Option<u8>,
    pub init_limit: Option<u64>,
    pub max_conf: Option<u32>,
    pub max_age: Option<u16>,
    pub perm_bad_debt: Option<bool>,
    pub freeze: Option<bool>,
    pub tokenless: Option<bool>,
}

#[derive(Clone, Debug, Serialize, Deserialize)]
pub struct StakedGen {
    /// 0 / 1 = the two fabricated Pyth accounts, 2 = default key, 3 = a key with no account
    pub oracle: u8,
    pub aw_i: B,
    pub aw_m: B,
    pub dep: u64,
    pub init_limit: u64,
    pub max_age: u16,
    pub isolated: bool,
}
#[derive(Clone, Debug, Serialize, Deserialize)]
pub struct StakedEditGen {
    pub oracle: Option<u8>,
    pub aw_i: Option<B>,
    pub aw_m: Option<B>,
    pub dep: Option<u64>,
    pub init_limit: Option<u64>,
    pub max_age: Option<u16>,
    pub isolated: Option<bool>,
}

#[derive(Clone, Debug, Serialize, Deserialize)]
pub enum Op {
    Emode { bank: u16, tag: u16, entries: Vec<EntryGen>, signer: u8 },
    Configure { bank: u16, opt: OptGen },
    CloneEmode { from: u16, to: u16, signer: u8 },
    GroupCaps { init: Option<B>, maint: Option<B> },
    AddBank { cfg: CfgGen, seed: Option<u64> },
    InterestOnly { bank: u16, curve: CurveSpec, mask: u8 },
    LimitsOnly { bank: u16, dep: Option<u64>, bor: Option<u64>, init: Option<u64> },
    InitStaked(StakedGen),
    EditStaked(StakedEditGen),
    AddStaked { seed: u64 },
    Propagate { bank: u16 },
    /// NOT an instruction: doctor the bank bytes into KilledByBankruptcy (counted as injected state)
    InjectKilled { bank: u16 },
    FixedPrice { bank: u16, price: B },
}

#[derive(Clone, Debug, Serialize, Deserialize)]
pub struct BaseBank {
    /// millionths
    pub aw_i: u32,
    pub aw_m: u32,
    pub lw_i: u32,
    pub lw_m: u32,
}

#[derive(Clone, Debug, Serialize, Deserialize)]
pub struct HistCase {
    pub base: Vec<BaseBank>,
    /// run init_staked_settings + add_bank_permissionless before the history
    pub staked_prologue: Option<StakedGen>,
    pub ops: Vec<Op>,
}

#[derive(Clone, Debug, Serialize, Deserialize)]
pub struct PortCase {
    pub spec: WorldSpec,
    pub tweaks: Vec<Op>,
    /// (bank selector, native amount)
    pub deposits: Vec<(u16, u64)>,
    /// (bank selector, fraction x/65536 of the borrowing power)
    pub pre_borrows: Vec<(u16, u32)>,
    pub probe_bank: u16,
}

// ------------------------------------------------------------------------------------------
// strategies
// ------------------------------------------------------------------------------------------
fn small_d() -> BoxedStrategy<i16> {
    prop_oneof![5 => -3i16..=3, 1 => -2000i16..=2000].boxed()
}

fn bits_generic() -> BoxedStrategy<B> {
    prop_oneof![
        4 => (prop::sample::select(vec![0i128, ONE / 2, ONE * 4 / 5, ONE, ONE * 5 / 4, ONE * 3 / 2, 2 * ONE]), -3i128..=3).prop_map(|(a, d)| B(a + d)),
        3 => (0i128..=3 * ONE).prop_map(B),
        1 => (-ONE..=4 * ONE).prop_map(B),
        1 => any::<i128>().prop_map(B),
    ]
    .boxed()
}

fn wsel(tos: Vec<u8>, lo: i128, hi: i128, liab: bool) -> BoxedStrategy<WSel> {
    let rel = (prop::sample::select(tos), small_d()).prop_map(|(to, d)| WSel::Rel { to, d });
    let uni = (lo..=hi).prop_map(|b| WSel::Abs(B(b)));
    let gen = bits_generic().prop_map(WSel::Abs);
    if liab {
        prop_oneof![4 => rel, 3 => uni, 1 => gen, 3 => (0u8..4, small_d()).prop_map(|(e, d)| WSel::LwAtCap { e, d })].boxed()
    } else {
        prop_oneof![4 => rel, 3 => uni, 1 => gen].boxed()
    }
}

pub fn curve_strategy() -> BoxedStrategy<CurveSpec> {
    (
        0u32..=400_000_000,
        0u32..=2_000_000_000,
        prop::collection::vec((1u32..=1_000_000, 0u32..=1_000_000), 0..=5),
        prop_oneof![9 => Just(0u8), 1 => 1u8..=4],
        (0u32..=200_000, 0u32..=200_000, 0u32..=200_000, 0u32..=200_000, 0u32..=50_000),
    )
        .prop_map(|(zero, span, raw, defect, (ins_fixed, ins_ir, prot_fixed, prot_ir, orig))| {
            let hundred = zero.saturating_add(span);
            // ascending utils, non-decreasing rates inside [zero, hundred]
            let mut utils: Vec<u32> = raw.iter().map(|(u, _)| ((*u as u64) * 4_294 ).min(u32::MAX as u64 - 1) as u32 + 1).collect();
            utils.sort();
            utils.dedup();
            let mut fr: Vec<u32> = raw.iter().map(|(_, r)| *r).collect();
            fr.sort();
            let mut points: Vec<(u32, u32)> = utils
                .iter()
                .enumerate()
                .map(|(i, u)| (*u, zero + ((hundred - zero) as u64 * fr[i.min(fr.len() - 1)] as u64 / 1_000_000) as u32))
                .collect();
            let (mut zero, mut hundred) = (zero, hundred);
            match defect {
                1 => {
                    // zero above hundred
                    if hundred > 0 {
                        zero = hundred;
                        hundred -= 1;
                    }
                }
                2 => {
                    if points.len() >= 2 {
                        points.swap(0, 1);
                    }
                }
                3 => {
                    // a hole: padding in front
                    if !points.is_empty() {
                        points.insert(0, (0, 0));
                    }
                }
                4 => {
                    if let Some(p) = points.last_mut() {
                        p.1 = hundred.saturating_add(1);
                    }
                }
                _ => {}
            }
            CurveSpec { zero, hundred, points, ins_fixed, ins_ir, prot_fixed, prot_ir, orig }
        })
        .boxed()
}

fn age_strategy() -> BoxedStrategy<u16> {
    prop_oneof![4 => Just(100u16), 3 => Just(10u16), 2 => Just(9u16), 2 => Just(11u16), 1 => Just(0u16), 1 => Just(u16::MAX), 2 => any::<u16>()].boxed()
}

fn limit_strategy() -> BoxedStrategy<u64> {
    prop_oneof![3 => Just(u64::MAX), 2 => Just(0u64), 3 => any::<u64>()].boxed()
}

pub fn cfg_strategy() -> BoxedStrategy<CfgGen> {
    (
        (0u32..=1_000_000, 0u32..=1_000_000, 0u32..=1_500_000, 0u32..=1_000_000),
        (0u8..4, 0u8..4, 0u8..3, 0u8..3),
        prop_oneof![
            4 => Just(vec![]),
            5 => prop::collection::vec((0u8..14, 1i128..=3, any::<i128>()), 1..=1),
            2 => prop::collection::vec((0u8..14, 1i128..=3, any::<i128>()), 2..=2),
        ],
        (prop::bool::weighted(0.15), prop_oneof![5 => Just(100u16), 2 => Just(10u16), 1 => 10u16..=u16::MAX]),
        (prop_oneof![8 => Just(1u8), 1 => Just(0u8), 1 => Just(2u8), 1 => Just(3u8)], prop_oneof![8 => Just(0u8), 2 => Just(1u8), 1 => 2u8..6]),
        (limit_strategy(), limit_strategy(), prop_oneof![3 => Just(0u64), 1 => any::<u64>()], prop_oneof![3 => Just(0u32), 1 => any::<u32>()]),
        prop_oneof![6 => Just(CurveSpec::default()), 3 => curve_strategy()],
    )
        .prop_map(|((f_awi, f_awm, x_lwm, g_lw), (s0, s1, s2, s3), perturbs, (isolated, age), (op_state, asset_tag), (dep, bor, init_limit, max_conf), curve)| {
            let m = 1_000_000i128;
            let mut aw_i = match s0 {
                0 => 0,
                1 => ONE,
                _ => ONE * f_awi as i128 / m,
            };
            let mut aw_m = match s1 {
                0 => aw_i,
                1 => 2 * ONE,
                _ => aw_i + (2 * ONE - aw_i) * f_awm as i128 / m,
            };
            let mut lw_m = match s2 {
                0 => ONE,
                _ => ONE + ONE * x_lwm as i128 / m,
            };
            let mut lw_i = match s3 {
                0 => lw_m,
                _ => lw_m + ONE * g_lw as i128 / m,
            };
            let mut isolated = isolated;
            if isolated {
                aw_i = 0;
                aw_m = 0;
            }
            let mut age = age;
            let mut op_state = op_state;
            for (k, d, r) in perturbs {
                match k {
                    0 => aw_i = -d,
                    1 => aw_i = ONE + d,
                    2 => aw_m = aw_i - d,
                    3 => aw_m = 2 * ONE + d,
                    4 => lw_m = ONE - d,
                    5 => lw_i = lw_m - d,
                    6 => lw_i = ONE - d,
                    7 => {
                        isolated = true;
                        if aw_i == 0 && aw_m == 0 {
                            aw_m = d;
                        }
                    }
                    8 => age = 9,
                    9 => age = 0,
                    10 => op_state = 3,
                    11 => aw_i = r,
                    12 => lw_m = r,
                    _ => aw_m = r,
                }
            }
            CfgGen { aw_i: B(aw_i), aw_m: B(aw_m), lw_i: B(lw_i), lw_m: B(lw_m), isolated, max_age: age, op_state, asset_tag, dep, bor, init_limit, max_conf, curve }
        })
        .boxed()
}

fn opt_strategy(weights_only: bool) -> BoxedStrategy<OptGen> {
    let p = 0.3;
    let weights = (
        prop::option::weighted(p, wsel(vec![0, 1, 4], 0, ONE, false)),
        prop::option::weighted(p, wsel(vec![2, 3, 1], ONE / 2, 2 * ONE, false)),
        prop::option::weighted(0.4, wsel(vec![1, 6, 5], ONE, 2 * ONE, true)),
        prop::option::weighted(0.4, wsel(vec![1, 5, 6], ONE, 2 * ONE, true)),
    );
    if weights_only {
        return weights.prop_map(|(aw_i, aw_m, lw_i, lw_m)| OptGen { aw_i, aw_m, lw_i, lw_m, ..OptGen::default() }).boxed();
    }
    (
        weights,
        (prop::option::weighted(0.2, limit_strategy()), prop::option::weighted(0.2, limit_strategy()), prop::option::weighted(0.2, prop_oneof![Just(0u64), any::<u64>()])),
        prop::option::weighted(0.25, prop_oneof![3 => Just(1u8), 2 => Just(0u8), 2 => Just(2u8), 3 => Just(3u8)]),
        prop::option::weighted(0.15, (prop_oneof![3 => Just(CurveSpec::default()), 3 => curve_strategy()], any::<u8>())),
        (prop::option::weighted(0.2, prop::bool::weighted(0.5)), prop::option::weighted(0.12, prop_oneof![3 => Just(0u8), 2 => Just(1u8), 3 => Just(2u8), 1 => 3u8..6])),
        (prop::option::weighted(0.1, any::<u32>()), prop::option::weighted(0.25, age_strategy())),
        (prop::option::weighted(0.1, any::<bool>()), prop::option::weighted(0.04, prop::bool::weighted(0.5)), prop::option::weighted(0.1, any::<bool>())),
    )
        .prop_map(|((aw_i, aw_m, lw_i, lw_m), (dep, bor, init_limit), op_state, curve, (isolated, asset_tag), (max_conf, max_age), (perm_bad_debt, freeze, tokenless))| OptGen {
            aw_i,
            aw_m,
            lw_i,
            lw_m,
            dep,
            bor,
            op_state,
            curve,
            isolated,
            asset_tag,
            init_limit,
            max_conf,
            max_age,
            perm_bad_debt,
            freeze,
            tokenless,
        })
        .boxed()
}

fn esel(maint: bool) -> BoxedStrategy<ESel> {
    let at = (prop::bool::weighted(0.25), small_d()).prop_map(|(other, d)| ESel::AtCap { other, d });
    let frac = prop_oneof![4 => 0u32..=930_000, 1 => 930_000u32..=1_200_000].prop_map(ESel::Frac);
    let eq = small_d().prop_map(|d| ESel::EqLw { d });
    let abs = bits_generic().prop_map(ESel::Abs);
    if maint {
        prop_oneof![4 => prop_oneof![3 => Just(0i16), 2 => small_d(), 2 => 0i16..=3000].prop_map(|d| ESel::EqInit { d }), 3 => at, 2 => frac, 1 => eq, 1 => abs].boxed()
    } else {
        prop_oneof![4 => at, 4 => frac, 1 => eq, 1 => abs].boxed()
    }
}

fn entries_strategy() -> BoxedStrategy<Vec<EntryGen>> {
    let e = (prop_oneof![7 => 1u16..=3, 1 => Just(0u16), 1 => any::<u16>()], prop_oneof![5 => Just(0u8), 1 => Just(1u8), 1 => any::<u8>()], esel(false), esel(true))
        .prop_map(|(tag, flags, init, maint)| EntryGen { tag, flags, init, maint });
    prop_oneof![2 => prop::collection::vec(e.clone(), 0..=1), 6 => prop::collection::vec(e.clone(), 1..=3), 1 => prop::collection::vec(e, 4..=10)].boxed()
}

fn cap_bits() -> BoxedStrategy<B> {
    prop_oneof![
        4 => (prop::sample::select(vec![1i128, 2, 10, 15, 20, 50, 100]), -2i128..=2).prop_map(|(a, d)| B(a * ONE + d)),
        3 => (ONE..=100 * ONE).prop_map(B),
        1 => bits_generic(),
    ]
    .boxed()
}

fn caps_strategy() -> BoxedStrategy<Op> {
    (
        prop::option::weighted(0.85, cap_bits()),
        prop_oneof![
            2 => Just(None),
            3 => cap_bits().prop_map(|b| Some((0u8, b.0))),
            3 => (-2i128..=2).prop_map(|d| Some((1u8, d))),
            3 => (0i128..=80 * ONE).prop_map(|d| Some((1u8, d))),
        ],
    )
        .prop_map(|(init, m)| {
            let maint = m.map(|(k, v)| if k == 0 { B(v) } else { B(init.map(|b| b.0).unwrap_or(15 * ONE).saturating_add(v)) });
            Op::GroupCaps { init, maint }
        })
        .boxed()
}

fn staked_strategy() -> BoxedStrategy<StakedGen> {
    (
        prop_oneof![6 => 0u8..2, 1 => 2u8..4],
        (0u32..=1_000_000, 0u32..=1_000_000, prop_oneof![6 => Just(0i128), 2 => -2i128..=2, 1 => any::<i128>()], prop_oneof![6 => Just(0i128), 2 => -2i128..=2]),
        (limit_strategy(), prop_oneof![Just(0u64), any::<u64>()], age_strategy(), prop::bool::weighted(0.15)),
    )
        .prop_map(|(oracle, (fi, fm, pi, pm), (dep, init_limit, max_age, isolated))| {
            let mut aw_i = ONE * fi as i128 / 1_000_000;
            let mut aw_m = aw_i + (2 * ONE - aw_i) * fm as i128 / 1_000_000;
            if isolated && pi == 0 && pm == 0 {
                aw_i = 0;
                aw_m = 0;
            }
            if pi != 0 {
                aw_i = if pi.abs() <= 2 { if pi > 0 { ONE + pi } else { pi } } else { pi };
            }
            if pm != 0 {
                aw_m = if pm > 0 { 2 * ONE + pm } else { aw_i + pm };
            }
            StakedGen { oracle, aw_i: B(aw_i), aw_m: B(aw_m), dep, init_limit, max_age, isolated }
        })
        .boxed()
}

fn staked_edit_strategy() -> BoxedStrategy<StakedEditGen> {
    (
        prop::option::weighted(0.25, 0u8..4),
        prop::option::weighted(0.4, bits_generic()),
        prop::option::weighted(0.4, bits_generic()),
        prop::option::weighted(0.2, limit_strategy()),
        prop::option::weighted(0.2, any::<u64>()),
        prop::option::weighted(0.3, age_strategy()),
        prop::option::weighted(0.2, any::<bool>()),
    )
        .prop_map(|(oracle, aw_i, aw_m, dep, init_limit, max_age, isolated)| StakedEditGen { oracle, aw_i, aw_m, dep, init_limit, max_age, isolated })
        .boxed()
}

fn signer_strategy() -> BoxedStrategy<u8> {
    prop_oneof![8 => Just(0u8), 3 => Just(1u8), 1 => Just(2u8)].boxed()
}

fn emode_op() -> BoxedStrategy<Op> {
    (any::<u16>(), prop_oneof![1 => Just(0u16), 6 => 1u16..=3, 1 => any::<u16>()], entries_strategy(), prop_oneof![9 => Just(0u8), 1 => Just(2u8)])
        .prop_map(|(bank, tag, entries, signer)| Op::Emode { bank, tag, entries, signer })
        .boxed()
}

fn op_strategy() -> BoxedStrategy<Op> {
    prop_oneof![
        25 => emode_op(),
        25 => (any::<u16>(), opt_strategy(false)).prop_map(|(bank, opt)| Op::Configure { bank, opt }),
        12 => (any::<u16>(), any::<u16>(), signer_strategy()).prop_map(|(from, to, signer)| Op::CloneEmode { from, to, signer }),
        7 => caps_strategy(),
        8 => (cfg_strategy(), prop::option::weighted(0.5, any::<u64>())).prop_map(|(cfg, seed)| Op::AddBank { cfg, seed }),
        4 => (any::<u16>(), curve_strategy(), any::<u8>()).prop_map(|(bank, curve, mask)| Op::InterestOnly { bank, curve, mask }),
        4 => (any::<u16>(), prop::option::weighted(0.5, limit_strategy()), prop::option::weighted(0.5, limit_strategy()), prop::option::weighted(0.5, any::<u64>()))
            .prop_map(|(bank, dep, bor, init)| Op::LimitsOnly { bank, dep, bor, init }),
        2 => staked_strategy().prop_map(Op::InitStaked),
        4 => staked_edit_strategy().prop_map(Op::EditStaked),
        2 => any::<u64>().prop_map(|seed| Op::AddStaked { seed }),
        5 => any::<u16>().prop_map(|bank| Op::Propagate { bank }),
        2 => any::<u16>().prop_map(|bank| Op::InjectKilled { bank }),
        2 => (any::<u16>(), (0i128..=1000 * ONE)).prop_map(|(bank, p)| Op::FixedPrice { bank, price: B(p) }),
    ]
    .boxed()
}

fn tweak_strategy() -> BoxedStrategy<Op> {
    prop_oneof![
        4 => emode_op(),
        4 => (any::<u16>(), opt_strategy(true)).prop_map(|(bank, opt)| Op::Configure { bank, opt }),
        2 => (any::<u16>(), any::<u16>(), Just(0u8)).prop_map(|(from, to, signer)| Op::CloneEmode { from, to, signer }),
        1 => caps_strategy(),
    ]
    .boxed()
}

fn base_bank_strategy() -> BoxedStrategy<BaseBank> {
    (
        prop::sample::select(vec![(500_000u32, 750_000u32), (0, 0), (1_000_000, 1_000_000), (900_000, 950_000), (800_000, 2_000_000)]),
        prop::sample::select(vec![(1_000_000u32, 1_000_000u32), (1_500_000, 1_250_000), (1_200_000, 1_100_000), (1_050_000, 1_000_000), (2_000_000, 1_000_000), (1_250_000, 1_250_000)]),
    )
        .prop_map(|((aw_i, aw_m), (lw_i, lw_m))| BaseBank { aw_i, aw_m, lw_i, lw_m })
        .boxed()
}

pub fn hist_strategy(max_ops: usize) -> BoxedStrategy<HistCase> {
    (prop::collection::vec(base_bank_strategy(), 2..=3), prop::option::weighted(0.4, staked_strategy()), prop::collection::vec(op_strategy(), 1..=max_ops))
        .prop_map(|(base, staked_prologue, ops)| HistCase { base, staked_prologue, ops })
        .boxed()
}

pub fn port_strategy() -> BoxedStrategy<PortCase> {
    (
        prop::collection::vec(c04_bank_strategy_pub(), 3..=4),
        (prop::bool::weighted(0.7), 1u16..=3, 300_000u32..=1_000_000, 0u32..=1_000_000),
        prop::collection::vec(tweak_strategy(), 0..=4),
        prop::collection::vec((any::<u16>(), prop_oneof![1 => 1u64..1000, 3 => 1000u64..100_000_000, 3 => 100_000_000u64..100_000_000_000_000]), 1..=3),
        prop::collection::vec((any::<u16>(), 1u32..=60_000), 0..=1),
        any::<u16>(),
        prop::collection::vec(prop::bool::weighted(0.3), 4),
    )
        .prop_map(|(mut banks, (force, tag, fi, fm), tweaks, deposits, pre_borrows, probe_bank, keep_limit)| {
            for (i, b) in banks.iter_mut().enumerate() {
                // the collateral-value cap only lowers INITIAL health (it cannot break the implication) but with the
                // liquidity providers' deposits it makes most limits non-binding for maintenance: keep it on a minority
                if !keep_limit[i] {
                    b.init_limit = 0;
                }
                // equal prices for both requirement types: EMA == spot, no confidence band
                b.oracle.conf = 0;
                b.oracle.ema_mant = b.oracle.mant;
                b.oracle.ema_conf = 0;
            }
            if force {
                // make e-mode likely: every bank carries `tag`, every bank has an entry for it
                for b in banks.iter_mut() {
                    b.emode_tag = tag;
                    let cap_m = (b.lw_m as u64 * 19 / 20) as u32;
                    let cap_i = ((b.lw_i as u64 * 14 / 15) as u32).min(cap_m);
                    let init = ((cap_i as u64 * fi as u64) / 1_000_000) as u32;
                    let maint = (init + (((cap_m - init.min(cap_m)) as u64 * fm as u64) / 1_000_000) as u32).min(cap_m.saturating_sub(1)).max(init.min(cap_m.saturating_sub(1)));
                    let init = init.min(maint);
                    b.emode_entries.retain(|e| e.tag != tag);
                    b.emode_entries.push(EmodeEntrySpec { tag, flags: 0, init, maint });
                    b.emode_entries.sort_by_key(|e| e.tag);
                }
            }
            PortCase { spec: WorldSpec { banks, n_users: 3, program_fees_enabled: false, ..WorldSpec::default() }, tweaks, deposits, pre_borrows, probe_bank }
        })
        .boxed()
}

// ------------------------------------------------------------------------------------------
// instruction constructors missing from world.rs
// ------------------------------------------------------------------------------------------
fn mfi(accounts: Vec<AccountMeta>, data: Vec<u8>) -> Instruction {
    Instruction { program_id: marginfi::ID, accounts, data }
}

fn staked_settings_key(group: &Pubkey) -> Pubkey {
    Pubkey::find_program_address(&[marginfi_type_crate::constants::STAKED_SETTINGS_SEED.as_bytes(), group.as_ref()], &marginfi::ID).0
}

fn read_staked(vm: &Vm, group: &Pubkey) -> Option<StakedSettings> {
    let a = vm.get(&staked_settings_key(group))?;
    let n = std::mem::size_of::<StakedSettings>();
    if a.owner != marginfi::ID || a.data.len() < 8 + n {
        return None;
    }
    Some(bytemuck::pod_read_unaligned::<StakedSettings>(&a.data[8..8 + n]))
}

fn staked_oracle_key(sel: u8) -> Pubkey {
    match sel {
        0 => kp("staked_oracle", 0),
        1 => kp("staked_oracle", 1),
        2 => Pubkey::default(),
        _ => kp("staked_oracle_missing", 0),
    }
}

fn compact_of(c: &CfgGen) -> BankConfigCompact {
    let mut o = BankConfigCompact::default();
    o.asset_weight_init = wb(c.aw_i.0);
    o.asset_weight_maint = wb(c.aw_m.0);
    o.liability_weight_init = wb(c.lw_i.0);
    o.liability_weight_maint = wb(c.lw_m.0);
    o.deposit_limit = c.dep;
    o.borrow_limit = c.bor;
    o.interest_rate_config = curve_compact(&c.curve);
    o.operational_state = op_state(c.op_state);
    o.risk_tier = if c.isolated { RiskTier::Isolated } else { RiskTier::Collateral };
    o.asset_tag = c.asset_tag;
    o.total_asset_value_init_limit = c.init_limit;
    o.oracle_max_age = c.max_age;
    o.oracle_max_confidence = c.max_conf;
    o
}

fn bank_info(w: &World, bank: Pubkey, mint: Pubkey, decimals: u8, oracle_kind: u8, oracle_key: Pubkey) -> BankInfo {
    BankInfo {
        key: bank,
        mint,
        token_program: spl_token::ID,
        decimals,
        oracle_kind,
        oracle_key,
        oracle_extra: vec![],
        lv: bank_pda("liquidity_vault", &bank),
        lv_auth: bank_pda("liquidity_vault_auth", &bank),
        iv: bank_pda("insurance_vault", &bank),
        iv_auth: bank_pda("insurance_vault_auth", &bank),
        fv: bank_pda("fee_vault", &bank),
        fv_auth: bank_pda("fee_vault_auth", &bank),
        fee_ata: ata(&w.fee_wallet, &mint, &spl_token::ID),
        spec: BankSpec::default(),
    }
}

/// lending_pool_add_bank (seed None) or lending_pool_add_bank_with_seed
fn add_bank_raw(w: &mut World, cfg: &CfgGen, seed: Option<u64>) -> Result<(), ProgramError> {
    let n = 1000 + w.banks.len() as u64 + w.counter * 16;
    w.counter += 1;
    let mint = kp("mint", n);
    w.vm.set(mint, spl_mint_acct(6));
    let bank = match seed {
        None => kp("bank", n),
        Some(s) => Pubkey::find_program_address(&[w.group.as_ref(), mint.as_ref(), &s.to_le_bytes()], &marginfi::ID).0,
    };
    let info = bank_info(w, bank, mint, 6, 0, Pubkey::default());
    w.vm.set(info.fee_ata, spl_token_acct(mint, w.fee_wallet, 0));
    let admin = w.roles.admin;
    let ix = match seed {
        None => mfi(
            marginfi::accounts::LendingPoolAddBank {
                marginfi_group: w.group,
                admin,
                fee_payer: admin,
                fee_state: w.fee_state,
                global_fee_wallet: w.fee_wallet,
                bank_mint: mint,
                bank,
                liquidity_vault_authority: info.lv_auth,
                liquidity_vault: info.lv,
                insurance_vault_authority: info.iv_auth,
                insurance_vault: info.iv,
                fee_vault_authority: info.fv_auth,
                fee_vault: info.fv,
                token_program: spl_token::ID,
                system_program: system_program::ID,
            }
            .to_account_metas(Some(true)),
            marginfi::instruction::LendingPoolAddBank { bank_config: compact_of(cfg) }.data(),
        ),
        Some(s) => mfi(
            marginfi::accounts::LendingPoolAddBankWithSeed {
                marginfi_group: w.group,
                admin,
                fee_payer: admin,
                fee_state: w.fee_state,
                global_fee_wallet: w.fee_wallet,
                bank_mint: mint,
                bank,
                liquidity_vault_authority: info.lv_auth,
                liquidity_vault: info.lv,
                insurance_vault_authority: info.iv_auth,
                insurance_vault: info.iv,
                fee_vault_authority: info.fv_auth,
                fee_vault: info.fv,
                token_program: spl_token::ID,
                system_program: system_program::ID,
            }
            .to_account_metas(Some(true)),
            marginfi::instruction::LendingPoolAddBankWithSeed { bank_config: compact_of(cfg), bank_seed: s }.data(),
        ),
    };
    w.vm.exec(&ix)?;
    w.banks.push(info);
    Ok(())
}

/// lending_pool_add_bank_permissionless with fabricated spl-single-pool accounts (stake pool owned by
/// the single-pool program, LST mint and SOL pool at their PDAs, a Pyth price update account)
fn add_staked_raw(w: &mut World, seed: u64) -> Result<(), ProgramError> {
    let n = 2000 + w.banks.len() as u64 + w.counter * 16;
    w.counter += 1;
    let sp_id = marginfi::constants::SPL_SINGLE_POOL_ID;
    let stake_pool = kp("stake_pool", n);
    w.vm.set(stake_pool, Acct { lamports: 1_000_000_000, data: vec![0u8; 64], owner: sp_id, executable: false });
    let mint = Pubkey::find_program_address(&[b"mint", stake_pool.as_ref()], &sp_id).0;
    w.vm.set(mint, spl_mint_acct(9));
    let sol_pool = Pubkey::find_program_address(&[b"stake", stake_pool.as_ref()], &sp_id).0;
    w.vm.set(sol_pool, Acct { lamports: 5_000_000_000, data: vec![0u8; 200], owner: marginfi::constants::NATIVE_STAKE_ID, executable: false });
    let settings_key = staked_settings_key(&w.group);
    let oracle = read_staked(&w.vm, &w.group).map(|s| s.oracle).unwrap_or_default();
    let bank = Pubkey::find_program_address(&[w.group.as_ref(), mint.as_ref(), &seed.to_le_bytes()], &marginfi::ID).0;
    let info = bank_info(w, bank, mint, 9, 1, oracle);
    let payer = w.roles.stranger;
    let mut m = marginfi::accounts::LendingPoolAddBankPermissionless {
        marginfi_group: w.group,
        staked_settings: settings_key,
        fee_payer: payer,
        bank_mint: mint,
        sol_pool,
        stake_pool,
        bank,
        liquidity_vault_authority: info.lv_auth,
        liquidity_vault: info.lv,
        insurance_vault_authority: info.iv_auth,
        insurance_vault: info.iv,
        fee_vault_authority: info.fv_auth,
        fee_vault: info.fv,
        token_program: spl_token::ID,
        system_program: system_program::ID,
    }
    .to_account_metas(Some(true));
    m.push(AccountMeta::new_readonly(oracle, false));
    m.push(AccountMeta::new_readonly(mint, false));
    m.push(AccountMeta::new_readonly(sol_pool, false));
    let ix = mfi(m, marginfi::instruction::LendingPoolAddBankPermissionless { bank_seed: seed }.data());
    w.vm.exec(&ix)?;
    w.banks.push(info);
    Ok(())
}

fn ix_init_staked(w: &World, s: &StakedGen) -> Instruction {
    let settings = marginfi::instructions::StakedSettingsConfig {
        oracle: staked_oracle_key(s.oracle),
        asset_weight_init: wb(s.aw_i.0),
        asset_weight_maint: wb(s.aw_m.0),
        deposit_limit: s.dep,
        total_asset_value_init_limit: s.init_limit,
        oracle_max_age: s.max_age,
        risk_tier: if s.isolated { RiskTier::Isolated } else { RiskTier::Collateral },
    };
    mfi(
        marginfi::accounts::InitStakedSettings {
            marginfi_group: w.group,
            admin: w.roles.admin,
            fee_payer: w.roles.admin,
            staked_settings: staked_settings_key(&w.group),
            system_program: system_program::ID,
        }
        .to_account_metas(Some(true)),
        marginfi::instruction::InitStakedSettings { settings }.data(),
    )
}

fn ix_edit_staked(w: &World, s: &StakedEditGen) -> Instruction {
    let settings = marginfi::instructions::StakedSettingsEditConfig {
        oracle: s.oracle.map(staked_oracle_key),
        asset_weight_init: s.aw_i.map(|b| wb(b.0)),
        asset_weight_maint: s.aw_m.map(|b| wb(b.0)),
        deposit_limit: s.dep,
        total_asset_value_init_limit: s.init_limit,
        oracle_max_age: s.max_age,
        risk_tier: s.isolated.map(|i| if i { RiskTier::Isolated } else { RiskTier::Collateral }),
    };
    mfi(
        marginfi::accounts::EditStakedSettings { marginfi_group: w.group, admin: w.roles.admin, staked_settings: staked_settings_key(&w.group) }.to_account_metas(Some(true)),
        marginfi::instruction::EditStakedSettings { settings }.data(),
    )
}

fn ix_propagate(w: &World, bi: usize) -> Instruction {
    let mut m = marginfi::accounts::PropagateStakedSettings { marginfi_group: w.group, staked_settings: staked_settings_key(&w.group), bank: w.banks[bi].key }.to_account_metas(Some(true));
    if let Some(s) = read_staked(&w.vm, &w.group) {
        m.push(AccountMeta::new_readonly(s.oracle, false));
    }
    mfi(m, marginfi::instruction::PropagateStakedSettings {}.data())
}

fn ix_config_emode_raw(w: &World, bi: usize, tag: u16, entries: [EmodeEntry; MAX_EMODE_ENTRIES], signer: Pubkey) -> Instruction {
    mfi(
        marginfi::accounts::LendingPoolConfigureBankEmode { group: w.group, emode_admin: signer, bank: w.banks[bi].key }.to_account_metas(Some(true)),
        marginfi::instruction::LendingPoolConfigureBankEmode { emode_tag: tag, entries }.data(),
    )
}

// ------------------------------------------------------------------------------------------
// resolving the state-relative parts of a request (input construction, not the oracle)
// ------------------------------------------------------------------------------------------
fn cap_q(x: u32) -> Q {
    // documented inverse of basis_to_u32: value = x / u32::MAX * 100
    q_ratio(x as u64, u32::MAX as u64) * q_int(100)
}

fn q_to_bits_floor(x: &Q) -> i128 {
    (x * Q::from_integer(two48())).floor().to_integer().to_i128().unwrap_or(i128::MAX / 4)
}

fn nonempty_entries(b: &Bank) -> Vec<EmodeEntry> {
    b.emode.emode_config.entries.iter().filter(|e| e.collateral_bank_emode_tag != 0).cloned().collect()
}

fn resolve_w(sel: &WSel, b: &Bank, g: &MarginfiGroup, maint_field: bool) -> i128 {
    match sel {
        WSel::Abs(x) => x.0,
        WSel::Rel { to, d } => {
            let a = match to {
                0 => 0,
                1 => ONE,
                2 => 2 * ONE,
                3 => bits_of(b.config.asset_weight_init),
                4 => bits_of(b.config.asset_weight_maint),
                5 => bits_of(b.config.liability_weight_init),
                _ => bits_of(b.config.liability_weight_maint),
            };
            a.saturating_add(*d as i128)
        }
        WSel::LwAtCap { e, d } => {
            let es = nonempty_entries(b);
            if es.is_empty() {
                return ONE + *d as i128;
            }
            let en = &es[*e as usize % es.len()];
            let (ew, cap) = if maint_field { (q_w(en.asset_weight_maint), cap_q(g.emode_max_maint_leverage)) } else { (q_w(en.asset_weight_init), cap_q(g.emode_max_init_leverage)) };
            if cap <= q_one() {
                return ONE + *d as i128;
            }
            // leverage = cap  <=>  lw = ew / (1 - 1/cap)
            let lw = ew / (q_one() - q_one() / cap);
            q_to_bits_floor(&lw).saturating_add(*d as i128)
        }
    }
}

fn resolve_e(sel: &ESel, maint: bool, init_bits: i128, b: &Bank, g: &MarginfiGroup) -> i128 {
    let lw = if maint { q_w(b.config.liability_weight_maint) } else { q_w(b.config.liability_weight_init) };
    match sel {
        ESel::Abs(x) => x.0,
        ESel::AtCap { other, d } => {
            let own = if maint { g.emode_max_maint_leverage } else { g.emode_max_init_leverage };
            let oth = if maint { g.emode_max_init_leverage } else { g.emode_max_maint_leverage };
            let cap = cap_q(if *other { oth } else { own });
            if cap <= q_one() {
                return *d as i128;
            }
            q_to_bits_floor(&(lw * (q_one() - q_one() / cap))).saturating_add(*d as i128)
        }
        ESel::Frac(f) => q_to_bits_floor(&(lw * q_ratio(*f as u64, 1_000_000u64))),
        ESel::EqLw { d } => q_to_bits_floor(&lw).saturating_add(*d as i128),
        ESel::EqInit { d } => init_bits.saturating_add(*d as i128),
    }
}

fn resolve_entries(es: &[EntryGen], b: &Bank, g: &MarginfiGroup) -> [EmodeEntry; MAX_EMODE_ENTRIES] {
    let zero = EmodeEntry { collateral_bank_emode_tag: 0, flags: 0, pad0: [0; 5], asset_weight_init: wb(0), asset_weight_maint: wb(0) };
    let mut out = [zero; MAX_EMODE_ENTRIES];
    for (i, e) in es.iter().take(MAX_EMODE_ENTRIES).enumerate() {
        let init_sel = if let ESel::EqInit { .. } = e.init { &ESel::Frac(900_000) } else { &e.init };
        let ib = resolve_e(init_sel, false, 0, b, g);
        let mb = resolve_e(&e.maint, true, ib, b, g);
        out[i] = EmodeEntry { collateral_bank_emode_tag: e.tag, flags: e.flags, pad0: [0; 5], asset_weight_init: wb(ib), asset_weight_maint: wb(mb) };
    }
    out
}

fn curve_opt_masked(c: &CurveSpec, mask: u8) -> marginfi_type_crate::types::InterestRateConfigOpt {
    let mut o = curve_opt(c);
    if mask & 1 == 0 {
        o.insurance_fee_fixed_apr = None;
    }
    if mask & 2 == 0 {
        o.insurance_ir_fee = None;
    }
    if mask & 4 == 0 {
        o.protocol_fixed_fee_apr = None;
    }
    if mask & 8 == 0 {
        o.protocol_ir_fee = None;
    }
    if mask & 16 == 0 {
        o.protocol_origination_fee = None;
    }
    if mask & 32 == 0 {
        o.zero_util_rate = None;
    }
    if mask & 64 == 0 {
        o.hundred_util_rate = None;
    }
    if mask & 128 == 0 {
        o.points = None;
    }
    o
}

fn resolve_opt(o: &OptGen, b: &Bank, g: &MarginfiGroup) -> BankConfigOpt {
    let mut out = BankConfigOpt::default();
    out.asset_weight_init = o.aw_i.as_ref().map(|s| wb(resolve_w(s, b, g, false)));
    out.asset_weight_maint = o.aw_m.as_ref().map(|s| wb(resolve_w(s, b, g, true)));
    out.liability_weight_init = o.lw_i.as_ref().map(|s| wb(resolve_w(s, b, g, false)));
    out.liability_weight_maint = o.lw_m.as_ref().map(|s| wb(resolve_w(s, b, g, true)));
    out.deposit_limit = o.dep;
    out.borrow_limit = o.bor;
    out.operational_state = o.op_state.map(op_state);
    out.interest_rate_config = o.curve.as_ref().map(|(c, m)| curve_opt_masked(c, *m));
    out.risk_tier = o.isolated.map(|i| if i { RiskTier::Isolated } else { RiskTier::Collateral });
    out.asset_tag = o.asset_tag;
    out.total_asset_value_init_limit = o.init_limit;
    out.oracle_max_confidence = o.max_conf;
    out.oracle_max_age = o.max_age;
    out.permissionless_bad_debt_settlement = o.perm_bad_debt;
    out.freeze_settings = o.freeze;
    out.tokenless_repayments_allowed = o.tokenless;
    out
}

fn pick_signer(w: &World, s: u8) -> Pubkey {
    match s {
        0 => w.roles.admin,
        1 => w.roles.emode,
        _ => w.roles.stranger,
    }
}

/// Execute one op. Returns (instruction name, result); name "" = nothing executed.
fn apply_op(w: &mut World, op: &Op, injected: &mut u64) -> (&'static str, Result<(), ProgramError>) {
    let nb = w.banks.len();
    let g = w.group_state();
    match op {
        Op::Emode { bank, tag, entries, signer } => {
            let bi = idx(*bank, nb);
            let b = w.bank(bi);
            let es = resolve_entries(entries, &b, &g);
            let s = if *signer == 0 { w.roles.emode } else { w.roles.stranger };
            let ix = ix_config_emode_raw(w, bi, *tag, es, s);
            ("configure_bank_emode", w.vm.exec(&ix))
        }
        Op::Configure { bank, opt } => {
            let bi = idx(*bank, nb);
            let b = w.bank(bi);
            let ix = w.ix_configure_bank(bi, resolve_opt(opt, &b, &g), w.roles.admin);
            ("configure_bank", w.vm.exec(&ix))
        }
        Op::CloneEmode { from, to, signer } => {
            let ix = w.ix_clone_emode(idx(*from, nb), idx(*to, nb), pick_signer(w, *signer));
            ("clone_emode", w.vm.exec(&ix))
        }
        Op::GroupCaps { init, maint } => {
            let ix = w.ix_group_configure(&w.roles.clone(), init.map(|b| wb(b.0)), maint.map(|b| wb(b.0)));
            ("group_configure", w.vm.exec(&ix))
        }
        Op::AddBank { cfg, seed } => {
            if nb >= MAX_BANKS {
                return ("", Ok(()));
            }
            let name = if seed.is_some() { "add_bank_with_seed" } else { "add_bank" };
            (name, add_bank_raw(w, cfg, *seed))
        }
        Op::InterestOnly { bank, curve, mask } => {
            let ix = w.ix_configure_interest_only(idx(*bank, nb), curve_opt_masked(curve, *mask), w.roles.curve);
            ("configure_bank_interest_only", w.vm.exec(&ix))
        }
        Op::LimitsOnly { bank, dep, bor, init } => {
            let ix = w.ix_configure_limits_only(idx(*bank, nb), *dep, *bor, *init, w.roles.limit);
            ("configure_bank_limits_only", w.vm.exec(&ix))
        }
        Op::InitStaked(s) => {
            let ix = ix_init_staked(w, s);
            ("init_staked_settings", w.vm.exec(&ix))
        }
        Op::EditStaked(s) => {
            let ix = ix_edit_staked(w, s);
            ("edit_staked_settings", w.vm.exec(&ix))
        }
        Op::AddStaked { seed } => {
            if nb >= MAX_BANKS {
                return ("", Ok(()));
            }
            ("add_bank_permissionless", add_staked_raw(w, *seed))
        }
        Op::Propagate { bank } => {
            // prefer a staked bank when there is one
            let staked: Vec<usize> = (0..nb).filter(|i| w.bank(*i).config.asset_tag == marginfi_type_crate::constants::ASSET_TAG_STAKED).collect();
            let bi = if staked.is_empty() { idx(*bank, nb) } else { staked[idx(*bank, staked.len())] };
            let ix = ix_propagate(w, bi);
            ("propagate_staked_settings", w.vm.exec(&ix))
        }
        Op::InjectKilled { bank } => {
            let key = w.banks[idx(*bank, nb)].key;
            let mut b = read_bank(&w.vm, &key);
            b.config.operational_state = BankOperationalState::KilledByBankruptcy;
            w.vm.modify(&key, |a| {
                let n = std::mem::size_of::<Bank>();
                a.data[8..8 + n].copy_from_slice(bytemuck::bytes_of(&b));
            });
            *injected += 1;
            ("", Ok(()))
        }
        Op::FixedPrice { bank, price } => {
            let ix = w.ix_set_fixed_price(idx(*bank, nb), wb(price.0), w.roles.admin);
            ("set_fixed_oracle_price", w.vm.exec(&ix))
        }
    }
}

// ------------------------------------------------------------------------------------------
// the oracle: the statement's predicate in exact rationals on the bank's bytes
// ------------------------------------------------------------------------------------------
struct Finding {
    clause: &'static str,
    msg: String,
}

fn entry_key(e: &EmodeEntry) -> (u16, i128, i128) {
    (e.collateral_bank_emode_tag, bits_of(e.asset_weight_init), bits_of(e.asset_weight_maint))
}

fn seven_point_defect(b: &Bank) -> Option<String> {
    let c = &b.config.interest_rate_config;
    if c.curve_type != INTEREST_CURVE_SEVEN_POINT {
        return None;
    }
    if c.zero_util_rate > c.hundred_util_rate {
        return Some("rate at 0% above rate at 100%".into());
    }
    let mut pad = false;
    let mut prev: Option<(u32, u32)> = None;
    for p in c.points.iter() {
        if p.util == 0 {
            if p.rate != 0 {
                return Some("padding point with a rate".into());
            }
            pad = true;
            continue;
        }
        if pad {
            return Some("hole in the points".into());
        }
        if let Some((u, r)) = prev {
            if u >= p.util {
                return Some("utilisations not ascending".into());
            }
            if r > p.rate {
                return Some("rates decreasing".into());
            }
        }
        if p.rate < c.zero_util_rate || p.rate > c.hundred_util_rate {
            return Some("point outside [rate(0), rate(100%)]".into());
        }
        prev = Some((p.util, p.rate));
    }
    None
}

/// Judge `post` (a bank written by a successful instruction). A clause is evaluated only if the
/// bank is new or one of the fields the clause reads differs from `pre`.
fn judge(pre: Option<&Bank>, post: &Bank, g: &MarginfiGroup) -> Vec<Finding> {
    let mut out = vec![];
    let c = &post.config;
    let (awi, awm, lwi, lwm) = (q_w(c.asset_weight_init), q_w(c.asset_weight_maint), q_w(c.liability_weight_init), q_w(c.liability_weight_maint));
    let bits4 = |b: &Bank| (bits_of(b.config.asset_weight_init), bits_of(b.config.asset_weight_maint), bits_of(b.config.liability_weight_init), bits_of(b.config.liability_weight_maint));
    let (p4, n4) = (pre.map(bits4), bits4(post));
    let ch = |f: &dyn Fn((i128, i128, i128, i128)) -> Vec<i128>| -> bool { p4.map(|p| f(p) != f(n4)).unwrap_or(true) };
    let (zero, one, two) = (q_zero(), q_one(), q_int(2));

    if ch(&|x| vec![x.0]) && !(awi >= zero && awi <= one) {
        out.push(Finding { clause: "aw-init-range", msg: format!("accepted initial asset weight {} outside [0,1]", q_str(&awi)) });
    }
    if ch(&|x| vec![x.0, x.1]) && awi > awm {
        out.push(Finding { clause: "aw-order", msg: format!("accepted initial asset weight {} above maintenance asset weight {} (bits {} > {})", q_str(&awi), q_str(&awm), n4.0, n4.1) });
    }
    if ch(&|x| vec![x.1]) && awm > two {
        out.push(Finding { clause: "aw-maint-max", msg: format!("accepted maintenance asset weight {} above 2", q_str(&awm)) });
    }
    if ch(&|x| vec![x.3]) && lwm < one {
        out.push(Finding { clause: "lw-maint-min", msg: format!("accepted maintenance liability weight {} below 1 (bits {})", q_str(&lwm), n4.3) });
    }
    if ch(&|x| vec![x.2, x.3]) && lwm > lwi {
        out.push(Finding { clause: "lw-order", msg: format!("accepted maintenance liability weight {} above initial liability weight {}", q_str(&lwm), q_str(&lwi)) });
    }
    let tier_changed = pre.map(|p| p.config.risk_tier != c.risk_tier).unwrap_or(true);
    if (tier_changed || ch(&|x| vec![x.0, x.1])) && c.risk_tier == RiskTier::Isolated && !(awi.is_zero() && awm.is_zero()) {
        out.push(Finding { clause: "isolated", msg: format!("accepted isolated bank with asset weights {} / {}", q_str(&awi), q_str(&awm)) });
    }
    if pre.map(|p| p.config.oracle_max_age != c.oracle_max_age).unwrap_or(true) && c.oracle_max_age < ORACLE_MIN_AGE_STATED {
        out.push(Finding { clause: "oracle-age", msg: format!("accepted oracle max age {} below the minimum {}", c.oracle_max_age, ORACLE_MIN_AGE_STATED) });
    }
    // e-mode
    let es = nonempty_entries(post);
    let keys: Vec<(u16, i128, i128)> = es.iter().map(entry_key).collect();
    let entries_changed = pre.map(|p| nonempty_entries(p).iter().map(entry_key).collect::<Vec<_>>() != keys).unwrap_or(true);
    if entries_changed {
        for e in &es {
            let (ei, em) = (q_w(e.asset_weight_init), q_w(e.asset_weight_maint));
            if !(ei >= zero && ei <= em) {
                out.push(Finding { clause: "emode-order", msg: format!("accepted e-mode entry tag {} with weights init {} / maint {} (need 0 <= init <= maint)", e.collateral_bank_emode_tag, q_str(&ei), q_str(&em)) });
                break;
            }
        }
        let mut tags: Vec<u16> = es.iter().map(|e| e.collateral_bank_emode_tag).collect();
        tags.sort();
        if tags.windows(2).any(|w| w[0] == w[1]) {
            out.push(Finding { clause: "emode-dupes", msg: format!("accepted e-mode entries with duplicate collateral tags {:?}", tags) });
        }
    }
    if entries_changed || ch(&|x| vec![x.2, x.3]) {
        let caps = [cap_q(g.emode_max_init_leverage), cap_q(g.emode_max_maint_leverage)];
        'outer: for e in &es {
            for (k, (ew, lw)) in [(q_w(e.asset_weight_init), lwi.clone()), (q_w(e.asset_weight_maint), lwm.clone())].into_iter().enumerate() {
                let which = if k == 0 { "initial" } else { "maintenance" };
                if !(lw > zero) || ew >= lw {
                    out.push(Finding {
                        clause: "emode-leverage",
                        msg: format!("e-mode entry tag {}: {which} weight {} is not below this bank's {which} liability weight {} (implied leverage undefined/unbounded)", e.collateral_bank_emode_tag, q_str(&ew), q_str(&lw)),
                    });
                    break 'outer;
                }
                let lev = &one / (&one - &ew / &lw);
                // slack for the program's truncating arithmetic, valid whenever it accepted (see module docs)
                let cp1 = &caps[k] + &one;
                let slack = ulp() * (q_int(2) * &cp1 * &cp1 + q_int(2));
                if lev > &caps[k] + &slack {
                    out.push(Finding {
                        clause: "emode-leverage",
                        msg: format!("e-mode entry tag {}: implied {which} leverage {} against this bank's liability weight {} exceeds the group's cap {}", e.collateral_bank_emode_tag, q_str(&lev), q_str(&lw), q_str(&caps[k])),
                    });
                    break 'outer;
                }
            }
        }
    }
    // interest configuration (structure only; the curve law itself is C18's)
    let ir_changed = pre.map(|p| bytemuck::bytes_of(&p.config.interest_rate_config) != bytemuck::bytes_of(&c.interest_rate_config)).unwrap_or(true);
    if ir_changed {
        if let Some(d) = seven_point_defect(post) {
            out.push(Finding { clause: "interest", msg: format!("accepted interest curve: {d}") });
        }
    }
    // killed-by-bankruptcy is not reachable / leavable by configuration
    let killed = |b: &Bank| b.config.operational_state == BankOperationalState::KilledByBankruptcy;
    match pre {
        None => {
            if killed(post) {
                out.push(Finding { clause: "killed-enter", msg: "a bank was created in the KilledByBankruptcy state by an admin instruction".into() });
            }
        }
        Some(p) => {
            if !killed(p) && killed(post) {
                out.push(Finding { clause: "killed-enter", msg: "an admin instruction moved a bank into KilledByBankruptcy".into() });
            }
            if killed(p) && !killed(post) {
                out.push(Finding { clause: "killed-leave", msg: format!("an admin instruction moved a bank out of KilledByBankruptcy into state {}", c.operational_state as u8) });
            }
        }
    }
    out
}

// ------------------------------------------------------------------------------------------
// stage 1
// ------------------------------------------------------------------------------------------
#[derive(Default, Debug)]
pub struct HistStats {
    pub built: bool,
    pub attempted: BTreeMap<&'static str, u64>,
    pub accepted: BTreeMap<&'static str, u64>,
    pub accepted_seq: Vec<&'static str>,
    pub judged: u64,
    pub injected_killed: u64,
    pub lw_write_after_entries: u64,
    pub clone_diff_lw: u64,
    pub propagate_written: u64,
    pub entries_accepted: u64,
    pub killed_guard_probed: u64,
}

type Fail = (String, String);

/// run one op and judge every bank whose bytes changed
fn step(w: &mut World, op: &Op, muted: &BTreeSet<String>, st: &mut HistStats) -> Result<(), Fail> {
    let pre: Vec<(Pubkey, Bank)> = w.banks.iter().map(|b| (b.key, read_bank(&w.vm, &b.key))).collect();
    let (name, r) = apply_op(w, op, &mut st.injected_killed);
    if name.is_empty() {
        return Ok(());
    }
    *st.attempted.entry(name).or_insert(0) += 1;
    if let Op::Configure { bank, opt } = op {
        if opt.op_state.is_some() && pre[idx(*bank, pre.len())].1.config.operational_state == BankOperationalState::KilledByBankruptcy {
            st.killed_guard_probed += 1;
        }
    }
    if r.is_err() {
        return Ok(());
    }
    *st.accepted.entry(name).or_insert(0) += 1;
    st.accepted_seq.push(name);
    let g = w.group_state();
    let infos = w.banks.clone();
    for info in infos.iter() {
        let post = read_bank(&w.vm, &info.key);
        let pre_b = pre.iter().find(|p| p.0 == info.key).map(|p| &p.1);
        if let Some(p) = pre_b {
            if bytemuck::bytes_of(p) == bytemuck::bytes_of(&post) {
                continue;
            }
        }
        st.judged += 1;
        // evidence
        let lw_changed = pre_b
            .map(|p| bits_of(p.config.liability_weight_init) != bits_of(post.config.liability_weight_init) || bits_of(p.config.liability_weight_maint) != bits_of(post.config.liability_weight_maint))
            .unwrap_or(false);
        match name {
            "configure_bank" => {
                if lw_changed && pre_b.map(|p| !nonempty_entries(p).is_empty()).unwrap_or(false) {
                    st.lw_write_after_entries += 1;
                }
            }
            "clone_emode" => {
                if let Op::CloneEmode { from, .. } = op {
                    let src = &pre[idx(*from, pre.len())].1;
                    let diff = bits_of(src.config.liability_weight_init) != bits_of(post.config.liability_weight_init) || bits_of(src.config.liability_weight_maint) != bits_of(post.config.liability_weight_maint);
                    if diff && !nonempty_entries(src).is_empty() {
                        st.clone_diff_lw += 1;
                    }
                }
            }
            "propagate_staked_settings" => st.propagate_written += 1,
            "configure_bank_emode" => {
                if !nonempty_entries(&post).is_empty() {
                    st.entries_accepted += 1;
                }
            }
            _ => {}
        }
        for f in judge(pre_b, &post, &g) {
            let sig = format!("config:{}:{}", f.clause, name);
            if muted.contains(&sig) {
                continue;
            }
            return Err((sig, format!("{} [bank {} after {}]", f.msg, info.key, name)));
        }
    }
    Ok(())
}

fn base_spec(base: &[BaseBank]) -> WorldSpec {
    let banks = base
        .iter()
        .map(|b| BankSpec { aw_i: b.aw_i, aw_m: b.aw_m, lw_i: b.lw_i, lw_m: b.lw_m, ..BankSpec::default() })
        .collect();
    WorldSpec { banks, n_users: 0, program_fees_enabled: false, ..WorldSpec::default() }
}

fn install_staked_oracles(w: &mut World) {
    let now = w.vm.now();
    for i in 0..2u8 {
        w.vm.set(staked_oracle_key(i), pyth_acct(150_000_000, 0, -6, 150_000_000, 0, now));
    }
}

pub fn run_hist(c: &HistCase, muted: &BTreeSet<String>, st: &mut HistStats) -> Result<(), Fail> {
    let Ok(mut w) = World::build(&base_spec(&c.base)) else { return Ok(()) };
    st.built = true;
    install_staked_oracles(&mut w);
    if let Some(s) = &c.staked_prologue {
        step(&mut w, &Op::InitStaked(s.clone()), muted, st)?;
        step(&mut w, &Op::AddStaked { seed: 7 }, muted, st)?;
    }
    for op in &c.ops {
        step(&mut w, op, muted, st)?;
    }
    Ok(())
}

// ------------------------------------------------------------------------------------------
// stage 2: the consequence on portfolios
// ------------------------------------------------------------------------------------------
#[derive(Default, Debug)]
pub struct PortStats {
    pub built: bool,
    pub tweaks_accepted: u64,
    pub frontier: bool,
    pub emode_active: bool,
    pub n_positions: usize,
    pub n_liabs: usize,
    pub liq_attempts: u64,
    pub control_liquidated: bool,
    pub control_tried: bool,
    pub control_err: Option<u64>,
    pub implication_checks: u64,
    pub maint_margin_min: f64,
    pub hist: HistStats,
}

fn borrow_power(w: &World, acct: &Pubkey, bi: usize) -> u64 {
    let liq = w.tok(&w.banks[bi].lv);
    let Some(a) = read_macct(&w.vm, acct) else { return 0 };
    let h = health(&w.vm, &a, Req::Initial, w.vm.now());
    let Some(hh) = h.health() else { return 0 };
    if !hh.lo.is_positive() {
        return 0;
    }
    let bank = w.bank(bi);
    let ov = oracle_view(&w.vm, &bank, w.vm.now());
    let Some(p) = ov.high(PriceKind::Ema) else { return 0 };
    let lw = q_w(bank.config.liability_weight_init);
    if !p.hi.is_positive() || !lw.is_positive() {
        return 0;
    }
    let amt = &hh.lo / (&p.hi * lw) * pow10(bank.mint_decimals as u32);
    q_floor(&amt).to_u64().unwrap_or(u64::MAX).min(liq)
}

/// (H_init, H_maint, ignored) of the account in `vm`
fn both_healths(vm: &Vm, acct: &Pubkey) -> Option<(Health, Health)> {
    let a = read_macct(vm, acct)?;
    Some((health(vm, &a, Req::Initial, vm.now()), health(vm, &a, Req::Maintenance, vm.now())))
}

/// pure-model implication: definitely init-healthy => not definitely maint-unhealthy
fn check_implication(vm: &Vm, acct: &Pubkey, what: &str, accepted_by_program: bool, st: &mut PortStats) -> Result<(), Fail> {
    let Some((hi, hm)) = both_healths(vm, acct) else { return Ok(()) };
    let (Some(i), Some(m)) = (hi.health(), hm.health()) else { return Ok(()) };
    st.implication_checks += 1;
    let maint_hi = &m.hi + &hm.ignored;
    if (i.lo.is_positive() || accepted_by_program) && maint_hi.is_negative() {
        return Err((
            "config:init-ok-maint-bad".into(),
            format!(
                "{what}: initial health is {} (accepted by the program: {accepted_by_program}) but maintenance health is at most {} at equal prices (assets init {} maint {}, liabs init {} maint {})",
                q_str(&i.lo),
                q_str(&maint_hi),
                q_str(&hi.assets.as_ref().unwrap().lo),
                q_str(&hm.assets.as_ref().unwrap().hi),
                q_str(&hi.liabs.as_ref().unwrap().hi),
                q_str(&hm.liabs.as_ref().unwrap().lo),
            ),
        ));
    }
    Ok(())
}

fn positions(vm: &Vm, w: &World, acct: &Pubkey) -> (Vec<(usize, u64)>, Vec<usize>) {
    let mut assets = vec![];
    let mut liabs = vec![];
    if let Some(a) = read_macct(vm, acct) {
        for b in a.lending_account.balances.iter().filter(|b| b.active != 0) {
            let Some(bi) = w.bank_index(&b.bank_pk) else { continue };
            let bank = read_bank(vm, &b.bank_pk);
            if crate::snap::bits(b.liability_shares) >= one_share() {
                liabs.push(bi);
            } else if crate::snap::bits(b.asset_shares) >= one_share() {
                let amt = q_floor(&(q_w(b.asset_shares) * q_w(bank.asset_share_value))).to_u64().unwrap_or(u64::MAX);
                assets.push((bi, amt));
            }
        }
    }
    (assets, liabs)
}

/// classic liquidation attempts by the well-funded liquidator; returns the first success
fn try_liquidations(w: &World, vm: &Vm, liquidator: &UserInfo, victim: &Pubkey, st: Option<&mut PortStats>, last_err: &mut Option<u64>) -> Option<(usize, usize, u64)> {
    let (assets, liabs) = positions(vm, w, victim);
    let mut n = 0u64;
    let mut hit = None;
    // the instruction builder reads the account lists from w.vm: use a world view on `vm`
    let mut wv = w.clone();
    wv.vm = vm.clone();
    'o: for (ab, amt) in &assets {
        for lb in &liabs {
            if ab == lb {
                continue;
            }
            let mut amounts = vec![1u64, (*amt / 100).max(1), (*amt / 2).max(1)];
            amounts.dedup();
            for q in amounts {
                n += 1;
                let ix = wv.ix_liquidate(liquidator.accts[0], liquidator.auth, *victim, *ab, *lb, q);
                let mut t = vm.clone();
                match t.exec(&ix) {
                    Ok(()) => {
                        hit = Some((*ab, *lb, q));
                        break 'o;
                    }
                    Err(e) => *last_err = Some(crate::svm::err_code(&e)),
                }
            }
        }
    }
    if let Some(s) = st {
        s.liq_attempts += n;
    }
    hit
}

pub fn run_port(c: &PortCase, muted: &BTreeSet<String>, st: &mut PortStats) -> Result<(), Fail> {
    let Ok(mut w) = World::build(&c.spec) else { return Ok(()) };
    let nb = w.banks.len();
    // admin tweaks through the real instructions, judged like stage 1
    for op in &c.tweaks {
        let before = st.hist.accepted_seq.len();
        step(&mut w, op, muted, &mut st.hist)?;
        st.tweaks_accepted += (st.hist.accepted_seq.len() - before) as u64;
    }
    let lender = w.users[0].clone();
    let usr = w.users[1].clone();
    let liquidator = w.users[2].clone();
    let acct = usr.accts[0];
    for bi in 0..nb {
        let ix = w.ix_deposit(lender.accts[0], lender.auth, bi, lender.tokens[bi], 1_000_000_000_000_000, None);
        let _ = w.vm.exec(&ix);
        let ix = w.ix_deposit(liquidator.accts[0], liquidator.auth, bi, liquidator.tokens[bi], 1_000_000_000_000_000, None);
        let _ = w.vm.exec(&ix);
    }
    let mut dep_banks: Vec<usize> = vec![];
    for (b, amt) in &c.deposits {
        let bi = idx(*b, nb);
        let ix = w.ix_deposit(acct, usr.auth, bi, usr.tokens[bi], *amt, None);
        if w.vm.exec(&ix).is_ok() && !dep_banks.contains(&bi) {
            dep_banks.push(bi);
        }
    }
    if dep_banks.is_empty() {
        return Ok(());
    }
    let cands: Vec<usize> = (0..nb).filter(|i| !dep_banks.contains(i)).collect();
    if cands.is_empty() {
        return Ok(());
    }
    for (b, frac) in &c.pre_borrows {
        let bi = cands[idx(*b, cands.len())];
        let p = borrow_power(&w, &acct, bi);
        let a = ((p as u128 * *frac as u128) >> 16) as u64;
        if a == 0 {
            continue;
        }
        let ix = w.ix_borrow(acct, usr.auth, bi, usr.tokens[bi], a);
        if w.vm.exec(&ix).is_ok() {
            check_implication(&w.vm, &acct, &format!("after borrow({a}) from bank {bi}"), true, st)?;
        }
    }
    st.built = true;
    check_implication(&w.vm, &acct, "before the probe", false, st)?;
    // drive to the borrow limit
    let probe = cands[idx(c.probe_bank, cands.len())];
    let power = borrow_power(&w, &acct, probe);
    let upper = w.tok(&w.banks[probe].lv).min(power.saturating_mul(2).saturating_add(16));
    if upper == 0 {
        return Ok(());
    }
    let exec = |w: &World, a: u64| -> (Vm, bool) {
        let mut vm = w.vm.clone();
        let ix = w.ix_borrow(acct, usr.auth, probe, usr.tokens[probe], a);
        let ok = vm.exec(&ix).is_ok();
        (vm, ok)
    };
    let (vm_hi, ok_hi) = exec(&w, upper);
    let (a_star, vm_star) = if ok_hi {
        (upper, vm_hi)
    } else {
        let (vm1, ok1) = exec(&w, 1);
        if !ok1 {
            return Ok(());
        }
        let (mut lo, mut hi, mut vm_lo) = (1u64, upper, vm1);
        while hi - lo > 1 {
            let mid = lo + (hi - lo) / 2;
            let (vm, ok) = exec(&w, mid);
            if ok {
                lo = mid;
                vm_lo = vm;
            } else {
                hi = mid;
            }
        }
        (lo, vm_lo)
    };
    st.frontier = a_star < upper;
    if let Some((hi, hm)) = both_healths(&vm_star, &acct) {
        st.emode_active = hi.emode_active || hm.emode_active;
        st.n_liabs = hi.n_liabs;
        st.n_positions = hi.positions.len();
        if let Some(m) = hm.health() {
            st.maint_margin_min = q_f64(&m.lo);
        }
    }
    check_implication(&vm_star, &acct, &format!("at the borrow limit (largest accepted borrow {a_star} from bank {probe})"), true, st)?;
    if let Some((ab, lb, q)) = try_liquidations(&w, &vm_star, &liquidator, &acct, Some(&mut *st), &mut None) {
        return Err((
            "config:immediately-liquidatable".into(),
            format!("right after the largest accepted borrow ({a_star} from bank {probe}) a classic liquidation of {q} units of bank {ab} collateral against bank {lb} debt SUCCEEDED at unchanged, equal prices"),
        ));
    }
    // positive control (evidence only): after a collateral crash the same attempts do succeed
    {
        let mut wc = w.clone();
        wc.vm = vm_star.clone();
        let (assets, _) = positions(&wc.vm, &wc, &acct);
        for (bi, _) in &assets {
            let o = wc.banks[*bi].spec.oracle.clone();
            let nm = (o.mant / 1000).max(1);
            let _ = wc.set_price(*bi, nm, 0, nm, 0);
        }
        st.control_tried = !assets.is_empty();
        let vmc = wc.vm.clone();
        let mut e = None;
        st.control_liquidated = try_liquidations(&wc, &vmc, &liquidator, &acct, None, &mut e).is_some();
        if !st.control_liquidated {
            st.control_err = e;
        }
    }
    Ok(())
}

// ------------------------------------------------------------------------------------------
// driver
// ------------------------------------------------------------------------------------------
const RULE: &str = "Stage 1: proptest admin histories on worlds of 2-6 banks (2-3 valid base banks with different liability weights, optional staked prologue): 6-30 requests drawn from add_bank / add_bank_with_seed / add_bank_permissionless (fabricated single-pool accounts), configure_bank (every Option combination; weights as raw I80F48 bits on 0, 1, 2, init==maint, the bank's current weights +-ulps, the liability weight that puts an existing e-mode entry at the leverage cap +-ulps, and the full i128 range; risk tier; oracle age around 10; operational state incl. KilledByBankruptcy; asset tag; freeze), interest-only, limits-only, configure_bank_emode (tags 0-3 with duplicates, weights at lw*(1-1/cap) +-ulps for either cap, fractions of lw, lw +-ulps, maint = init +-ulps), clone_emode (admin / e-mode admin / stranger), marginfi_group_configure (caps around 1, 15, 20, 100, init vs maint +-ulps), staked settings init / edit / propagate, fixed price, and injected Killed states. After every successful instruction every bank whose bytes changed is judged in exact rationals against the statement (a clause only when a field it reads was written or the bank is new; caps from the same post-state, decoded as x/u32::MAX*100, with the derived truncation slack ulp*(2(cap+1)^2+2)). Non-trivial (stage 1) = the history contains an accepted configure_bank that changed liability weights while e-mode entries existed, or an accepted clone between banks with different liability weights whose source has entries, or an accepted propagate that wrote a bank; distinct by the sequence of accepted instructions. Stage 2: 3-4 generated valid banks (EMA == spot, zero confidence; e-mode tags/entries), 0-4 admin tweaks (judged as in stage 1), 1-3 deposits, 0-1 partial borrow, then the largest accepted borrow found by bisection on the real program; reference model: accepted / definitely init-healthy => maintenance health not definitely negative; then classic liquidations (1 unit, 1%, 50% of each collateral x each debt) by a well-funded liquidator must all fail (positive control: they succeed after a 1000x collateral crash). Non-trivial (stage 2) = an e-mode weight is active in the portfolio at the borrow limit; distinct by (banks, positions, debts, deposits, accepted tweaks).";

/// Hunt with muting: a violated clause is shrunk and reported once per worker, then muted so that
/// the remaining cases keep searching for OTHER clauses (one defect must not hide another).
fn hunt<T, S, F>(ctx: &Ctx, stream: &str, worker: usize, cases: u32, strat: &S, stage: u8, rep: &mut Report, mut f: F)
where
    S: Strategy<Value = T>,
    T: Clone + std::fmt::Debug + Serialize,
    F: FnMut(&T, bool, &BTreeSet<String>, &mut Report) -> Result<(), Fail>,
{
    let mut muted: BTreeSet<String> = BTreeSet::new();
    let mut remaining = cases;
    let mut round = 0u32;
    while remaining > 0 && round < 16 {
        let seed = ctx.seed_bytes(&format!("{stream}#{round}"), worker as u64);
        let m = muted.clone();
        let outcome = run_prop(seed, remaining, strat, |v, counting| f(v, counting, &m, rep).map_err(|(s, msg)| format!("{s}|{msg}")));
        remaining = remaining.saturating_sub(outcome.cases_run as u32);
        let spent = cases - remaining;
        match outcome.failure {
            None => break,
            Some((v, msg)) => {
                let (sig, m2) = msg.split_once('|').map(|(a, b)| (a.to_string(), b.to_string())).unwrap_or((msg.clone(), msg.clone()));
                let muted_list: Vec<String> = muted.iter().cloned().collect();
                rep.violation(&sig, m2, json!({"stage": stage, "muted": muted_list, "case": serde_json::to_value(&v).unwrap()}));
                // evidence: cases this worker needed before the clause fired (sum over workers / workers = mean)
                rep.label_n(&format!("hit:{sig}:stage{stage}:cases-sum"), spent as u64);
                rep.label(&format!("hit:{sig}:stage{stage}:workers"));
                muted.insert(sig);
                round += 1;
            }
        }
    }
}

fn absorb_hist(rep: &mut Report, st: &HistStats, prefix: &str) {
    for (k, v) in &st.attempted {
        rep.label_n(&format!("{prefix}attempted:{k}"), *v);
    }
    for (k, v) in &st.accepted {
        rep.label_n(&format!("{prefix}accepted:{k}"), *v);
    }
    rep.add_extra("banks_judged", st.judged);
    rep.add_extra("injected_killed_states", st.injected_killed);
    rep.add_extra("killed_guard_probed", st.killed_guard_probed);
    rep.label_n(&format!("{prefix}nt:lw-write-after-entries"), st.lw_write_after_entries);
    rep.label_n(&format!("{prefix}nt:clone-different-lw"), st.clone_diff_lw);
    rep.label_n(&format!("{prefix}nt:propagate-wrote-bank"), st.propagate_written);
    rep.label_n(&format!("{prefix}emode-entries-accepted"), st.entries_accepted);
}

pub fn run(ctx: &Ctx) -> Report {
    let hist_cases: u32 = ctx.tier.pick(6000, 40_000);
    let port_cases: u32 = ctx.tier.pick(1800, 12_000);
    let max_ops = ctx.tier.pick(30, 45);
    let mut rep = par_workers(ctx.threads, |wi| {
        let mut rep = Report::new(RULE);
        let hs = hist_strategy(max_ops);
        hunt(ctx, "c13-hist", wi, hist_cases, &hs, 1, &mut rep, |c, counting, muted, rep| {
            let mut st = HistStats::default();
            let r = run_hist(c, muted, &mut st);
            if counting {
                rep.eval();
                absorb_hist(rep, &st, "");
                if st.lw_write_after_entries + st.clone_diff_lw + st.propagate_written > 0 {
                    rep.label("hist:nontrivial");
                    rep.nontrivial_case(&json!({"s": 1, "seq": st.accepted_seq, "a": st.lw_write_after_entries, "b": st.clone_diff_lw, "c": st.propagate_written}));
                    if rep.samples.len() < 3 {
                        rep.sample(json!({"stage": 1, "accepted": st.accepted_seq, "lw_write_after_entries": st.lw_write_after_entries, "clone_diff_lw": st.clone_diff_lw, "propagate": st.propagate_written}));
                    }
                }
            }
            r
        });
        let ps = port_strategy();
        hunt(ctx, "c13-port", wi, port_cases, &ps, 2, &mut rep, |c, counting, muted, rep| {
            let mut st = PortStats::default();
            let r = run_port(c, muted, &mut st);
            if counting {
                rep.eval();
                absorb_hist(rep, &st.hist, "port:");
                if st.built {
                    rep.label("port:built");
                }
                if st.frontier {
                    rep.label("port:frontier-inside-range");
                }
                if st.emode_active {
                    rep.label("port:emode-active");
                }
                if st.control_tried {
                    rep.label(if st.control_liquidated { "port:control-liquidation-succeeds" } else { "port:control-liquidation-fails" });
                    if let Some(e) = st.control_err {
                        rep.label(&format!("port:control-fail-code:{e}"));
                    }
                }
                rep.add_extra("liquidation_attempts_at_limit", st.liq_attempts);
                rep.add_extra("implication_checks", st.implication_checks);
                if st.built && st.emode_active && st.frontier {
                    rep.nontrivial_case(&json!({"s": 2, "b": c.spec.banks.len(), "n": st.n_positions, "l": st.n_liabs, "d": c.deposits.len(), "t": st.tweaks_accepted, "p": c.pre_borrows.len()}));
                    if rep.samples.len() < 6 {
                        rep.sample(json!({"stage": 2, "banks": c.spec.banks.len(), "positions": st.n_positions, "debts": st.n_liabs, "tweaks_accepted": st.tweaks_accepted, "maint_health_lo": st.maint_margin_min}));
                    }
                }
            }
            r
        });
        rep
    });
    rep.nontrivial_floor = ctx.tier.pick(200, 2000);
    rep
}

pub fn replay(_ctx: &Ctx, case: &Value) -> Report {
    let mut rep = Report::new(RULE);
    rep.nontrivial_floor = 0;
    let muted: BTreeSet<String> = case.get("muted").and_then(|m| m.as_array()).map(|a| a.iter().filter_map(|x| x.as_str().map(|s| s.to_string())).collect()).unwrap_or_default();
    // accept both the full replay object {stage, muted, case} and a bare HistCase / PortCase
    let bare = case.get("stage").is_none();
    let stage = case.get("stage").and_then(|s| s.as_u64()).unwrap_or(if case.get("spec").is_some() { 2 } else { 1 });
    let inner = if bare { case.clone() } else { case.get("case").cloned().unwrap_or(Value::Null) };
    rep.eval();
    let r = if stage == 2 {
        match serde_json::from_value::<PortCase>(inner) {
            Ok(c) => run_port(&c, &muted, &mut PortStats::default()),
            Err(e) => {
                rep.engine_errors.push(format!("bad replay: {e}"));
                return rep;
            }
        }
    } else {
        match serde_json::from_value::<HistCase>(inner) {
            Ok(c) => run_hist(&c, &muted, &mut HistStats::default()),
            Err(e) => {
                rep.engine_errors.push(format!("bad replay: {e}"));
                return rep;
            }
        }
    };
    if let Err((sig, msg)) = r {
        rep.violation(&sig, msg, case.clone());
    }
    rep
}
