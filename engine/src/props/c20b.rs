//! C20 (adapter-level half): the exchange-rate-adjusted price as the program's price adapter
//! actually returns it for Kamino / Solend banks, over EXTREME reserve states (drained reserves,
//! liquidity that vanishes after decimal scaling, one-lamport supplies): never above
//! price x exact rate (plus the derived truncation band), and zero when the exact rate is zero.
use crate::common::*;
use crate::num::*;
use crate::props::c09a::fab;
use marginfi::state::price::{OraclePriceFeedAdapter, OraclePriceType, PriceAdapter};
use marginfi_type_crate::types::OracleSetup;
use num_bigint::BigInt;
use num_traits::{Signed, Zero};
use proptest::prelude::*;
use serde::{Deserialize, Serialize};
use serde_json::{json, Value};
use solana_program::account_info::AccountInfo;
use solana_program::clock::Clock;
use solana_program::pubkey::Pubkey;
use std::panic::{catch_unwind, AssertUnwindSafe};

#[derive(Clone, Debug, Serialize, Deserialize)]
pub struct RCase {
    /// 0 KaminoPyth, 1 KaminoSwb, 2 SolendPyth, 3 SolendSwb
    pub kind: u8,
    pub available: u64,
    /// borrowed amount in native units (scaled to sf / wads by the builder) + a sub-unit fraction numerator /2^20
    pub borrowed: u64,
    pub borrowed_frac: u32,
    /// fees as a fraction (x/65536) of available+borrowed
    pub fee_frac: u32,
    pub supply: u64,
    pub decimals: u8,
    pub price_mant: i64,
    pub expo: i32,
}

fn amt() -> impl Strategy<Value = u64> {
    prop_oneof![3 => Just(0u64), 2 => 1u64..10, 2 => 10u64..1_000_000, 3 => 1_000_000u64..1_000_000_000_000, 1 => 1_000_000_000_000u64..(1u64 << 62)]
}

pub fn case_strategy() -> impl Strategy<Value = RCase> {
    (0u8..4, amt(), amt(), prop_oneof![1 => Just(0u32), 1 => any::<u32>()], prop_oneof![3 => Just(0u32), 2 => 0u32..65_536], prop_oneof![1 => 1u64..100, 3 => 100u64..1_000_000_000, 3 => 1_000_000_000u64..(1u64 << 62)], prop_oneof![3 => 0u8..=9, 2 => 10u8..=19, 1 => Just(23u8)], 1i64..1_000_000_000_000, -10i32..=-2)
        .prop_map(|(kind, available, borrowed, bf, fee_frac, supply, decimals, price_mant, expo)| RCase { kind, available, borrowed, borrowed_frac: bf % (1 << 20), fee_frac, supply, decimals, price_mant, expo })
}

#[derive(Default, Debug)]
pub struct Stats {
    pub built: bool,
    pub rate_zero: bool,
    pub liq_vanishes_after_scaling: bool,
    pub skipped_col_too_small: bool,
    pub foreign_reserve_cells: u64,
}

fn pow2(n: u32) -> Q {
    Q::from_integer(BigInt::from(1) << n)
}

pub fn run_case(c: &RCase, st: &mut Stats) -> Result<(), (String, String)> {
    crate::svm::init();
    let d = c.decimals as u32;
    // keep the collateral side well above the scaling quantum so that the documented double-flooring
    // excess (known finding, relative <= 10^d 2^-48 / C) stays below 2^-10; the liquidity side is free
    let scaled_col = q_int(c.supply) / pow10(d);
    if scaled_col < pow2(10) / pow2(48) {
        st.skipped_col_too_small = true;
        return Ok(());
    }
    let kamino = c.kind < 2;
    let pyth = c.kind % 2 == 0;
    // exact liquidity L = available + borrowed - fees (fees <= available + borrowed)
    let gross = q_int(c.available) + q_int(c.borrowed) + q_ratio(c.borrowed_frac, 1u32 << 20);
    let fees = &gross * q_ratio(c.fee_frac, 65_536u32);
    // encode borrowed / fees in the venue's fixed-point formats (exactly representable by construction: floor)
    let (borrowed_raw, fee_raw, unit): (u128, u128, Q) = if kamino {
        let unit = pow2(60);
        let b = q_floor(&((q_int(c.borrowed) + q_ratio(c.borrowed_frac, 1u32 << 20)) * &unit));
        let f = q_floor(&(&fees * &unit));
        (b.try_into().unwrap_or(u128::MAX), f.try_into().unwrap_or(u128::MAX), unit)
    } else {
        let unit = pow10(18);
        let b = q_floor(&((q_int(c.borrowed) + q_ratio(c.borrowed_frac, 1u32 << 20)) * &unit));
        let f = q_floor(&(&fees * &unit));
        (b.try_into().unwrap_or(u128::MAX), f.try_into().unwrap_or(u128::MAX), unit)
    };
    let l_exact = q_int(c.available) + Q::from_integer(BigInt::from(borrowed_raw)) / &unit - Q::from_integer(BigInt::from(fee_raw)) / &unit;
    if l_exact.is_negative() {
        return Ok(());
    }
    let rate = &l_exact / q_int(c.supply);
    let reserve = if kamino { fab::kamino_reserve(0, c.available, borrowed_raw, fee_raw, 0, 0, c.supply, c.decimals as u64) } else { fab::solend_reserve(0, c.available, borrowed_raw, fee_raw, c.supply, c.decimals) };
    let p_exact = q_int(c.price_mant) * if c.expo >= 0 { pow10(c.expo as u32) } else { q_one() / pow10((-c.expo) as u32) };
    let oracle = if pyth {
        fab::pyth_price_update(c.price_mant, 0, c.price_mant, 0, c.expo, 0, None, [7u8; 32])
    } else {
        // switchboard: value scaled 1e18
        let v = q_floor(&(&p_exact * pow10(18)));
        let v: i128 = v.try_into().unwrap_or(i128::MAX);
        fab::switchboard_pull_feed(v, 0, 0)
    };
    let p_used = if pyth { p_exact.clone() } else { Q::from_integer(q_floor(&(&p_exact * pow10(18)))) / pow10(18) };
    let setup = match c.kind {
        0 => OracleSetup::KaminoPythPush,
        1 => OracleSetup::KaminoSwitchboardPull,
        2 => OracleSetup::SolendPythPull,
        _ => OracleSetup::SolendSwitchboardPull,
    };
    let k0 = crate::world::kp("c20b_oracle", 0);
    let k1 = crate::world::kp("c20b_reserve", 0);
    let bank = fab::pod_bank(setup, &[k0, k1], 100, 0, 0);
    let clock = Clock::default();
    let mut datas = [oracle.data.clone(), reserve.data.clone()];
    let owners = [oracle.owner, reserve.owner];
    let keys: [Pubkey; 2] = [k0, k1];
    let mut lamports = [1_000_000u64, 1_000_000u64];
    let price_bits: Option<i128> = {
        let (d0, d1) = datas.split_at_mut(1);
        let (l0, l1) = lamports.split_at_mut(1);
        let ais = vec![
            AccountInfo::new(&keys[0], false, false, &mut l0[0], &mut d0[0][..], &owners[0], false, 0),
            AccountInfo::new(&keys[1], false, false, &mut l1[0], &mut d1[0][..], &owners[1], false, 0),
        ];
        let ais_ref: &[AccountInfo] = unsafe { std::mem::transmute(&ais[..]) };
        match catch_unwind(AssertUnwindSafe(|| OraclePriceFeedAdapter::try_from_bank_with_max_age(&bank, ais_ref, &clock, 100))) {
            Ok(Ok(ad)) => match catch_unwind(AssertUnwindSafe(|| ad.get_price_of_type(OraclePriceType::RealTime, None, 0))) {
                Ok(Ok(v)) => Some(v.to_bits()),
                _ => None,
            },
            _ => None,
        }
    };
    let Some(bits) = price_bits else { return Ok(()) }; // failing closed is always allowed
    st.built = true;
    // the exchange rate must come from the BANK's reserve: the same (fresh, venue-owned) reserve bytes presented under
    // another key in the reserve slot, next to the bank's correct price feed, must not yield a price — otherwise the bank
    // is priced with whatever rate (and freshness) the caller picks
    {
        let k_foreign = crate::world::kp("c20b_foreign_reserve", 0);
        let mut datas2 = [oracle.data.clone(), reserve.data.clone()];
        let keys2: [Pubkey; 2] = [k0, k_foreign];
        let mut lamports2 = [1_000_000u64, 1_000_000u64];
        let (d0, d1) = datas2.split_at_mut(1);
        let (l0, l1) = lamports2.split_at_mut(1);
        let ais = vec![
            AccountInfo::new(&keys2[0], false, false, &mut l0[0], &mut d0[0][..], &owners[0], false, 0),
            AccountInfo::new(&keys2[1], false, false, &mut l1[0], &mut d1[0][..], &owners[1], false, 0),
        ];
        let ais_ref: &[AccountInfo] = unsafe { std::mem::transmute(&ais[..]) };
        let priced = matches!(catch_unwind(AssertUnwindSafe(|| OraclePriceFeedAdapter::try_from_bank_with_max_age(&bank, ais_ref, &clock, 100))), Ok(Ok(_)));
        st.foreign_reserve_cells += 1;
        if priced {
            return Err((
                format!("adapter-foreign-reserve-priced:{}", if kamino { "kamino" } else { "solend" }),
                format!("{:?} bank: the adapter returned a price although the reserve slot held an account that is not the bank's configured reserve (correct price feed next to it)", setup),
            ));
        }
    }
    let got = q_bits(bits);
    st.rate_zero = rate.is_zero();
    st.liq_vanishes_after_scaling = !l_exact.is_zero() && (&l_exact / pow10(d)) < ulp();
    // never above price x exact rate, up to: the collateral-side flooring (<= 2^-9 relative by the
    // guard above), one ulp of the ratio scaled by the price, and one price unit of the feed
    let unit_price = if pyth { if c.expo >= 0 { pow10(c.expo as u32) } else { q_one() / pow10((-c.expo) as u32) } } else { q_one() / pow10(18) };
    let bound = &p_used * &rate * (q_one() + q_one() / pow2(9)) + &p_used * ulp() * q_int(4) + &unit_price * q_int(2) + ulp() * q_int(4);
    if got > bound {
        return Err((
            format!("adapter-price-exceeds-rate:{}", if kamino { "kamino" } else { "solend" }),
            format!(
                "adapter price {} > price {} x exact rate {} (+ band) = {}; available {} borrowed_raw {} fees_raw {} supply {} decimals {}",
                q_str(&got), q_str(&p_used), q_str(&rate), q_str(&bound), c.available, borrowed_raw, fee_raw, c.supply, c.decimals
            ),
        ));
    }
    if got.is_negative() {
        return Err(("adapter-price-negative".into(), format!("adapter price {} is negative", q_str(&got))));
    }
    Ok(())
}


// ------------------------------------------------------------------------------------------------
// staleness stream: "a venue reserve or market that was not refreshed in the current slot or second is
// treated as stale" - through the program's price adapter, for all three venues and both oracle families
// ------------------------------------------------------------------------------------------------
#[derive(Clone, Debug, Serialize, Deserialize)]
pub struct SCase {
    /// 0 KaminoPyth, 1 KaminoSwb, 2 SolendPyth, 3 SolendSwb, 4 DriftPyth, 5 DriftSwb
    pub kind: u8,
    /// slots (Kamino, Solend) / seconds (Drift) since the venue account was last refreshed
    pub gap: u64,
    /// Drift: the market has outstanding borrows; Kamino / Solend: borrowed amount non-zero
    pub borrows: bool,
    pub deposits: u64,
    pub rate_pm: u32,
    pub price_mant: i64,
}

pub fn stale_strategy() -> impl Strategy<Value = SCase> {
    (0u8..6, prop_oneof![3 => Just(0u64), 3 => Just(1u64), 2 => 2u64..100, 1 => 100u64..10_000_000], any::<bool>(), prop_oneof![1 => Just(0u64), 3 => 1u64..1_000_000_000_000], 1000u32..3000, 1i64..1_000_000_000)
        .prop_map(|(kind, gap, borrows, deposits, rate_pm, price_mant)| SCase { kind, gap, borrows, deposits, rate_pm, price_mant })
}

pub fn run_stale_case(c: &SCase) -> Result<bool, (String, String)> {
    crate::svm::init();
    let (slot, ts) = (1_000_000u64, 1_700_000_000i64);
    crate::svm::set_thread_clock(slot, ts);
    let mut clock = Clock::default();
    clock.slot = slot;
    clock.unix_timestamp = ts;
    let venue = c.kind / 2;
    let pyth = c.kind % 2 == 0;
    let expo = -8;
    let oracle = if pyth { fab::pyth_price_update(c.price_mant, 0, c.price_mant, 0, expo, ts, None, [7u8; 32]) } else { fab::switchboard_pull_feed(c.price_mant as i128 * 10_000_000_000, 0, ts) };
    let borrowed: u128 = if c.borrows { (c.deposits as u128 / 2).max(1) } else { 0 };
    let reserve = match venue {
        0 => fab::kamino_reserve(slot.saturating_sub(c.gap), c.deposits, borrowed << 60, 0, 0, 0, (c.deposits as u128 * 1000 / c.rate_pm as u128).max(1) as u64, 6),
        1 => fab::solend_reserve(slot.saturating_sub(c.gap), c.deposits, borrowed * 1_000_000_000_000_000_000, 0, (c.deposits as u128 * 1000 / c.rate_pm as u128).max(1) as u64, 6),
        _ => {
            let mut m: drift_mocks::state::MinimalSpotMarket = bytemuck::Zeroable::zeroed();
            let cdi: u128 = 10_000_000_000u128 * c.rate_pm as u128 / 1000;
            m.cumulative_deposit_interest = cdi.to_le_bytes();
            m.cumulative_borrow_interest = cdi.to_le_bytes();
            m.last_interest_ts = (ts as u64).saturating_sub(c.gap);
            m.decimals = 6;
            m.market_index = 1;
            m.deposit_balance = (c.deposits as u128).to_le_bytes();
            m.borrow_balance = borrowed.to_le_bytes();
            let mut d = drift_mocks::state::SPOT_MARKET_DISCRIMINATOR.to_vec();
            d.extend_from_slice(bytemuck::bytes_of(&m));
            fab::Fab { data: d, owner: fab::drift_owner() }
        }
    };
    let setup = match c.kind {
        0 => OracleSetup::KaminoPythPush,
        1 => OracleSetup::KaminoSwitchboardPull,
        2 => OracleSetup::SolendPythPull,
        3 => OracleSetup::SolendSwitchboardPull,
        4 => OracleSetup::DriftPythPull,
        _ => OracleSetup::DriftSwitchboardPull,
    };
    let k0 = crate::world::kp("c20b_oracle", 1);
    let k1 = crate::world::kp("c20b_reserve", 1);
    let bank = fab::pod_bank(setup, &[k0, k1], 100, 0, 0);
    let mut datas = [oracle.data.clone(), reserve.data.clone()];
    let owners = [oracle.owner, reserve.owner];
    let keys: [Pubkey; 2] = [k0, k1];
    let mut lamports = [1_000_000u64, 1_000_000u64];
    let priced: bool = {
        let (d0, d1) = datas.split_at_mut(1);
        let (l0, l1) = lamports.split_at_mut(1);
        let ais = vec![
            AccountInfo::new(&keys[0], false, false, &mut l0[0], &mut d0[0][..], &owners[0], false, 0),
            AccountInfo::new(&keys[1], false, false, &mut l1[0], &mut d1[0][..], &owners[1], false, 0),
        ];
        let ais_ref: &[AccountInfo] = unsafe { std::mem::transmute(&ais[..]) };
        matches!(catch_unwind(AssertUnwindSafe(|| OraclePriceFeedAdapter::try_from_bank_with_max_age(&bank, ais_ref, &clock, 100))), Ok(Ok(_)))
    };
    let name = ["kamino", "solend", "drift"][venue as usize % 3];
    if c.gap >= 1 && priced {
        return Err((
            format!("adapter-stale-venue-priced:{name}"),
            format!("{name} {} bank: the venue account was last refreshed {} {} ago (outstanding borrows: {}), yet the price adapter returned a price", if pyth { "Pyth" } else { "Switchboard" }, c.gap, if venue == 2 { "s" } else { "slots" }, c.borrows),
        ));
    }
    Ok(priced)
}

// ------------------------------------------------------------------------------------------------
// legs stream: BOTH price legs of the adjusted price (real-time from the spot price, time-weighted from the EMA), for all
// six venue oracle setups, on ordinary reserves / markets: each leg equals its own feed price x exact rate within a
// relative 10^-6 + two feed units ("never exceeds price x exact rate, is monotone in both": a leg computed from the other
// leg's price exceeds the bound whenever spot and EMA differ, and does not follow its own input)
// ------------------------------------------------------------------------------------------------
#[derive(Clone, Debug, Serialize, Deserialize)]
pub struct LCase {
    /// 0 KaminoPyth, 1 KaminoSwb, 2 SolendPyth, 3 SolendSwb, 4 DriftPyth, 5 DriftSwb
    pub kind: u8,
    pub deposits: u64,
    /// exact venue rate in per-mille (500 = a reserve below par)
    pub rate_pm: u32,
    pub price_mant: i64,
    /// EMA = price x ema_pm / 1000 (Pyth only)
    pub ema_pm: u16,
    pub decimals: u8,
}

pub fn legs_strategy() -> impl Strategy<Value = LCase> {
    (0u8..6, 1_000_000u64..1_000_000_000_000, prop_oneof![1 => 300u32..1000, 1 => Just(1000u32), 3 => 1000u32..3000], 1_000i64..1_000_000_000, prop_oneof![1 => Just(1000u16), 2 => 500u16..1000, 2 => 1001u16..2000], prop_oneof![3 => Just(6u8), 2 => Just(9u8), 1 => 0u8..=9])
        .prop_map(|(kind, deposits, rate_pm, price_mant, ema_pm, decimals)| LCase { kind, deposits, rate_pm, price_mant, ema_pm, decimals })
}

pub fn run_legs_case(c: &LCase) -> Result<bool, (String, String)> {
    crate::svm::init();
    let (slot, ts) = (1_000_000u64, 1_700_000_000i64);
    crate::svm::set_thread_clock(slot, ts);
    let mut clock = Clock::default();
    clock.slot = slot;
    clock.unix_timestamp = ts;
    let venue = c.kind / 2;
    let pyth = c.kind % 2 == 0;
    let expo = -8;
    let ema_mant = if pyth { ((c.price_mant as i128 * c.ema_pm as i128) / 1000).max(1) as i64 } else { c.price_mant };
    let oracle = if pyth { fab::pyth_price_update(c.price_mant, 0, ema_mant, 0, expo, ts, None, [7u8; 32]) } else { fab::switchboard_pull_feed(c.price_mant as i128 * 10_000_000_000, 0, ts) };
    // venue account, fresh; exact rate from the numbers written
    let supply = (c.deposits as u128 * 1000 / c.rate_pm as u128).max(1) as u64;
    let (reserve, rate): (fab::Fab, Q) = match venue {
        0 => (fab::kamino_reserve(slot, c.deposits, 0, 0, 0, 0, supply, c.decimals as u64), q_int(c.deposits) / q_int(supply)),
        1 => (fab::solend_reserve(slot, c.deposits, 0, 0, supply, c.decimals), q_int(c.deposits) / q_int(supply)),
        _ => {
            let cdi: u128 = 10_000_000_000u128 * c.rate_pm as u128 / 1000;
            (fab::drift_spot_market(cdi, ts as u64, c.decimals as u32, 1), Q::from_integer(BigInt::from(cdi)) / pow10(10))
        }
    };
    let setup = match c.kind {
        0 => OracleSetup::KaminoPythPush,
        1 => OracleSetup::KaminoSwitchboardPull,
        2 => OracleSetup::SolendPythPull,
        3 => OracleSetup::SolendSwitchboardPull,
        4 => OracleSetup::DriftPythPull,
        _ => OracleSetup::DriftSwitchboardPull,
    };
    let k0 = crate::world::kp("c20b_oracle", 2);
    let k1 = crate::world::kp("c20b_reserve", 2);
    let bank = fab::pod_bank(setup, &[k0, k1], 100, 0, 0);
    let mut datas = [oracle.data.clone(), reserve.data.clone()];
    let owners = [oracle.owner, reserve.owner];
    let keys: [Pubkey; 2] = [k0, k1];
    let mut lamports = [1_000_000u64, 1_000_000u64];
    let legs: Option<(i128, i128)> = {
        let (d0, d1) = datas.split_at_mut(1);
        let (l0, l1) = lamports.split_at_mut(1);
        let ais = vec![
            AccountInfo::new(&keys[0], false, false, &mut l0[0], &mut d0[0][..], &owners[0], false, 0),
            AccountInfo::new(&keys[1], false, false, &mut l1[0], &mut d1[0][..], &owners[1], false, 0),
        ];
        let ais_ref: &[AccountInfo] = unsafe { std::mem::transmute(&ais[..]) };
        match catch_unwind(AssertUnwindSafe(|| OraclePriceFeedAdapter::try_from_bank_with_max_age(&bank, ais_ref, &clock, 100))) {
            Ok(Ok(ad)) => {
                let rt = catch_unwind(AssertUnwindSafe(|| ad.get_price_of_type(OraclePriceType::RealTime, None, 0)));
                let tw = catch_unwind(AssertUnwindSafe(|| ad.get_price_of_type(OraclePriceType::TimeWeighted, None, 0)));
                match (rt, tw) {
                    (Ok(Ok(a)), Ok(Ok(b))) => Some((a.to_bits(), b.to_bits())),
                    _ => None,
                }
            }
            _ => None,
        }
    };
    let Some((rt, tw)) = legs else { return Ok(false) }; // failing closed is always allowed
    let unit = q_one() / pow10(8);
    let name = ["kamino", "solend", "drift"][venue as usize % 3];
    for (leg, got, mant) in [("real-time", q_bits(rt), c.price_mant), ("time-weighted", q_bits(tw), ema_mant)] {
        let want = q_int(mant) * &unit * &rate;
        let tol = &want * q_ratio(1, 1_000_000) + &unit * q_int(2) + ulp() * q_int(8);
        if got > &want + &tol {
            return Err((
                format!("adapter-leg-exceeds-rate:{leg}:{name}"),
                format!("{:?}: the {leg} price {} exceeds its feed price {} x exact rate {} = {} (spot mantissa {}, EMA mantissa {})", setup, q_str(&got), q_str(&(q_int(mant) * &unit)), q_str(&rate), q_str(&want), c.price_mant, ema_mant),
            ));
        }
        if got < &want - &tol {
            return Err((
                format!("adapter-leg-does-not-follow-its-price:{leg}:{name}"),
                format!("{:?}: the {leg} price {} is below its feed price {} x exact rate {} = {} beyond the truncation band (spot mantissa {}, EMA mantissa {}): the adjusted price is not a monotone function of this leg's price", setup, q_str(&got), q_str(&(q_int(mant) * &unit)), q_str(&rate), q_str(&want), c.price_mant, ema_mant),
            ));
        }
    }
    Ok(true)
}

pub const RULE: &str = "adapter level: the program's own price adapter (try_from_bank_with_max_age + get_price_of_type) for Kamino/Solend x Pyth/Switchboard banks over extreme reserve states: available / borrowed in {0, units, ..., 2^62}, fees up to 100% of liquidity, supplies from 1 to 2^62, decimals 0-19 and 23 (states whose scaled collateral supply is below 2^-38 are skipped: that is the regime of the recorded double-flooring finding): returned price <= price x exact (liquidity/collateral) x (1 + 2^-9) + 4 ulp x price + 2 feed units, never negative; failing closed is always accepted. Staleness stream: Kamino / Solend / Drift x Pyth / Switchboard banks whose venue account was last refreshed 0, 1, 2-100 or up to 10^7 slots (seconds for Drift) before the clock, with and without outstanding borrows / deposits, oracle fresh: any gap >= 1 => the adapter must not return a price. Legs stream: all six venue oracle setups on ordinary fresh reserves / markets (rate 0.3-3.0, i.e. also below par; Pyth EMA = 0.5-2.0 x spot): the real-time price equals spot x exact rate and the time-weighted price equals EMA x exact rate, each within a relative 10^-6 + two feed units - never above, and following its own leg's price. Non-trivial = the exact rate is zero or the liquidity vanishes after decimal scaling while collateral is outstanding.";

pub fn run(ctx: &Ctx) -> Report {
    let cases: u32 = ctx.tier.pick(20_000, 2_000_000);
    par_workers(ctx.threads, |wi| {
        let mut rep = Report::new(RULE);
        let strat = case_strategy();
        let outcome = run_prop(ctx.seed_bytes("c20b", wi as u64), cases, &strat, |c, counting| {
            let mut st = Stats::default();
            let r = run_case(c, &mut st);
            if counting {
                rep.eval();
                if st.built {
                    rep.label("adapter:price-returned");
                }
                rep.add_extra("adapter_foreign_reserve_cells", st.foreign_reserve_cells);
                if st.skipped_col_too_small {
                    rep.label("adapter:skipped-collateral-below-scaling-quantum");
                }
                if st.built && (st.rate_zero || st.liq_vanishes_after_scaling) {
                    rep.label(if st.rate_zero { "adapter:exact-rate-zero" } else { "adapter:liquidity-vanishes-after-scaling" });
                    rep.nontrivial_case(&json!({"k": c.kind, "a": c.available, "b": c.borrowed, "f": c.fee_frac, "s": c.supply, "d": c.decimals}));
                    if rep.samples.len() < 1 && wi == 0 {
                        rep.sample(json!({"adapter_level": c}));
                    }
                }
            }
            r.map_err(|(s, m)| format!("{s}|{m}"))
        });
        if let Some((c, msg)) = outcome.failure {
            let (sig, m) = msg.split_once('|').map(|(a, b)| (a.to_string(), b.to_string())).unwrap_or((msg.clone(), msg.clone()));
            let mut v = serde_json::to_value(&c).unwrap();
            v["half"] = json!("c20b");
            rep.violation(&sig, m, v);
        }
        // staleness stream
        let sstrat = stale_strategy();
        let outcome = run_prop(ctx.seed_bytes("c20b-stale", wi as u64), cases / 4, &sstrat, |c, counting| {
            let r = run_stale_case(c);
            if counting {
                rep.eval();
                let venue = ["kamino", "solend", "drift"][(c.kind / 2) as usize % 3];
                match &r {
                    Ok(true) => rep.label(&format!("stale-stream:{venue}:fresh:priced")),
                    Ok(false) => rep.label(&format!("stale-stream:{venue}:{}:refused", if c.gap == 0 { "fresh" } else { "stale" })),
                    Err(_) => {}
                }
                if c.gap >= 1 {
                    rep.nontrivial_case(&json!({"stale": c.kind, "g": c.gap.min(3), "b": c.borrows, "z": c.deposits == 0}));
                }
            }
            r.map(|_| ()).map_err(|(s, m)| format!("{s}|{m}"))
        });
        if let Some((c, msg)) = outcome.failure {
            let (sig, m) = msg.split_once('|').map(|(a, b)| (a.to_string(), b.to_string())).unwrap_or((msg.clone(), msg.clone()));
            let mut v = serde_json::to_value(&c).unwrap();
            v["half"] = json!("c20b-stale");
            rep.violation(&sig, m, v);
        }
        // legs stream
        let lstrat = legs_strategy();
        let outcome = run_prop(ctx.seed_bytes("c20b-legs", wi as u64), cases / 4, &lstrat, |c, counting| {
            let r = run_legs_case(c);
            if counting {
                rep.eval();
                let venue = ["kamino", "solend", "drift"][(c.kind / 2) as usize % 3];
                if let Ok(p) = &r {
                    rep.label(&format!("legs-stream:{venue}:{}:{}", if c.kind % 2 == 0 { if c.ema_pm == 1000 { "pyth-ema=spot" } else { "pyth-ema!=spot" } } else { "swb" }, if *p { "priced" } else { "refused" }));
                    if *p && c.kind % 2 == 0 && c.ema_pm != 1000 {
                        rep.nontrivial_case(&json!({"legs": c.kind, "e": c.ema_pm / 100, "r": c.rate_pm / 250, "d": c.decimals}));
                    }
                }
            }
            r.map(|_| ()).map_err(|(s, m)| format!("{s}|{m}"))
        });
        if let Some((c, msg)) = outcome.failure {
            let (sig, m) = msg.split_once('|').map(|(a, b)| (a.to_string(), b.to_string())).unwrap_or((msg.clone(), msg.clone()));
            let mut v = serde_json::to_value(&c).unwrap();
            v["half"] = json!("c20b-legs");
            rep.violation(&sig, m, v);
        }
        rep
    })
}

pub fn replay_legs(_ctx: &Ctx, case: &Value) -> Report {
    let mut rep = Report::new(RULE);
    rep.nontrivial_floor = 0;
    match serde_json::from_value::<LCase>(case.clone()) {
        Ok(c) => {
            rep.eval();
            if let Err((sig, msg)) = run_legs_case(&c) {
                rep.violation(&sig, msg, case.clone());
            }
        }
        Err(e) => rep.engine_errors.push(format!("bad replay: {e}")),
    }
    rep
}

pub fn replay(_ctx: &Ctx, case: &Value) -> Report {
    let mut rep = Report::new(RULE);
    rep.nontrivial_floor = 0;
    match serde_json::from_value::<RCase>(case.clone()) {
        Ok(c) => {
            let mut st = Stats::default();
            rep.eval();
            if let Err((sig, msg)) = run_case(&c, &mut st) {
                rep.violation(&sig, msg, case.clone());
            }
        }
        Err(e) => rep.engine_errors.push(format!("bad replay: {e}")),
    }
    rep
}

pub fn replay_stale(_ctx: &Ctx, case: &Value) -> Report {
    let mut rep = Report::new(RULE);
    rep.nontrivial_floor = 0;
    match serde_json::from_value::<SCase>(case.clone()) {
        Ok(c) => {
            rep.eval();
            if let Err((sig, msg)) = run_stale_case(&c) {
                rep.violation(&sig, msg, case.clone());
            }
        }
        Err(e) => rep.engine_errors.push(format!("bad replay: {e}")),
    }
    rep
}
