//! C18 — Every accepted interest curve is usable, bounded and non-decreasing.
//!
//! Pure-function check of `InterestRateConfigImpl::{validate, create_interest_rate_calculator}`,
//! `InterestRateCalc::calc_interest_rate`, `calc_interest_rate_accrual_state_changes` and the
//! `migrate_curve` instruction handler (called natively with a fabricated `Context`).
//!
//! ORACLE (exact integer / rational arithmetic, written from the statement and the doc comments;
//! the functions under test are never used to compute an expected value):
//!
//! * u32 -> fixed-point mapping (doc comments of `RatePoint`/`u32_to_centi`/`u32_to_milli`):
//!   a util `u` means `u/(2^32-1)`, a rate `r` means `10*r/(2^32-1)`. Neither is representable in
//!   I80F48, the program truncates: `U = floor(u*2^48/M)/2^48`, `R = 10*floor(r*2^48/M)/2^48`
//!   (M = 2^32-1; ONE truncating division, then an exact *10). Hence a mapped rate lies in
//!   `(10r/M - 10 ulp, 10r/M]` and a mapped util in `(u/M - 1 ulp, u/M]`. These are the ONLY places
//!   where the "equals each configured point" clause is given slack (10 ulps on the rate, and the
//!   utilisation at which a point is probed is the mapped `U`), because the conversion itself
//!   truncates.
//! * the reference curve is the piecewise-linear function through `(0,Z) (U_i,R_i).. (1,H)` with
//!   the utilisation clamped to [0,1].  The program computes on a segment
//!   `p = floor((x-x0)/dx)`, `s = floor(dy*p)`, `y = y0+s` (two truncating operations, everything
//!   else exact), so `y ∈ (exact - (dy+1) ulp, exact]` where `dy <= 10` is the rise of the segment
//!   in APR units: the first truncation loses < 1 ulp of `p` which is scaled by `dy`, the second
//!   loses < 1 ulp.  The check uses exactly that one-sided bound per segment (<= 11 ulps).
//! * monotonicity and the [Z,H] bounds are compared on the raw outputs, no tolerance.
//! * `borrow = floor(base*(1+Σ rate fees)) + Σ fixed fees` (doc comment `i_b = i*(1+f_i)+f_f`, one
//!   truncating multiplication -> < 1 ulp) and `borrow >= base`; `lending = floor(base*ur)` (doc
//!   comment `i_l = i*ur`, < 1 ulp) and `ur <= 1 => lending <= base`.
//! * one accrual step with sane totals must return `Some`.
//!
//! Legacy curves: points `(0,0) (optimal, plateau) (1, max)`, no u32 conversion, same laws.
use crate::common::*;
use crate::num::*;
use anchor_lang::prelude::{AccountInfo, AccountLoader, Context, Pubkey};
use anchor_lang::Owner;
use bytemuck::Zeroable;
use fixed::types::I80F48;
use marginfi::instructions::marginfi_group::MigrateCurve;
use marginfi::state::interest_rate::{
    calc_interest_rate_accrual_state_changes, InterestRateCalc, InterestRateConfigImpl,
};
use marginfi::state::marginfi_group::MarginfiGroupImpl;
use marginfi_type_crate::types::{
    Bank, InterestRateConfig, MarginfiGroup, RatePoint, INTEREST_CURVE_LEGACY,
    INTEREST_CURVE_SEVEN_POINT,
};
use num_bigint::BigInt;
use num_traits::ToPrimitive;
use proptest::prelude::*;
use serde_json::{json, Value};
use std::collections::BTreeSet;
use std::panic::{catch_unwind, AssertUnwindSafe};

const M: i128 = u32::MAX as i128;
const ONE: i128 = 1i128 << 48;
const FIVE_YEARS: u64 = 157_680_000;
/// soft clause: legacy curve evaluated above 100 % utilisation is not clamped by the program
const SIG_LEGACY_ABOVE_ONE: &str = "legacy:bounded:u>1";

const RULE: &str = "generated: InterestRateConfig values, 85% seven-point (0-5 used points, utils sorted-unique over the full u32 range incl. adjacent (u,u+1)/(u,u+2), 1, u32::MAX-1, u32::MAX; rates non-decreasing incl. equal/+1 within [zero,hundred]; 25% deliberately malformed: swapped/equal utils, decreasing rate, rate outside [zero,hundred], zero>hundred, hole, padding with rate, random), 15% legacy three-point (optimal in (0,1) incl. 1 ulp and 1-1ulp, plateau<max up to 2000, plus malformed); six fee fields in [0,10]; each config validate() accepts is swept over 0, 1, >1, every breakpoint ±{0,1,2} ulp, 64 grid + 16 random utilisations per segment, and 3 accrual steps (dt 1s..5y, assets <=1e15, share values in [1e-3,1e3]); accepted legacy configs are additionally migrated with the real migrate_curve handler and the result swept. NON-TRIVIAL: an accepted seven-point config with >=2 used points and at least one adjacent-util pair (gap <=2) or an equal-rate neighbouring pair (every accepted config is also probed at breakpoint±ulp utilisations).";

// ------------------------------------------------------------------------------------------
// the case
// ------------------------------------------------------------------------------------------
#[derive(Clone, Debug, PartialEq)]
struct Accr {
    dt: u64,
    a_bits: i128,
    u_sel: u64,
    asv_bits: i128,
    lsv_bits: i128,
}

#[derive(Clone, Debug)]
struct Case {
    curve_type: u8,
    zero: u32,
    hundred: u32,
    points: [(u32, u32); 5],
    opt: i128,
    plat: i128,
    max: i128,
    /// insurance_fee_fixed_apr, insurance_ir_fee, protocol_fixed_fee_apr, protocol_ir_fee
    fees: [i128; 4],
    /// program_fee_fixed, program_fee_rate (group fee-state cache)
    prog: [i128; 2],
    prog_on: bool,
    salt: u64,
    accr: Vec<Accr>,
    origin: String,
}

fn s128(x: i128) -> Value {
    json!(x.to_string())
}
fn p128(v: &Value) -> Option<i128> {
    match v {
        Value::String(s) => s.parse().ok(),
        Value::Number(n) => n.as_i64().map(|x| x as i128),
        _ => None,
    }
}

impl Case {
    fn to_json(&self) -> Value {
        json!({
            "curve_type": self.curve_type,
            "zero": self.zero, "hundred": self.hundred,
            "points": self.points.iter().map(|p| json!([p.0, p.1])).collect::<Vec<_>>(),
            "opt": s128(self.opt), "plat": s128(self.plat), "max": s128(self.max),
            "fees": self.fees.iter().map(|f| s128(*f)).collect::<Vec<_>>(),
            "prog": self.prog.iter().map(|f| s128(*f)).collect::<Vec<_>>(),
            "prog_on": self.prog_on,
            "salt": self.salt.to_string(),
            "accr": self.accr.iter().map(|a| json!({
                "dt": a.dt, "a_bits": s128(a.a_bits), "u_sel": a.u_sel.to_string(),
                "asv_bits": s128(a.asv_bits), "lsv_bits": s128(a.lsv_bits)})).collect::<Vec<_>>(),
            "origin": self.origin,
        })
    }
    fn from_json(v: &Value) -> Option<Case> {
        let mut points = [(0u32, 0u32); 5];
        for (i, p) in v["points"].as_array()?.iter().enumerate().take(5) {
            points[i] = (p[0].as_u64()? as u32, p[1].as_u64()? as u32);
        }
        let mut fees = [0i128; 4];
        for (i, f) in v["fees"].as_array()?.iter().enumerate().take(4) {
            fees[i] = p128(f)?;
        }
        let mut prog = [0i128; 2];
        for (i, f) in v["prog"].as_array()?.iter().enumerate().take(2) {
            prog[i] = p128(f)?;
        }
        let mut accr = vec![];
        for a in v["accr"].as_array()? {
            accr.push(Accr {
                dt: a["dt"].as_u64()?,
                a_bits: p128(&a["a_bits"])?,
                u_sel: a["u_sel"].as_str()?.parse().ok()?,
                asv_bits: p128(&a["asv_bits"])?,
                lsv_bits: p128(&a["lsv_bits"])?,
            });
        }
        Some(Case {
            curve_type: v["curve_type"].as_u64()? as u8,
            zero: v["zero"].as_u64()? as u32,
            hundred: v["hundred"].as_u64()? as u32,
            points,
            opt: p128(&v["opt"])?,
            plat: p128(&v["plat"])?,
            max: p128(&v["max"])?,
            fees,
            prog,
            prog_on: v["prog_on"].as_bool()?,
            salt: v["salt"].as_str()?.parse().ok()?,
            accr,
            origin: v["origin"].as_str().unwrap_or("replay").to_string(),
        })
    }
}

// ------------------------------------------------------------------------------------------
// generators (construction, no rejection)
// ------------------------------------------------------------------------------------------
fn util_raw() -> BoxedStrategy<u32> {
    prop_oneof![
        4 => any::<u32>(),
        1 => 1u32..=4,
        1 => (u32::MAX - 4)..=u32::MAX,
        1 => 0x7fff_fff0u32..=0x8000_0010,
        1 => 1u32..=70_000,
    ]
    .boxed()
}
fn rate_raw() -> BoxedStrategy<u32> {
    prop_oneof![
        4 => any::<u32>(),
        1 => 0u32..=3,
        1 => (u32::MAX - 3)..=u32::MAX,
        2 => 0u32..=(u32::MAX / 10),
    ]
    .boxed()
}
fn fee_bits() -> BoxedStrategy<i128> {
    prop_oneof![
        3 => Just(0i128),
        1 => Just(1i128),
        3 => 0i128..=(ONE / 2),
        2 => 0i128..=(10 * ONE),
        1 => Just(10 * ONE),
        1 => Just(ONE),
    ]
    .boxed()
}
fn accr_strategy() -> BoxedStrategy<Accr> {
    let dt = prop_oneof![
        1 => Just(1u64),
        2 => 1u64..=3600,
        3 => 1u64..=31_536_000,
        1 => Just(FIVE_YEARS),
        2 => 1u64..=FIVE_YEARS,
    ];
    // assets: log-uniform in [1, 1e15] with fractional bits
    let a = (48u32..=97, any::<u128>()).prop_map(|(e, r)| {
        let v = (1i128 << e) | ((r as i128) & ((1i128 << e) - 1));
        v.min(1_000_000_000_000_000i128 * ONE)
    });
    let sv = prop_oneof![
        2 => Just(ONE),
        2 => ONE..=(2 * ONE),
        1 => Just(ONE / 1000 + 1),
        1 => Just(1000 * ONE),
        3 => (ONE / 1000 + 1)..=(1000 * ONE),
    ];
    (dt, a, any::<u64>(), sv.clone(), sv)
        .prop_map(|(dt, a_bits, u_sel, asv_bits, lsv_bits)| Accr { dt, a_bits, u_sel, asv_bits, lsv_bits })
        .boxed()
}

type Common = ([i128; 4], [i128; 2], bool, u64, Vec<Accr>);
fn common_strategy() -> BoxedStrategy<Common> {
    (
        proptest::array::uniform4(fee_bits()),
        proptest::array::uniform2(fee_bits()),
        any::<bool>(),
        any::<u64>(),
        proptest::collection::vec(accr_strategy(), 3),
    )
        .boxed()
}

fn legacy_fields() -> BoxedStrategy<(i128, i128, i128)> {
    let opt = prop_oneof![
        4 => 1i128..ONE,
        1 => Just(1i128),
        1 => Just(2i128),
        1 => Just(ONE - 1),
        1 => Just(ONE - 2),
        1 => 1i128..=70_000,
        1 => Just(ONE / 2),
        1 => (ONE - 70_000)..ONE,
    ];
    let rate = || {
        prop_oneof![
            3 => 1i128..=(10 * ONE),
            1 => Just(1i128),
            2 => 1i128..=(ONE / 2),
            1 => 1i128..=(1000 * ONE),
            1 => 1i128..=70_000,
        ]
    };
    (opt, rate(), rate()).prop_map(|(o, p, d)| (o, p, p + d)).boxed()
}

const SEVEN_MUTS: [&str; 10] = [
    "swap-utils", "equal-utils", "decreasing-rate", "rate-below-zero", "rate-above-hundred",
    "zero-above-hundred", "hole", "padding-with-rate", "first-util-zero", "random-points",
];

#[allow(clippy::too_many_arguments)]
fn build_seven(
    k_sel: u8,
    utils: [u32; 5],
    adj: [u8; 5],
    rates: [u32; 7],
    eq: [u8; 7],
    mutation: (u8, u8, u32),
    common: Common,
    garbage: (u8, (i128, i128, i128)),
) -> Case {
    let k = [0usize, 1, 1, 2, 2, 2, 3, 3, 4, 4, 5, 5][(k_sel as usize) % 12];
    // utils: sorted unique, >= 1, optional adjacency
    let mut us: Vec<u32> = utils[..k].iter().map(|u| (*u).max(1)).collect();
    us.sort();
    for i in 1..us.len() {
        match adj[i] {
            0 => us[i] = us[i - 1].saturating_add(1),
            1 => us[i] = us[i - 1].saturating_add(2),
            _ => {}
        }
    }
    us.sort();
    us.dedup();
    let k = us.len();
    // rates: non-decreasing with optional equal / +1 neighbours
    let mut rs: Vec<u32> = rates[..k + 2].to_vec();
    rs.sort();
    for i in 1..rs.len() {
        match eq[i] {
            0 => rs[i] = rs[i - 1],
            1 => rs[i] = rs[i - 1].saturating_add(1),
            _ => {}
        }
    }
    rs.sort();
    let mut zero = rs[0];
    let mut hundred = rs[k + 1];
    let mut pts = [(0u32, 0u32); 5];
    for i in 0..k {
        pts[i] = (us[i], rs[i + 1]);
    }
    let (msel, midx, mval) = mutation;
    let mut origin = format!("seven:k={k}");
    if (msel as usize) < SEVEN_MUTS.len() {
        let i = if k >= 2 { (midx as usize) % (k - 1) } else { 0 };
        let j = if k >= 1 { (midx as usize) % k } else { 0 };
        let mut applied = true;
        match msel {
            0 if k >= 2 => {
                let t = pts[i].0;
                pts[i].0 = pts[i + 1].0;
                pts[i + 1].0 = t;
            }
            1 if k >= 2 => pts[i + 1].0 = pts[i].0,
            2 if k >= 2 && pts[i].1 > 0 => pts[i + 1].1 = mval % pts[i].1,
            3 if k >= 1 && zero > 0 => pts[j].1 = mval % zero,
            4 if k >= 1 && hundred < u32::MAX => pts[j].1 = hundred + 1 + mval % (u32::MAX - hundred),
            5 => {
                if zero != hundred {
                    std::mem::swap(&mut zero, &mut hundred);
                } else if hundred < u32::MAX {
                    zero = hundred + 1;
                } else {
                    hundred -= 1;
                }
            }
            6 if k >= 1 => {
                // insert a (0,0) hole before point j
                let mut v: Vec<(u32, u32)> = pts[..k].to_vec();
                v.insert(j, (0, 0));
                v.truncate(5);
                if v.len() > j + 1 {
                    pts = [(0, 0); 5];
                    for (n, p) in v.iter().enumerate() {
                        pts[n] = *p;
                    }
                } else {
                    applied = false;
                }
            }
            7 if k < 5 => pts[k + (midx as usize) % (5 - k)] = (0, mval | 1),
            8 if k >= 1 => pts[0].0 = 0,
            9 => {
                let mut s = mval as u64 ^ 0xC18;
                for p in pts.iter_mut() {
                    s = splitmix(s);
                    let u = match s % 4 {
                        0 => 0,
                        1 => (s >> 8) as u32 % 8,
                        _ => (s >> 16) as u32,
                    };
                    s = splitmix(s);
                    let r = match s % 4 {
                        0 => 0,
                        1 => zero.saturating_add((s >> 8) as u32 % 4),
                        _ => (s >> 16) as u32,
                    };
                    *p = (u, r);
                }
            }
            _ => applied = false,
        }
        if applied {
            origin = format!("seven:malformed:{}", SEVEN_MUTS[msel as usize]);
        }
    }
    let (opt, plat, max) = if garbage.0 == 0 { garbage.1 } else { (0, 0, 0) };
    Case {
        curve_type: INTEREST_CURVE_SEVEN_POINT,
        zero,
        hundred,
        points: pts,
        opt,
        plat,
        max,
        fees: common.0,
        prog: common.1,
        prog_on: common.2,
        salt: common.3,
        accr: common.4,
        origin,
    }
}

fn seven_strategy() -> BoxedStrategy<Case> {
    (
        0u8..12,
        proptest::array::uniform5(util_raw()),
        proptest::array::uniform5(0u8..6),
        proptest::array::uniform7(rate_raw()),
        proptest::array::uniform7(0u8..6),
        (0u8..40, 0u8..5, any::<u32>()),
        common_strategy(),
        (0u8..4, legacy_fields()),
    )
        .prop_map(|(k, u, a, r, e, m, c, g)| build_seven(k, u, a, r, e, m, c, g))
        .boxed()
}

const LEGACY_MUTS: [&str; 7] =
    ["opt=0", "opt=1", "opt>1", "plateau=0", "max=plateau", "max<plateau", "negative"];

fn legacy_strategy() -> BoxedStrategy<Case> {
    (
        legacy_fields(),
        (0u8..35, any::<u32>()),
        common_strategy(),
        (0u8..4, rate_raw(), rate_raw(), util_raw(), rate_raw()),
    )
        .prop_map(|((mut opt, mut plat, mut max), (msel, mval), c, g)| {
            let mut origin = "legacy".to_string();
            if (msel as usize) < LEGACY_MUTS.len() {
                match msel {
                    0 => opt = 0,
                    1 => opt = ONE,
                    2 => opt = ONE + 1 + (mval as i128),
                    3 => plat = 0,
                    4 => max = plat,
                    5 => std::mem::swap(&mut plat, &mut max),
                    _ => match mval % 3 {
                        0 => opt = -opt,
                        1 => plat = -plat,
                        _ => max = -max,
                    },
                }
                origin = format!("legacy:malformed:{}", LEGACY_MUTS[msel as usize]);
            }
            // seven-point fields are ignored by a legacy curve; sometimes fill them with garbage
            let (zero, hundred, points) = if g.0 == 0 {
                (g.1, g.2, [(g.3, g.4), (0, 0), (0, 0), (0, 0), (0, 0)])
            } else {
                (0, 0, [(0, 0); 5])
            };
            Case {
                curve_type: INTEREST_CURVE_LEGACY,
                zero,
                hundred,
                points,
                opt,
                plat,
                max,
                fees: c.0,
                prog: c.1,
                prog_on: c.2,
                salt: c.3,
                accr: c.4,
                origin,
            }
        })
        .boxed()
}

fn case_strategy() -> BoxedStrategy<Case> {
    prop_oneof![85 => seven_strategy(), 15 => legacy_strategy()].boxed()
}

// ------------------------------------------------------------------------------------------
// program-side helpers
// ------------------------------------------------------------------------------------------
fn build_cfg(c: &Case) -> InterestRateConfig {
    let mut cfg = InterestRateConfig::zeroed();
    cfg.optimal_utilization_rate = w_from_bits(c.opt);
    cfg.plateau_interest_rate = w_from_bits(c.plat);
    cfg.max_interest_rate = w_from_bits(c.max);
    cfg.insurance_fee_fixed_apr = w_from_bits(c.fees[0]);
    cfg.insurance_ir_fee = w_from_bits(c.fees[1]);
    cfg.protocol_fixed_fee_apr = w_from_bits(c.fees[2]);
    cfg.protocol_ir_fee = w_from_bits(c.fees[3]);
    cfg.zero_util_rate = c.zero;
    cfg.hundred_util_rate = c.hundred;
    for (i, p) in c.points.iter().enumerate() {
        cfg.points[i] = RatePoint::new(p.0, p.1);
    }
    cfg.curve_type = c.curve_type;
    cfg
}

fn build_group(c: &Case) -> MarginfiGroup {
    let mut g = MarginfiGroup::zeroed();
    g.fee_state_cache.program_fee_fixed = w_from_bits(c.prog[0]);
    g.fee_state_cache.program_fee_rate = w_from_bits(c.prog[1]);
    g.set_program_fee_enabled(c.prog_on);
    g
}

fn accepted(cfg: &InterestRateConfig) -> Result<bool, String> {
    match catch_unwind(AssertUnwindSafe(|| cfg.validate())) {
        Ok(r) => Ok(r.is_ok()),
        Err(_) => Err("validate() panicked".into()),
    }
}

#[derive(Clone, Copy, Debug)]
struct Rates {
    base: i128,
    lend: i128,
    borrow: i128,
}
enum Eval {
    Some(Rates),
    None,
    Panic,
}
fn eval(calc: &InterestRateCalc, x: i128) -> Eval {
    match catch_unwind(AssertUnwindSafe(|| calc.calc_interest_rate(I80F48::from_bits(x)))) {
        Ok(Some(r)) => Eval::Some(Rates {
            base: r.base_rate_apr.to_bits(),
            lend: r.lending_rate_apr.to_bits(),
            borrow: r.borrowing_rate_apr.to_bits(),
        }),
        Ok(None) => Eval::None,
        Err(_) => Eval::Panic,
    }
}

/// Run the real `migrate_curve` instruction handler on a bank holding `cfg`.
fn migrate_via_ix(cfg: &InterestRateConfig) -> Result<InterestRateConfig, String> {
    let mut bank = Bank::zeroed();
    bank.config.interest_rate_config = *cfg;
    // the rest of the bank config must pass BankConfig::validate()
    bank.config.liability_weight_init = I80F48::ONE.into();
    bank.config.liability_weight_maint = I80F48::ONE.into();
    bank.config.oracle_max_age = 60;
    let n = 8 + std::mem::size_of::<Bank>();
    let mut store = vec![0u64; n / 8];
    let data: &mut [u8] = bytemuck::cast_slice_mut(&mut store[..]);
    data[..8].copy_from_slice(&Bank::DISCRIMINATOR);
    data[8..].copy_from_slice(bytemuck::bytes_of(&bank));
    let key = Pubkey::new_from_array([7u8; 32]);
    let owner = Bank::owner();
    let mut lamports = 1_000_000_000u64;
    let ai = AccountInfo::new(&key, false, true, &mut lamports, data, &owner, false, 0);
    let res = catch_unwind(AssertUnwindSafe(|| -> Result<InterestRateConfig, String> {
        let loader: AccountLoader<Bank> = AccountLoader::try_from(&ai).map_err(|e| format!("loader: {e:?}"))?;
        let mut accounts = MigrateCurve { bank: loader };
        let ctx = Context::new(&marginfi::ID, &mut accounts, &[], Default::default());
        marginfi::instructions::marginfi_group::migrate_curve(ctx).map_err(|e| format!("{e:?}"))?;
        let b = accounts.bank.load().map_err(|e| format!("load: {e:?}"))?;
        Ok(b.config.interest_rate_config)
    }));
    match res {
        Ok(r) => r,
        Err(_) => Err("panic".into()),
    }
}

// ------------------------------------------------------------------------------------------
// the reference curve and the laws
// ------------------------------------------------------------------------------------------
fn map_util(u: u32) -> i128 {
    ((u as i128) << 48) / M
}
fn map_rate(r: u32) -> i128 {
    10 * (((r as i128) << 48) / M)
}

/// breakpoints in I80F48 bits; xs strictly increasing except possibly a final duplicate of ONE
struct Curve {
    xs: Vec<i128>,
    ys: Vec<i128>,
}
impl Curve {
    fn lo(&self) -> i128 {
        self.ys[0]
    }
    fn hi(&self) -> i128 {
        *self.ys.last().unwrap()
    }
    /// segment (x0,y0,x1,y1) on which the clamped utilisation lies: the one ending at the first
    /// breakpoint >= x (a breakpoint belongs to the configured point)
    fn segment(&self, xc: i128) -> (i128, i128, i128, i128) {
        for i in 1..self.xs.len() {
            if xc <= self.xs[i] {
                return (self.xs[i - 1], self.ys[i - 1], self.xs[i], self.ys[i]);
            }
        }
        unreachable!("clamped utilisation beyond 1")
    }
    /// exact value as a rational (used to double-check the integer formulation on a failure)
    fn exact_q(&self, xc: i128) -> (Q, Q) {
        let (x0, y0, x1, y1) = self.segment(xc);
        let dy = q_bits(y1 - y0);
        if x1 == x0 {
            return (q_bits(y0), dy);
        }
        (q_bits(y0) + &dy * q_ratio(xc - x0, x1 - x0), dy)
    }
}

#[derive(Clone, Debug)]
struct Viol {
    sig: String,
    msg: String,
    u_bits: Option<i128>,
}
fn viol(sig: &str, msg: String, u: Option<i128>) -> Viol {
    Viol { sig: sig.to_string(), msg, u_bits: u }
}

#[derive(Default)]
struct Obs {
    labels: Vec<String>,
    nontrivial: Option<Value>,
    soft: Vec<Viol>,
    evals: u64,
    max_interp_err_ulps: f64,
    max_migrate_dev: f64,
}
impl Obs {
    fn label(&mut self, s: &str) {
        self.labels.push(s.to_string());
    }
}

fn fx(bits: i128) -> String {
    format!("{} (bits {})", I80F48::from_bits(bits), bits)
}

struct FeeSums {
    ir: i128,
    fixed: i128,
}

/// Sweep the laws over sorted utilisations `xs` (all >= 0).
fn law_sweep(
    pre: &str,
    curve: &Curve,
    calc: &InterestRateCalc,
    xs: &[i128],
    fees: &FeeSums,
    legacy: bool,
    obs: &mut Obs,
) -> Result<(), Viol> {
    let mut prev: Option<(i128, i128)> = None;
    for &x in xs {
        obs.evals += 1;
        let r = match eval(calc, x) {
            Eval::Some(r) => r,
            Eval::None => {
                return Err(viol(&format!("{pre}defined"), format!("calc_interest_rate({}) returned None on an accepted config", fx(x)), Some(x)))
            }
            Eval::Panic => {
                return Err(viol(&format!("{pre}defined"), format!("calc_interest_rate({}) panicked on an accepted config", fx(x)), Some(x)))
            }
        };
        // monotone (raw outputs)
        if let Some((px, pb)) = prev {
            if r.base < pb {
                return Err(viol(
                    &format!("{pre}monotone"),
                    format!("base({}) = {} > base({}) = {}", fx(px), fx(pb), fx(x), fx(r.base)),
                    Some(x),
                ));
            }
        }
        prev = Some((x, r.base));
        if legacy && x > ONE {
            // The statement says utilisation beyond 100 % is clamped; the legacy curve is not.
            if r.base > curve.hi() && !obs.soft.iter().any(|v| v.sig == SIG_LEGACY_ABOVE_ONE) {
                obs.soft.push(viol(
                    SIG_LEGACY_ABOVE_ONE,
                    format!(
                        "legacy curve (optimal {}, plateau {}, max {}) at utilisation {} gives base {} above the full-utilisation rate (utilisation above 100 % is not clamped)",
                        fx(curve.xs[1]), fx(curve.ys[1]), fx(curve.hi()), fx(x), fx(r.base)
                    ),
                    Some(x),
                ));
            }
            if r.borrow < r.base {
                return Err(viol(&format!("{pre}borrow>=base"), format!("u={}: borrow {} < base {}", fx(x), fx(r.borrow), fx(r.base)), Some(x)));
            }
            continue;
        }
        // borrow: doc formula and the statement's borrow >= base (fees are non-negative here)
        let want_borrow = ((r.base * (ONE + fees.ir)) >> 48) + fees.fixed;
        if r.borrow < r.base {
            return Err(viol(&format!("{pre}borrow>=base"), format!("u={}: borrow {} < base {}", fx(x), fx(r.borrow), fx(r.base)), Some(x)));
        }
        if r.borrow != want_borrow {
            return Err(viol(
                &format!("{pre}borrow-formula"),
                format!("u={}: borrow {} but floor(base*(1+rate fees))+fixed fees = {}", fx(x), fx(r.borrow), fx(want_borrow)),
                Some(x),
            ));
        }
        // lending: doc formula i_l = i*ur (one truncation), and <= base up to 100 %
        let want_lend = (r.base * x) >> 48;
        if x <= ONE && r.lend > r.base {
            return Err(viol(&format!("{pre}lending<=base"), format!("u={}: lending {} > base {}", fx(x), fx(r.lend), fx(r.base)), Some(x)));
        }
        if r.lend != want_lend {
            return Err(viol(
                &format!("{pre}lending-formula"),
                format!("u={}: lending {} but floor(base*u) = {}", fx(x), fx(r.lend), fx(want_lend)),
                Some(x),
            ));
        }
        // bounded
        let xc = x.min(ONE);
        if r.base < curve.lo() || r.base > curve.hi() {
            return Err(viol(
                &format!("{pre}bounded"),
                format!("u={}: base {} outside [{}, {}]", fx(x), fx(r.base), fx(curve.lo()), fx(curve.hi())),
                Some(x),
            ));
        }
        // interpolation: base in (exact - (dy+1) ulp, exact]
        let (x0, y0, x1, y1) = curve.segment(xc);
        let (dx, dy) = (x1 - x0, y1 - y0);
        let ok = if dx == 0 {
            r.base == y0
        } else {
            // W/dx = exact - base in ulps
            let w = dy * (xc - x0) - (r.base - y0) * dx;
            let p = dx * (dy + ONE);
            if w >= 0 && !legacy {
                let e = w as f64 / dx as f64;
                if e > obs.max_interp_err_ulps {
                    obs.max_interp_err_ulps = e;
                }
            }
            w >= 0 && w <= (p - 1) >> 48
        };
        // independent formulation with rationals (always on failure)
        if !ok {
            let (exact, dyq) = curve.exact_q(xc);
            let b = q_bits(r.base);
            let ok_q = b <= exact && &exact - &b < (&dyq + q_one()) * ulp();
            assert!(!ok_q, "C18 engine: integer and rational interpolation oracles disagree");
            return Err(viol(
                &format!("{pre}interpolation"),
                format!(
                    "u={}: base {} but exact interpolation on segment ({},{})-({},{}) is {} (allowed: (exact-(dy+1)ulp, exact])",
                    fx(x), fx(r.base), fx(x0), fx(y0), fx(x1), fx(y1), q_str(&exact)
                ),
                Some(x),
            ));
        }
    }
    Ok(())
}

/// base rate at x, or a violation of "defined"
fn base_at(pre: &str, calc: &InterestRateCalc, x: i128, obs: &mut Obs) -> Result<i128, Viol> {
    obs.evals += 1;
    match eval(calc, x) {
        Eval::Some(r) => Ok(r.base),
        _ => Err(viol(&format!("{pre}defined"), format!("calc_interest_rate({}) undefined on an accepted config", fx(x)), Some(x))),
    }
}

/// "equals each configured point at its utilization" for a u32-encoded rate: the only slack is the
/// truncation of the u32 -> I80F48 conversion: base in (10r/M - 10ulp, 10r/M]
fn point_matches(base: i128, r: u32) -> bool {
    let t = 10 * (r as i128) * ONE; // true rate * M in ulps
    base * M <= t && (base + 10) * M > t
}

fn sweep_points(curve: &Curve, salt: u64, above_one: &[i128]) -> Vec<i128> {
    let mut xs: Vec<i128> = vec![0, 1, 2, ONE - 2, ONE - 1, ONE];
    xs.extend_from_slice(above_one);
    let mut s = salt;
    for i in 1..curve.xs.len() {
        let (x0, x1) = (curve.xs[i - 1], curve.xs[i]);
        for d in -2i128..=2 {
            if x1 + d >= 0 {
                xs.push(x1 + d);
            }
        }
        let dx = x1 - x0;
        if dx <= 0 {
            continue;
        }
        for j in 1..=64i128 {
            xs.push(x0 + dx * j / 65);
        }
        for _ in 0..16 {
            s = splitmix(s);
            xs.push(x0 + ((s as i128) & ((1i128 << 62) - 1)) % (dx + 1));
        }
    }
    xs.sort();
    xs.dedup();
    xs
}

/// documented structure of an accepted seven-point config (doc comment of validate_seven_point and
/// of InterestRateConfig.points); returns the first broken rule
fn structure_defect(c: &Case) -> Option<&'static str> {
    let mut seen_pad = false;
    let mut used: Vec<(u32, u32)> = vec![];
    for p in c.points.iter() {
        if p.0 == 0 {
            if p.1 != 0 {
                return Some("padding-with-rate");
            }
            seen_pad = true;
        } else {
            if seen_pad {
                return Some("hole");
            }
            used.push(*p);
        }
    }
    for w in used.windows(2) {
        if w[0].0 >= w[1].0 {
            return Some("utils-not-ascending");
        }
        if w[0].1 > w[1].1 {
            return Some("rates-decreasing");
        }
    }
    if c.zero > c.hundred {
        return Some("zero-above-hundred");
    }
    if used.iter().any(|p| p.1 < c.zero || p.1 > c.hundred) {
        return Some("rate-outside-zero-hundred");
    }
    None
}

fn check_seven(pre: &str, c: &Case, cfg: &InterestRateConfig, obs: &mut Obs) -> Result<(), Viol> {
    if let Some(d) = structure_defect(c) {
        return Err(viol(
            &format!("{pre}accepted-but-malformed:{d}"),
            format!("validate() accepted a config that breaks the documented rule '{d}': zero={} hundred={} points={:?}", c.zero, c.hundred, c.points),
            None,
        ));
    }
    let used: Vec<(u32, u32)> = c.points.iter().copied().filter(|p| p.0 != 0).collect();
    let k = used.len();
    let mut curve = Curve { xs: vec![0], ys: vec![map_rate(c.zero)] };
    for p in &used {
        curve.xs.push(map_util(p.0));
        curve.ys.push(map_rate(p.1));
    }
    curve.xs.push(ONE);
    curve.ys.push(map_rate(c.hundred));
    let point_at_full = used.last().map(|p| p.0 == u32::MAX).unwrap_or(false);
    if point_at_full {
        // a configured point AT 100 %: the statement makes the configured point win there
        obs.label("seven:point-at-util=u32::MAX");
        let n = curve.ys.len();
        curve.ys[n - 1] = curve.ys[n - 2];
    }
    let group = build_group(c);
    let calc = cfg.create_interest_rate_calculator(&group);
    let fees = FeeSums {
        ir: c.fees[1] + c.fees[3] + if c.prog_on { c.prog[1] } else { 0 },
        fixed: c.fees[0] + c.fees[2] + if c.prog_on { c.prog[0] } else { 0 },
    };
    let above = [ONE + 1, ONE + 2, ONE + (ONE >> 20), ONE + ONE / 2, 2 * ONE, 1_000_000 * ONE];
    let xs = sweep_points(&curve, c.salt, &above);
    law_sweep(pre, &curve, &calc, &xs, &fees, false, obs)?;
    // configured points
    for p in &used {
        let x = map_util(p.0);
        let b = base_at(pre, &calc, x, obs)?;
        if !point_matches(b, p.1) {
            return Err(viol(
                &format!("{pre}point-exact"),
                format!("configured point (util {}, rate {}): base({}) = {} is not 10*{}/(2^32-1) (within the 10 ulps of the u32 conversion)", p.0, p.1, fx(x), fx(b), p.1),
                Some(x),
            ));
        }
    }
    let b0 = base_at(pre, &calc, 0, obs)?;
    if !point_matches(b0, c.zero) {
        return Err(viol(&format!("{pre}point-exact"), format!("base(0) = {} is not the zero-utilisation rate {}", fx(b0), c.zero), Some(0)));
    }
    if !point_at_full {
        let b1 = base_at(pre, &calc, ONE, obs)?;
        if !point_matches(b1, c.hundred) {
            return Err(viol(&format!("{pre}point-exact"), format!("base(1) = {} is not the full-utilisation rate {}", fx(b1), c.hundred), Some(ONE)));
        }
    }
    // negative utilisation cannot occur in the program (amounts are non-negative) and
    // calc_interest_rate asserts lending >= 0: informational only
    for x in [-1i128, -(ONE / 2)] {
        match eval(&calc, x) {
            Eval::Some(r) => {
                obs.label("seven:negative-util:some");
                if !point_matches(r.base, c.zero) {
                    return Err(viol(&format!("{pre}clamp-below-zero"), format!("base({}) = {} is not the zero-utilisation rate", fx(x), fx(r.base)), Some(x)));
                }
            }
            Eval::None => obs.label("seven:negative-util:none(info)"),
            Eval::Panic => obs.label("seven:negative-util:assert-panic(info)"),
        }
    }
    // evidence
    let adjacent = used.windows(2).any(|w| w[1].0 - w[0].0 <= 2);
    let mut rates_all = vec![c.zero];
    rates_all.extend(used.iter().map(|p| p.1));
    rates_all.push(c.hundred);
    let equal = rates_all.windows(2).any(|w| w[0] == w[1]);
    obs.label(&format!("{pre}seven:accepted:k={k}"));
    if adjacent {
        obs.label(&format!("{pre}seven:adjacent-utils"));
    }
    if equal {
        obs.label(&format!("{pre}seven:equal-rates"));
    }
    if used.first().map(|p| p.0 == 1).unwrap_or(false) {
        obs.label(&format!("{pre}seven:first-util=1"));
    }
    if k >= 2 && (adjacent || equal) && pre.is_empty() {
        obs.nontrivial = Some(json!({"z": c.zero, "h": c.hundred, "p": c.points.iter().map(|p| json!([p.0, p.1])).collect::<Vec<_>>()}));
    }
    accrual_steps(pre, c, &curve, &calc, &fees, false, obs)
}

fn check_legacy(c: &Case, cfg: &InterestRateConfig, obs: &mut Obs) -> Result<(), Viol> {
    let pre = "legacy:";
    let curve = Curve { xs: vec![0, c.opt, ONE], ys: vec![0, c.plat, c.max] };
    let group = build_group(c);
    let calc = cfg.create_interest_rate_calculator(&group);
    let fees = FeeSums {
        ir: c.fees[1] + c.fees[3] + if c.prog_on { c.prog[1] } else { 0 },
        fixed: c.fees[0] + c.fees[2] + if c.prog_on { c.prog[0] } else { 0 },
    };
    // utilisation above 100 % is reachable (fees accrue on top of a fully utilised bank)
    let above = [ONE + 1, ONE + 2, ONE + (ONE >> 20), ONE + ONE / 100, ONE + ONE / 2, 2 * ONE];
    let xs = sweep_points(&curve, c.salt, &above);
    law_sweep(pre, &curve, &calc, &xs, &fees, true, obs)?;
    for (x, y, what) in [(0i128, 0i128, "0"), (c.opt, c.plat, "optimal"), (ONE, c.max, "1")] {
        let b = base_at(pre, &calc, x, obs)?;
        if b != y {
            return Err(viol("legacy:point-exact", format!("base({what}) = {} but the configured rate there is {}", fx(b), fx(y)), Some(x)));
        }
    }
    obs.label("legacy:accepted");
    if c.opt <= 2 || c.opt >= ONE - 2 {
        obs.label("legacy:optimal-within-2ulp-of-edge");
    }
    accrual_steps(pre, c, &curve, &calc, &fees, true, obs)?;

    // migration with the real instruction handler
    match migrate_via_ix(cfg) {
        Err(e) => {
            obs.label(&format!("legacy:migrate-rejected({})", if e.contains("InvalidConfig") { "InvalidConfig" } else { "other" }));
            Ok(())
        }
        Ok(new_cfg) => {
            obs.label("legacy:migrated");
            if new_cfg.curve_type != INTEREST_CURVE_SEVEN_POINT {
                return Err(viol("migrated:not-seven-point", format!("migrate_curve left curve_type {}", new_cfg.curve_type), None));
            }
            match accepted(&new_cfg) {
                Ok(true) => {}
                _ => return Err(viol("migrated:not-accepted", "migrate_curve succeeded but the resulting config fails validate()".into(), None)),
            }
            let mut mc = c.clone();
            mc.curve_type = INTEREST_CURVE_SEVEN_POINT;
            mc.zero = new_cfg.zero_util_rate;
            mc.hundred = new_cfg.hundred_util_rate;
            for i in 0..5 {
                mc.points[i] = (new_cfg.points[i].util, new_cfg.points[i].rate);
            }
            mc.opt = w_bits(new_cfg.optimal_utilization_rate);
            mc.plat = w_bits(new_cfg.plateau_interest_rate);
            mc.max = w_bits(new_cfg.max_interest_rate);
            // informational: how far the migrated curve is from the legacy one at its defining rates
            let cap = |y: i128| y.min(10 * ONE);
            let dev = [(mc.hundred, cap(c.max)), (mc.points[0].1, cap(c.plat))]
                .iter()
                .map(|(r, y)| ((map_rate(*r) - *y).abs() as f64) / ONE as f64)
                .fold(0f64, f64::max);
            if dev > obs.max_migrate_dev {
                obs.max_migrate_dev = dev;
            }
            check_seven("migrated:", &mc, &new_cfg, obs)
        }
    }
}

/// One accrual step per generated parameter set must succeed.
fn accrual_steps(
    pre: &str,
    c: &Case,
    curve: &Curve,
    calc: &InterestRateCalc,
    fees: &FeeSums,
    legacy: bool,
    obs: &mut Obs,
) -> Result<(), Viol> {
    // every APR the step multiplies by is <= hi*(1+Σ rate fees) + Σ fixed fees
    let apr_cap = ((curve.hi() * (ONE + fees.ir)) >> 48) + fees.fixed + 1;
    for a in &c.accr {
        let sel = a.u_sel;
        let r = ((sel >> 8) as i128) & ((1i128 << 48) - 1);
        let mut u_t = match sel % 8 {
            0 => curve.xs[1 + ((sel >> 3) as usize) % (curve.xs.len() - 1)],
            1 => ONE,
            2 => ONE + 1 + (r & ((1 << 30) - 1)),
            3 => ONE + r,
            4 => r >> 20,
            _ => r,
        };
        if legacy {
            // the legacy curve is unbounded above 100 %: keep the step inside the stated range
            u_t = u_t.min(ONE);
        }
        // liabilities = assets * u (generator arithmetic, precision irrelevant), at least 1 ulp
        let mut l_bits = ((a.a_bits >> 24) * u_t) >> 24;
        if legacy {
            l_bits = l_bits.min(a.a_bits);
        }
        let l_bits = l_bits.max(1);
        // keep principal*apr*dt representable so that a failure cannot be blamed on the totals
        let mut dt = a.dt;
        let den = BigInt::from(l_bits) * BigInt::from(apr_cap);
        let num: BigInt = BigInt::from(1) << (78 + 96);
        let dt_max = (num / den).to_u64().unwrap_or(u64::MAX).max(1);
        if dt > dt_max {
            dt = dt_max;
            obs.label("accrual:dt-clamped");
        }
        obs.evals += 1;
        let res = catch_unwind(AssertUnwindSafe(|| {
            calc_interest_rate_accrual_state_changes(
                dt,
                I80F48::from_bits(a.a_bits),
                I80F48::from_bits(l_bits),
                calc,
                I80F48::from_bits(a.asv_bits),
                I80F48::from_bits(a.lsv_bits),
            )
            .is_some()
        }));
        let ok = matches!(res, Ok(true));
        if !ok {
            // exact check that nothing about the totals makes the true results unrepresentable
            let lim = q_int(BigInt::from(1) << 78);
            let lq = q_bits(l_bits);
            let aq = q_bits(a.a_bits);
            let u = &lq / &aq;
            let aprq = q_bits(apr_cap);
            let dtq = q_int(dt);
            let year = q_int(31_536_000u64);
            let worst_sv = q_bits(a.asv_bits.max(a.lsv_bits)) * (q_one() + q_max(aprq.clone(), &aprq * &u) * &dtq / &year);
            let representable = u < lim && &lq * &aprq * &dtq < lim && worst_sv < lim;
            if !representable {
                obs.label("accrual:none-but-totals-unrepresentable");
                continue;
            }
            return Err(viol(
                &format!("{pre}accrual-fails"),
                format!(
                    "calc_interest_rate_accrual_state_changes(dt={dt}, assets={}, liabilities={}, asv={}, lsv={}) {} although every exact result is far below 2^79",
                    fx(a.a_bits), fx(l_bits), fx(a.asv_bits), fx(a.lsv_bits),
                    if res.is_err() { "panicked" } else { "returned None" }
                ),
                None,
            ));
        }
        obs.label(if l_bits > a.a_bits { "accrual:ok:u>1" } else { "accrual:ok:u<=1" });
    }
    Ok(())
}

fn check_case(c: &Case, obs: &mut Obs) -> Result<(), Viol> {
    let cfg = build_cfg(c);
    let acc = match accepted(&cfg) {
        Ok(a) => a,
        Err(e) => return Err(viol("validate-panics", e, None)),
    };
    if !acc {
        obs.label(&format!("rejected:{}", c.origin));
        return Ok(());
    }
    if c.origin.contains("malformed") {
        obs.label(&format!("accepted-after-mutation:{}", c.origin));
    }
    match c.curve_type {
        INTEREST_CURVE_SEVEN_POINT => check_seven("", c, &cfg, obs),
        _ => check_legacy(c, &cfg, obs),
    }
}

// ------------------------------------------------------------------------------------------
// run / replay
// ------------------------------------------------------------------------------------------
fn replay_json(c: &Case, v: &Viol) -> Value {
    let mut j = c.to_json();
    if let Some(u) = v.u_bits {
        j["u_bits"] = s128(u);
    }
    j
}

fn absorb(rep: &mut Report, c: &Case, obs: Obs, soft_seen: &mut BTreeSet<String>) {
    rep.eval();
    for l in &obs.labels {
        rep.label(l);
    }
    rep.add_extra("rate_evaluations", obs.evals);
    rep.set_max("seven_point_max_interpolation_error_ulps", obs.max_interp_err_ulps);
    rep.set_max("migrate_max_abs_rate_deviation_at_defining_points", obs.max_migrate_dev);
    if let Some(w) = &obs.nontrivial {
        rep.nontrivial_case(w);
        rep.sample(c.to_json());
    }
    for v in obs.soft {
        if soft_seen.insert(v.sig.clone()) {
            // hand-minimised witness: drop everything the clause does not depend on
            let mut m = c.clone();
            m.fees = [0; 4];
            m.prog = [0; 2];
            m.prog_on = false;
            m.accr.clear();
            m.zero = 0;
            m.hundred = 0;
            m.points = [(0, 0); 5];
            let mut o2 = Obs::default();
            let _ = check_case(&m, &mut o2);
            match o2.soft.into_iter().find(|x| x.sig == v.sig) {
                Some(v2) => rep.violation(&v2.sig, v2.msg.clone(), replay_json(&m, &v2)),
                None => rep.violation(&v.sig, v.msg.clone(), replay_json(c, &v)),
            }
        }
    }
}

pub fn run(ctx: &Ctx) -> Report {
    let total: u32 = ctx.tier.pick(1_600_000, 16_000_000);
    let threads = ctx.threads.max(1);
    let per = (total as usize / threads).max(1) as u32;
    let floor = ctx.tier.pick(100_000u64, 1_000_000);
    let mut rep = par_workers(threads, |w| {
        let mut rep = Report::new(RULE);
        rep.nontrivial_floor = floor;
        let mut soft_seen = BTreeSet::new();
        let strat = case_strategy();
        let out = run_prop(ctx.seed_bytes("c18", w as u64), per, &strat, |c, counting| {
            let mut obs = Obs::default();
            let r = check_case(c, &mut obs);
            if counting {
                absorb(&mut rep, c, obs, &mut soft_seen);
            }
            r.map_err(|v| v.sig)
        });
        if let Some((c, _)) = out.failure {
            let mut obs = Obs::default();
            if let Err(v) = check_case(&c, &mut obs) {
                rep.violation(&v.sig, v.msg.clone(), replay_json(&c, &v));
            } else {
                rep.engine_errors.push("C18: shrunk case no longer fails".into());
            }
        }
        rep
    });
    rep.assumptions = vec![
        "pure-function check: validate / create_interest_rate_calculator / calc_interest_rate / calc_interest_rate_accrual_state_changes are called directly; migrate_curve is called natively with a fabricated Context over a zeroed Bank".into(),
        "fee fields (4 bank + 2 program) are generated in [0,10]; validate() does not constrain them, larger fees can overflow the borrow rate independently of the curve".into(),
        "legacy rates are generated up to 2000 (200000 % APR); validate_legacy has no upper bound and rates near the I80F48 maximum overflow the borrow rate".into(),
        "utilisation < 0 is unreachable (non-negative amounts) and only recorded as a label; utilisation > 1 is reachable and checked up to 1e6 (seven-point) / 2 (legacy)".into(),
        "accrual step: assets <= 1e15, share values in [1e-3,1e3], dt <= 5 years and additionally dt is reduced so that liabilities*apr*dt < 2^78 (the program multiplies before dividing by the year)".into(),
    ];
    rep
}

pub fn replay(_ctx: &Ctx, case: &Value) -> Report {
    let mut rep = Report::new(RULE);
    rep.nontrivial_floor = 0;
    let Some(c) = Case::from_json(case) else {
        rep.engine_errors.push("C18 replay: cannot parse case".into());
        return rep;
    };
    let mut obs = Obs::default();
    let r = check_case(&c, &mut obs);
    let mut seen = BTreeSet::new();
    absorb(&mut rep, &c, obs, &mut seen);
    if let Err(v) = r {
        rep.violation(&v.sig, v.msg.clone(), replay_json(&c, &v));
    }
    rep
}
