//! C17 (integration-deposit half, state level): the venue deposit instructions (kamino_deposit, drift_deposit,
//! solend_deposit) cannot be executed here (their CPIs need the venue programs), but what they do to the books after
//! the CPI is one call: `BankAccountWrapper::find_or_create(..)?.deposit_no_repay(amount)`. This half builds real
//! banks through real instructions (the admin re-tags them Kamino / Drift / Solend and sets the deposit limit),
//! loads the bank and a marginfi account from the store and drives that bookkeeping path natively with amounts around
//! the remaining capacity: after every accepted deposit total deposits are below the limit and the bank total moved by
//! exactly what the position moved.
use crate::common::*;
use crate::num::*;
use crate::world::*;
use fixed::types::I80F48;
use marginfi::state::marginfi_account::BankAccountWrapper;
use marginfi_type_crate::types::BankConfigOpt;
use proptest::prelude::*;
use serde::{Deserialize, Serialize};
use serde_json::{json, Value};
use std::panic::{catch_unwind, AssertUnwindSafe};

#[derive(Clone, Debug, Serialize, Deserialize)]
pub struct ICase {
    /// 3 Kamino, 4 Drift, 5 Solend
    pub tag: u8,
    pub decimals: u8,
    pub limit: u64,
    /// deposits: (user 0..3, rel 0 absolute / 1 = remaining capacity + delta - 2, amount or delta)
    pub deposits: Vec<(u8, u8, u64)>,
}

pub fn case_strategy() -> impl Strategy<Value = ICase> {
    (
        3u8..=5,
        prop_oneof![Just(6u8), Just(9u8), 0u8..=9],
        prop_oneof![1 => 1u64..1000, 3 => 1000u64..1_000_000_000_000, 1 => Just(u64::MAX - 1)],
        prop::collection::vec((0u8..3, 0u8..2, prop_oneof![2 => 0u64..5, 3 => 1u64..1_000_000, 2 => 1_000_000u64..2_000_000_000_000]), 1..8),
    )
        .prop_map(|(tag, decimals, limit, deposits)| ICase { tag, decimals, limit, deposits })
}

#[derive(Default, Debug)]
pub struct Stats {
    pub built: bool,
    pub accepted: u64,
    pub refused: u64,
    pub at_frontier: bool,
}

pub fn run_case(c: &ICase, st: &mut Stats) -> Result<(), (String, String)> {
    let mut b = BankSpec::default();
    b.decimals = c.decimals;
    b.oracle = OracleSpec::fixed(1_000_000, -6);
    b.deposit_limit = c.limit;
    let spec = WorldSpec { banks: vec![b], n_users: 3, program_fees_enabled: false, ..WorldSpec::default() };
    let Ok(mut w) = World::build(&spec) else { return Ok(()) };
    let mut o = BankConfigOpt::default();
    o.asset_tag = Some(c.tag);
    if w.vm.exec(&w.ix_configure_bank(0, o, w.roles.admin)).is_err() {
        return Ok(());
    }
    st.built = true;
    crate::svm::set_thread_clock(1, w.vm.now());
    let key = w.banks[0].key;
    // Drift positions are kept in 9-decimal scaled-balance units: the limit (native units of the mint) is compared in
    // those units
    let eff_limit: Q = if c.tag == 4 { q_int(c.limit) * pow10(9) / pow10(c.decimals as u32) } else { q_int(c.limit) };
    let mut bank = w.bank(0);
    let mut accts: Vec<_> = w.users.iter().map(|u| w.macct(&u.accts[0])).collect();
    for (ui, rel, x) in &c.deposits {
        let ui = *ui as usize % accts.len();
        let total = q_w(bank.total_asset_shares) * q_w(bank.asset_share_value);
        let remaining = {
            use num_traits::ToPrimitive;
            (&eff_limit - &total).to_integer().to_u64().unwrap_or(0)
        };
        let amount = if *rel == 1 { (remaining as i128 + (*x % 5) as i128 - 2).clamp(0, u64::MAX as i128) as u64 } else { *x };
        if *rel == 1 {
            st.at_frontier = true;
        }
        let pre_total = crate::snap::bits(bank.total_asset_shares);
        let pre_pos: i128 = accts[ui].lending_account.balances.iter().filter(|b| b.active != 0 && b.bank_pk == key).map(|b| crate::snap::bits(b.asset_shares)).sum();
        let mut bank2 = bank;
        let mut acct2 = accts[ui];
        let r = catch_unwind(AssertUnwindSafe(|| -> Result<(), ()> {
            let mut wr = BankAccountWrapper::find_or_create(&key, &mut bank2, &mut acct2.lending_account).map_err(|_| ())?;
            wr.deposit_no_repay(I80F48::from_num(amount)).map_err(|_| ())
        }));
        match r {
            Ok(Ok(())) => {
                st.accepted += 1;
                let post_total_q = q_w(bank2.total_asset_shares) * q_w(bank2.asset_share_value);
                let grew = crate::snap::bits(bank2.total_asset_shares) > pre_total;
                if grew && c.limit != u64::MAX && post_total_q >= eff_limit {
                    return Err((
                        "caps:deposit-limit:integration-deposit-path".into(),
                        format!("deposit_no_repay({amount}) (the books of a {} deposit) succeeded and left total deposits {} >= limit {}", ["kamino", "drift", "solend"][(c.tag as usize) % 3], q_str(&post_total_q), q_str(&eff_limit)),
                    ));
                }
                let post_pos: i128 = acct2.lending_account.balances.iter().filter(|b| b.active != 0 && b.bank_pk == key).map(|b| crate::snap::bits(b.asset_shares)).sum();
                if crate::snap::bits(bank2.total_asset_shares) - pre_total != post_pos - pre_pos {
                    return Err(("caps:integration-deposit-path:ledger".into(), format!("deposit_no_repay({amount}): bank total moved by {} share-bits, the position by {}", crate::snap::bits(bank2.total_asset_shares) - pre_total, post_pos - pre_pos)));
                }
                bank = bank2;
                accts[ui] = acct2;
            }
            _ => st.refused += 1,
        }
    }
    Ok(())
}

pub const RULE: &str = "state level (the venue deposit instructions need the absent venue programs): banks built through real instructions, re-tagged Kamino / Drift / Solend with generated deposit limits; the bookkeeping call of the integration deposit handlers, BankAccountWrapper::find_or_create + deposit_no_repay, driven natively on the bank and account structs loaded from the store with amounts 0..2e12 and amounts at remaining capacity -2..+2: every accepted deposit leaves total deposits below the limit and moves the bank total by exactly the position's change. Non-trivial = a case with an accepted and a refused deposit at the capacity frontier.";

pub fn run(ctx: &Ctx) -> Report {
    let cases: u32 = ctx.tier.pick(400, 40_000);
    par_workers(ctx.threads, |wi| {
        let mut rep = Report::new(RULE);
        let strat = case_strategy();
        let outcome = run_prop(ctx.seed_bytes("c17b", wi as u64), cases, &strat, |c, counting| {
            let mut st = Stats::default();
            let r = run_case(c, &mut st);
            if counting {
                rep.eval();
                rep.add_extra("integration_path_deposits_accepted", st.accepted);
                rep.add_extra("integration_path_deposits_refused", st.refused);
                if st.built && st.at_frontier && st.accepted > 0 && st.refused > 0 {
                    rep.nontrivial_case(&json!({"i": c.tag, "d": c.decimals, "n": c.deposits.len(), "l": c.limit % 1000}));
                }
            }
            r.map_err(|(s, m)| format!("{s}|{m}"))
        });
        if let Some((c, msg)) = outcome.failure {
            let (sig, m) = msg.split_once('|').map(|(a, b)| (a.to_string(), b.to_string())).unwrap_or((msg.clone(), msg.clone()));
            let mut v = serde_json::to_value(&c).unwrap();
            v["half"] = json!("c17b");
            rep.violation(&sig, m, v);
        }
        rep
    })
}

pub fn replay(_ctx: &Ctx, case: &Value) -> Report {
    let mut rep = Report::new(RULE);
    rep.nontrivial_floor = 0;
    match serde_json::from_value::<ICase>(case.clone()) {
        Ok(c) => {
            let mut st = Stats::default();
            rep.eval();
            if let Err((sig, msg)) = run_case(&c, &mut st) {
                rep.violation(&sig, msg, case.clone());
            }
        }
        Err(e) => rep.engine_errors.push(format!("bad replay: {e}")),
    }
    rep
}
