//! C05 — classic liquidation: only when unhealthy, improves health, bounded, exact 95 / 97.5 / 2.5 split.
use crate::common::*;
use crate::model::*;
use crate::num::*;
use crate::outln;
use crate::props::c04::c04_bank_strategy_pub;
use crate::snap::{bank_snap, bits};
use crate::svm::{err_code, Vm};
use crate::world::*;
use num_traits::{Signed, ToPrimitive, Zero};
use proptest::prelude::*;
use serde::{Deserialize, Serialize};
use serde_json::{json, Value};
use solana_program::pubkey::Pubkey;

#[derive(Clone, Debug, Serialize, Deserialize)]
pub struct LiqCase {
    pub spec: WorldSpec,
    pub collateral: u64,
    /// fraction (x/65536) of the borrowing power used
    pub borrow_frac: u32,
    /// extra collateral of the liquidatee in bank 2 (0 = none)
    pub extra_collateral: u64,
    /// target maintenance health as a signed per-mille of liabilities (negative = unhealthy)
    pub target_pm: i32,
    /// liquidator: deposit in the liability bank as a fraction (x/65536) of the liquidatee's debt (can be > 1)
    pub liq_deposit_frac: u32,
    /// liquidator collateral in bank 2
    pub liq_collateral: u64,
    /// seize amount: rel 0 absolute, 1 fraction of the collateral position, 2 position + (amt % 5) - 2
    pub q: u64,
    pub q_rel: u8,
    pub wait: u32,
    /// the collateral bank's e-mode tag is boosted by an entry of the debt bank (maintenance health then depends on it)
    #[serde(default)]
    pub emode: bool,
    /// the admin sets the collateral bank reduce-only after the borrow (its deposits still count at maintenance)
    #[serde(default)]
    pub reduce_only_collateral: bool,
    /// the oracle of the EXTRA collateral bank (neither seized nor repaid) is stale when the liquidation is attempted:
    /// the liquidatee's maintenance health cannot be assessed, so the liquidation must not succeed
    #[serde(default)]
    pub stale_extra: bool,
    /// when the liquidatee holds no extra collateral: it opens a position in bank 2 and empties it again with a plain
    /// withdraw, so that an open slot with zero shares stays behind (it must not influence any valuation — e-mode
    /// reconciliation in particular: bank 2 has no e-mode entries)
    #[serde(default)]
    pub emptied_slot: bool,
    /// somebody borrows from the COLLATERAL bank, so that by the time of the liquidation its deposit share value is no
    /// longer 1 and the liquidatee's collateral is a fractional number of native units (seize amounts around it:
    /// floor, ceil, ceil + 1 - the seized collateral must never flip into a debt of the liquidatee)
    #[serde(default)]
    pub collateral_interest: bool,
}

pub fn case_strategy() -> impl Strategy<Value = LiqCase> {
    (
        prop::collection::vec(c04_bank_strategy_pub(), 3..=3),
        prop_oneof![100u64..100_000, 100_000u64..10_000_000_000, 10_000_000_000u64..10_000_000_000_000_000],
        20_000u32..=65_536,
        prop_oneof![2 => Just(0u64), 1 => 1u64..1_000_000_000],
        prop_oneof![3 => -400i32..-1, 2 => -1000i32..-400, 2 => Just(-1i32), 1 => Just(0i32), 2 => 1i32..300],
        prop_oneof![1 => Just(0u32), 2 => 1u32..65_536, 3 => 65_536u32..400_000],
        prop_oneof![1 => Just(0u64), 2 => 1_000_000u64..1_000_000_000_000_000],
        (prop_oneof![2 => 1u64..1000, 2 => 1000u64..1_000_000_000_000, 6 => 1u64..=65_536, 2 => 0u64..5], 0u8..3),
        (prop_oneof![Just(0u32), 1u32..90, 1000u32..20_000_000], prop::bool::weighted(0.35), prop::bool::weighted(0.15), prop::bool::weighted(0.3)),
        // staked world: the collateral (and the extra bank) are real staked-collateral banks, the debt bank is SOL-tagged
        (prop::bool::weighted(0.12), prop::array::uniform2((1_000_000_000u64..2_000_000_000_000_000, 500u32..3000)), prop::bool::weighted(0.4), prop::bool::weighted(0.3)),
    )
        .prop_map(|(mut banks, collateral, borrow_frac, extra_collateral, target_pm, liq_deposit_frac, liq_collateral, (q, qr), (wait, emode, reduce_only_collateral, stale_extra), (staked_world, pools, emptied_slot, collateral_interest))| {
            let collateral_interest = collateral_interest && !staked_world;
            // with a fractional collateral balance half of the seize amounts sit right at it
            let (q, qr) = if collateral_interest && q % 2 == 0 { (q % 5, 2u8) } else { (q, qr) };
            let wait = if collateral_interest && wait < 1000 { 1000 + wait * 7919 } else { wait };
            let emode = emode && !staked_world;
            if staked_world {
                let mut feed = banks[1].oracle.clone();
                if feed.kind != 1 {
                    feed = OracleSpec::pyth(feed.mant, feed.expo, (feed.mant as u64) / 400);
                }
                banks[1].oracle = feed.clone();
                banks[1].asset_tag = 1;
                banks[1].isolated = false;
                for (j, i) in [0usize, 2usize].into_iter().enumerate() {
                    let (supply, rate_pm) = pools[j];
                    banks[i].staked = Some(StakedSpec { supply, stake: ((supply as u128 * rate_pm as u128 / 1000) as u64).saturating_add(1_000_000_000) });
                    banks[i].oracle = OracleSpec { kind: 3, ..feed.clone() };
                    banks[i].asset_tag = 2;
                    banks[i].token = 0;
                    banks[i].decimals = 9;
                    banks[i].aw_i = banks[i].aw_i.min(1_000_000);
                    banks[i].aw_m = banks[i].aw_m.max(banks[i].aw_i);
                }
            }
            // bank 0 = collateral (must carry weight), bank 1 = liability (default tag), bank 2 = extra collateral
            let emode = emode && !banks[1].emode_entries.is_empty();
            let boosted_tag = banks[1].emode_entries.first().map(|e| e.tag).unwrap_or(0);
            for (i, b) in banks.iter_mut().enumerate() {
                // the collateral bank keeps its generated collateral-value cap (it discounts the INITIAL weight only, so
                // maintenance health - the liquidation criterion - must not feel it); no cap elsewhere
                if i != 0 {
                    b.init_limit = 0;
                }
                if emode {
                    // the debt bank keeps its generated entries; the collateral bank carries the tag of the first one
                    if i == 0 {
                        b.emode_tag = boosted_tag;
                    }
                    if i != 1 {
                        b.emode_entries.clear();
                    }
                } else {
                    b.emode_tag = 0;
                    b.emode_entries.clear();
                }
                if i != 1 {
                    b.isolated = false;
                    if b.aw_i < 50_000 {
                        b.aw_i += 100_000;
                    }
                    if b.aw_m < b.aw_i {
                        b.aw_m = b.aw_i;
                    }
                }
                // keep confidence below the 10% usability bound
            }
            let q_rel = if q <= 65_536 && qr == 1 { 1 } else if q < 5 && qr == 2 { 2 } else { 0 };
            LiqCase { spec: WorldSpec { banks, n_users: 3, program_fees_enabled: false, ..WorldSpec::default() }, collateral, borrow_frac, extra_collateral, target_pm, liq_deposit_frac, liq_collateral, q, q_rel, wait, emode, reduce_only_collateral, stale_extra: stale_extra && extra_collateral > 0, emptied_slot, collateral_interest }
        })
}

#[derive(Default, Debug)]
pub struct Stats {
    pub built: bool,
    pub steered: bool,
    pub success: bool,
    pub err: Option<u64>,
    pub conf_both: bool,
    pub dec_differ: bool,
    pub frontier: bool,
    pub max_width: f64,
    pub pre_health_sign: i8,
    pub stale_extra: bool,
    pub emptied_slot: bool,
    pub hostile_tried: u64,
    pub hostile_accepted: u64,
    /// the liquidatee's collateral was a fractional number of native units when the liquidation ran
    pub fractional_collateral: bool,
    /// ... and the seize amount was floor / ceil / above
    pub seize_vs_balance: &'static str,
    /// the liquidation as generated (not a hostile variant, not the bisection) succeeded
    pub first_ok: bool,
}

fn pos_bits(vm: &Vm, acct: &Pubkey, bank: &Pubkey) -> (i128, i128) {
    read_macct(vm, acct)
        .and_then(|a| a.lending_account.balances.iter().find(|b| b.active != 0 && b.bank_pk == *bank).map(|b| (bits(b.asset_shares), bits(b.liability_shares))))
        .unwrap_or((0, 0))
}

fn net_value(vm: &Vm, acct: &Pubkey, bank: &Pubkey) -> Q {
    let (a, l) = pos_bits(vm, acct, bank);
    let b = read_bank(vm, bank);
    q_bits(a) * q_w(b.asset_share_value) - q_bits(l) * q_w(b.liability_share_value)
}

fn maint(vm: &Vm, acct: &Pubkey) -> Option<Health> {
    let a = read_macct(vm, acct)?;
    Some(health(vm, &a, Req::Maintenance, vm.now()))
}

/// All assertions for one successful liquidation. `pre` is the committed state before, `pre_acc`
/// the same state with both banks accrued to now (what the handler sees), `post` the state after.
#[allow(clippy::too_many_arguments)]
fn check_success(w: &World, pre: &Vm, pre_acc: &Vm, post: &Vm, liquidatee: &Pubkey, liquidator: &Pubkey, ab: usize, lb: usize, q: u64, stats: &mut Stats) -> Result<(), (String, String)> {
    let akey = w.banks[ab].key;
    let lkey = w.banks[lb].key;
    // (1) was unhealthy beforehand (judged with the two transacted banks accrued to now, as the handler sees them)
    let h_pre_s = maint(pre, liquidatee).ok_or(("engine".to_string(), "no account".to_string()))?;
    let h_pre_a = maint(pre_acc, liquidatee).unwrap();
    let (Some(hs), Some(ha)) = (h_pre_s.health(), h_pre_a.health()) else {
        return Err(("liq:success-with-unusable-oracle".into(), "liquidation succeeded although an oracle of the liquidatee is unusable".into()));
    };
    stats.max_width = stats.max_width.max(q_f64(&ha.width()));
    stats.pre_health_sign = if ha.hi.is_negative() { -1 } else if ha.lo.is_positive() { 1 } else { 0 };
    // The reading that counts is the one with the two banks the liquidation transacts in brought up to date (C06: a
    // liquidation first accrues them, "so nobody can transact against stale share values"; the handler does exactly
    // that before it looks at the health, and `pre_acc` accrues the same two banks and no other). The stored reading is
    // reported for information only: an account that is unhealthy only on stale share values is NOT unhealthy.
    if (&ha.lo - &h_pre_a.ignored).is_positive() {
        return Err((
            "liq:healthy-account-liquidated".into(),
            format!("liquidation succeeded although maintenance health, with both banks' interest brought up to date, was at least {} (on the stored share values: at least {})", q_str(&ha.lo), q_str(&hs.lo)),
        ));
    }
    // (2) afterwards not positive, (3) not worse
    let h_post = maint(post, liquidatee).unwrap();
    let Some(hp) = h_post.health() else { return Err(("liq:post-undefined".into(), "post health undefined".into())) };
    if (&hp.lo - &h_post.ignored).is_positive() {
        return Err(("liq:ended-healthy".into(), format!("after the liquidation maintenance health is at least {} > 0 (over-liquidation)", q_str(&hp.lo))));
    }
    if &hp.hi + &h_post.ignored < &ha.lo - &h_pre_a.ignored {
        return Err(("liq:health-worse".into(), format!("maintenance health went from >= {} to <= {}", q_str(&ha.lo), q_str(&hp.hi))));
    }
    // (4) no flips on the liquidatee
    let thr = q_ratio(1, 10_000);
    let lbank = read_bank(post, &lkey);
    let abank = read_bank(post, &akey);
    let (la, _ll) = pos_bits(post, liquidatee, &lkey);
    if q_bits(la) * q_w(lbank.asset_share_value) >= thr {
        return Err(("liq:debt-flipped-to-deposit".into(), "the liquidatee's repaid debt became a deposit".into()));
    }
    let (_aa, al) = pos_bits(post, liquidatee, &akey);
    if q_bits(al) * q_w(abank.liability_share_value) >= thr {
        return Err(("liq:collateral-flipped-to-debt".into(), "the liquidatee's seized collateral became a debt".into()));
    }
    // (5) liquidator initially healthy
    let la_acct = read_macct(post, liquidator).unwrap();
    let hl = health(post, &la_acct, Req::Initial, post.now());
    match hl.health() {
        None => return Err(("liq:liquidator-undefined".into(), "liquidator health undefined after success".into())),
        Some(x) => {
            if (&x.hi + &hl.ignored).is_negative() {
                return Err(("liq:liquidator-unhealthy".into(), format!("liquidator initial health is at most {}", q_str(&x.hi))));
            }
        }
    }
    // (6) quantities: enclosure of the documented formulas evaluated on the accrued pre-state
    let a_pre = read_bank(pre_acc, &akey);
    let l_pre = read_bank(pre_acc, &lkey);
    let ova = oracle_view(pre_acc, &a_pre, pre_acc.now());
    let ovl = oracle_view(pre_acc, &l_pre, pre_acc.now());
    let (Some(pa), Some(pl)) = (ova.low(PriceKind::Spot), ovl.high(PriceKind::Spot)) else {
        return Err(("liq:success-with-unusable-oracle".into(), "asset or liability oracle unusable".into()));
    };
    if !pa.hi.is_positive() || !pl.lo.is_positive() {
        return Err(("liq:non-positive-price-used".into(), format!("liquidation sized with asset price <= {} / liability price >= {}", q_str(&pa.hi), q_str(&pl.lo))));
    }
    if ova.band(PriceKind::Spot).map(|b| b.is_positive()).unwrap_or(false) && ovl.band(PriceKind::Spot).map(|b| b.is_positive()).unwrap_or(false) {
        stats.conf_both = true;
    }
    stats.dec_differ = a_pre.mint_decimals != l_pre.mint_decimals;
    let da = pow10(a_pre.mint_decimals as u32);
    let dl = pow10(l_pre.mint_decimals as u32);
    let quant = |disc: Q| -> Iv {
        let d = Iv::point(disc).widen(&(q_int(2) * ulp()));
        Iv::point(q_int(q)).mul(&d).trunc().mul(&pa).trunc().mul_q(&(q_one() / &da)).trunc().mul_q(&dl).trunc().div_pos(&pl).trunc()
    };
    let q_ll = quant(q_ratio(975, 1000));
    let q_lf = quant(q_ratio(950, 1000));
    let fee = q_ll.sub(&q_lf);
    // share-truncation allowance on each book entry
    let sv_l = q_max(q_one(), q_max(q_w(l_pre.asset_share_value), q_w(l_pre.liability_share_value)));
    let sv_a = q_max(q_one(), q_max(q_w(a_pre.asset_share_value), q_w(a_pre.liability_share_value)));
    let ul = q_int(8) * ulp() * &sv_l;
    let ua = q_int(8) * ulp() * &sv_a;
    // liquidatee: debt relief in L == q_lf ; collateral -q in A
    let d_le_l = net_value(post, liquidatee, &lkey) - net_value(pre_acc, liquidatee, &lkey);
    if d_le_l < &q_lf.lo - &ul || d_le_l > &q_lf.hi + &ul {
        return Err(("liq:debt-relief-amount".into(), format!("liquidatee debt relief {} outside [{}, {}] (95% of seized value)", q_str(&d_le_l), q_str(&q_lf.lo), q_str(&q_lf.hi))));
    }
    let d_le_a = net_value(post, liquidatee, &akey) - net_value(pre_acc, liquidatee, &akey);
    if (&d_le_a + q_int(q)).abs() > ua {
        return Err(("liq:collateral-seized-amount".into(), format!("liquidatee collateral changed by {} for a seize of {}", q_str(&d_le_a), q)));
    }
    // liquidator: +q in A, -q_ll in L
    let d_lq_a = net_value(post, liquidator, &akey) - net_value(pre_acc, liquidator, &akey);
    if (&d_lq_a - q_int(q)).abs() > ua {
        return Err(("liq:liquidator-collateral-amount".into(), format!("liquidator collateral position changed by {} for a seize of {}", q_str(&d_lq_a), q)));
    }
    let d_lq_l = net_value(post, liquidator, &lkey) - net_value(pre_acc, liquidator, &lkey);
    let neg = -d_lq_l.clone();
    if neg < &q_ll.lo - &ul || neg > &q_ll.hi + &ul {
        return Err(("liq:liquidator-payment-amount".into(), format!("liquidator's position in the debt bank fell by {} outside [{}, {}] (97.5% of seized value)", q_str(&neg), q_str(&q_ll.lo), q_str(&q_ll.hi))));
    }
    // insurance: whole tokens leave the liquidity vault, the fraction is booked as outstanding insurance fee
    let (bs0, bs1) = (bank_snap(pre_acc, &lkey).unwrap(), bank_snap(post, &lkey).unwrap());
    let vault_out = q_int(bs0.vault) - q_int(bs1.vault);
    let d_fins = &bs1.f_ins - &bs0.f_ins;
    let total = &vault_out + &d_fins;
    let uf = &ul + &ul;
    if total < &fee.lo - &uf || total > &fee.hi + &uf {
        return Err(("liq:insurance-fee-amount".into(), format!("insurance received {} (vault {} + outstanding {}) outside [{}, {}] (2.5% of seized value)", q_str(&total), q_str(&vault_out), q_str(&d_fins), q_str(&fee.lo), q_str(&fee.hi))));
    }
    if d_fins.is_negative() || d_fins >= q_one() {
        return Err(("liq:insurance-fee-fraction".into(), format!("outstanding insurance fee changed by {} (must be the fractional part)", q_str(&d_fins))));
    }
    // the whole tokens arrive in the insurance vault (net of a Token-2022 transfer fee)
    let ins_in = q_int(bs1.ins_vault) - q_int(bs0.ins_vault);
    if ins_in > vault_out || (w.banks[lb].spec.token != 2 && ins_in != vault_out) {
        return Err(("liq:insurance-vault-credit".into(), format!("liquidity vault paid {} but insurance vault received {}", q_str(&vault_out), q_str(&ins_in))));
    }
    Ok(())
}

pub fn run_case(c: &LiqCase, stats: &mut Stats) -> Result<(), (String, String)> {
    let Ok(mut w) = World::build(&c.spec) else { return Ok(()) };
    let (ab, lb, xb) = (0usize, 1usize, 2usize);
    let lender = w.users[0].clone();
    let le = w.users[1].clone();
    let lq = w.users[2].clone();
    for bi in [lb, xb] {
        let ix = w.ix_deposit(lender.accts[0], lender.auth, bi, lender.tokens[bi], 1_000_000_000_000_000, None);
        let _ = w.vm.exec(&ix);
    }
    let ix = w.ix_deposit(le.accts[0], le.auth, ab, le.tokens[ab], c.collateral, None);
    if w.vm.exec(&ix).is_err() {
        return Ok(());
    }
    if c.extra_collateral > 0 {
        let ix = w.ix_deposit(le.accts[0], le.auth, xb, le.tokens[xb], c.extra_collateral, None);
        let _ = w.vm.exec(&ix);
    } else if c.emptied_slot {
        if w.vm.exec(&w.ix_deposit(le.accts[0], le.auth, xb, le.tokens[xb], 1000, None)).is_ok() && w.vm.exec(&w.ix_withdraw(le.accts[0], le.auth, xb, le.tokens[xb], 1000, None)).is_ok() {
            stats.emptied_slot = true;
        }
    }
    if c.collateral_interest {
        // the lender borrows three tenths of the collateral bank's liquidity: its deposits start to earn interest
        let amt = (c.collateral as u128 * 3 / 10) as u64;
        if amt > 0 {
            let _ = w.vm.exec(&w.ix_borrow(lender.accts[0], lender.auth, ab, lender.tokens[ab], amt));
        }
    }
    // borrow
    let power = {
        let a = read_macct(&w.vm, &le.accts[0]).unwrap();
        let h = health(&w.vm, &a, Req::Initial, w.vm.now());
        let bank = w.bank(lb);
        let ov = oracle_view(&w.vm, &bank, w.vm.now());
        match (h.health(), ov.high(PriceKind::Ema)) {
            (Some(hh), Some(p)) if hh.lo.is_positive() && p.hi.is_positive() => q_floor(&(&hh.lo / (&p.hi * q_w(bank.config.liability_weight_init)) * pow10(bank.mint_decimals as u32))).to_u64().unwrap_or(0),
            _ => 0,
        }
    };
    let amt = ((power as u128 * c.borrow_frac as u128) >> 16) as u64;
    if amt == 0 {
        return Ok(());
    }
    let ix = w.ix_borrow(le.accts[0], le.auth, lb, le.tokens[lb], amt);
    if w.vm.exec(&ix).is_err() {
        return Ok(());
    }
    // liquidator funding
    let debt = amt;
    let dep = ((debt as u128 * c.liq_deposit_frac as u128) >> 16).min(u64::MAX as u128 / 4) as u64;
    if dep > 0 {
        let ix = w.ix_deposit(lq.accts[0], lq.auth, lb, lq.tokens[lb], dep, None);
        let _ = w.vm.exec(&ix);
    }
    if c.liq_collateral > 0 {
        let ix = w.ix_deposit(lq.accts[0], lq.auth, xb, lq.tokens[xb], c.liq_collateral, None);
        let _ = w.vm.exec(&ix);
    }
    if c.reduce_only_collateral {
        let mut o = marginfi_type_crate::types::BankConfigOpt::default();
        o.operational_state = Some(marginfi_type_crate::types::BankOperationalState::ReduceOnly);
        let ix = w.ix_configure_bank(ab, o, w.roles.admin);
        let _ = w.vm.exec(&ix);
    }
    w.vm.advance(c.wait as i64);
    w.refresh_oracles();
    stats.built = true;
    // steer the collateral price so that maintenance health = target_pm/1000 * liabilities
    {
        let a = read_macct(&w.vm, &le.accts[0]).unwrap();
        let h = health(&w.vm, &a, Req::Maintenance, w.vm.now());
        if let (Some(assets), Some(liabs)) = (h.assets.clone(), h.liabs.clone()) {
            let vj = h.positions.iter().find(|p| !p.is_liab && p.bank == w.banks[ab].key).map(|p| p.value.lo.clone()).unwrap_or_else(q_zero);
            if vj.is_positive() {
                let want = &liabs.hi + q_ratio(c.target_pm as i64, 1000i64) * &liabs.hi - (&assets.lo - &vj);
                if want.is_positive() {
                    let f = want / &vj;
                    let o = w.banks[ab].spec.oracle.clone();
                    let nm = q_floor(&(q_int(o.mant) * &f)).to_i64().unwrap_or(i64::MAX / 4).clamp(1, i64::MAX / 4);
                    let conf = ((o.conf as u128).saturating_mul(nm as u128) / (o.mant.max(1) as u128)) as u64;
                    let ema = ((o.ema_mant as u128).saturating_mul(nm as u128) / (o.mant.max(1) as u128)).clamp(1, (i64::MAX / 4) as u128) as i64;
                    let _ = w.set_price(ab, nm, conf, ema, conf);
                    stats.steered = true;
                }
            }
        }
    }
    // the extra collateral's oracle goes stale (only Pyth / Switchboard feeds can)
    if c.stale_extra && c.extra_collateral > 0 {
        let o = w.banks[xb].spec.oracle.clone();
        if let Some(a) = o.account(w.vm.now() - o.max_age as i64 - 1) {
            w.vm.set(w.banks[xb].oracle_key, a);
            stats.stale_extra = true;
        }
    }
    // the liquidation
    let pre = w.vm.clone();
    let mut pre_acc = w.vm.clone();
    let _ = pre_acc.exec(&w.ix_accrue(ab));
    let _ = pre_acc.exec(&w.ix_accrue(lb));
    // the collateral balance the handler will see (interest accrued to now)
    let pos_exact = {
        let (a, _) = pos_bits(&pre_acc, &le.accts[0], &w.banks[ab].key);
        q_bits(a) * q_w(read_bank(&pre_acc, &w.banks[ab].key).asset_share_value)
    };
    let pos_val = q_floor(&pos_exact).to_u64().unwrap_or(0);
    stats.fractional_collateral = pos_exact != q_int(pos_val);
    let q = match c.q_rel {
        1 => ((pos_val as u128 * c.q.min(65_536) as u128) >> 16) as u64,
        2 => (pos_val as i128 + (c.q % 5) as i128 - 2).clamp(0, u64::MAX as i128) as u64,
        _ => c.q,
    };
    stats.seize_vs_balance = if q_int(q) <= pos_exact { "within" } else if q == pos_val.saturating_add(1) && stats.fractional_collateral { "ceil" } else { "above" };
    let attempt = |w: &World, q: u64| -> (Vm, Result<(), u64>) {
        let mut vm = w.vm.clone();
        let ix = w.ix_liquidate(lq.accts[0], lq.auth, le.accts[0], ab, lb, q);
        let r = vm.exec(&ix).map_err(|e| err_code(&e));
        (vm, r)
    };
    let (post, r) = attempt(&w, q);
    match r {
        Ok(()) => {
            stats.success = true;
            stats.first_ok = true;
            check_success(&w, &pre, &pre_acc, &post, &le.accts[0], &lq.accts[0], ab, lb, q, stats)?;
        }
        Err(e) => stats.err = Some(e),
    }
    // hostile presentation: the same liquidation with the liquidatee's extra collateral left out of the observation
    // accounts (it would make the account look unhealthier), or with all of the liquidatee's observation accounts
    // missing. Whatever the program accepts is judged like every other success.
    if c.extra_collateral > 0 {
        let ix0 = w.ix_liquidate(lq.accts[0], lq.auth, le.accts[0], ab, lb, q.max(1));
        let xkey = w.banks[xb].key;
        let glen = w.risk_metas_for_bank(&xkey).len();
        let mut variants: Vec<solana_program::instruction::Instruction> = vec![];
        if let Some(pos) = ix0.accounts.iter().rposition(|m| m.pubkey == xkey) {
            let mut ix = ix0.clone();
            ix.accounts.drain(pos..(pos + glen).min(ix.accounts.len()));
            variants.push(ix);
            // another bank's group presented in the extra collateral's place (a cheap bank standing in for a dear one)
            for other in [ab, lb] {
                let mut ix = ix0.clone();
                let g = w.risk_metas_for_bank(&w.banks[other].key);
                ix.accounts.splice(pos..(pos + glen).min(ix.accounts.len()), g);
                variants.push(ix);
            }
        }
        // drop the whole liquidatee segment: everything after the last account of the liquidator's own list
        let n_le = w.risk_metas(&le.accts[0], None, None).len();
        if n_le > 0 && ix0.accounts.len() > n_le {
            let mut ix = ix0.clone();
            let keep = ix.accounts.len() - n_le;
            ix.accounts.truncate(keep);
            variants.push(ix);
        }
        for ix in variants {
            let mut vm = w.vm.clone();
            stats.hostile_tried += 1;
            if vm.exec(&ix).is_ok() {
                stats.hostile_accepted += 1;
                stats.success = true;
                check_success(&w, &pre, &pre_acc, &vm, &le.accts[0], &lq.accts[0], ab, lb, q.max(1), stats)?;
            }
        }
    }
    // boundary driver: largest seize amount that still succeeds
    let (_, r1) = attempt(&w, 1);
    if r1.is_ok() && pos_val > 1 {
        let (mut lo, mut hi) = (1u64, pos_val.saturating_add(2));
        let (vhi, rhi) = attempt(&w, hi);
        let mut best: Option<Vm> = None;
        if rhi.is_ok() {
            lo = hi;
            best = Some(vhi);
        } else {
            while hi - lo > 1 {
                let mid = lo + (hi - lo) / 2;
                let (v, r) = attempt(&w, mid);
                if r.is_ok() {
                    lo = mid;
                    best = Some(v);
                } else {
                    hi = mid;
                }
            }
        }
        if let Some(v) = best {
            stats.frontier = true;
            stats.success = true;
            check_success(&w, &pre, &pre_acc, &v, &le.accts[0], &lq.accts[0], ab, lb, lo, stats)?;
        }
    }
    Ok(())
}

const RULE: &str = "proptest: 3-bank worlds (collateral / debt / extra bank with generated decimals 0-12, SPL / Token-2022 / transfer-fee mints, weights, Pyth-Switchboard-fixed oracles with confidence; in 35 % of the cases the debt bank's e-mode entry boosts the collateral bank's tag, in 15 % the collateral bank is set reduce-only after the borrow), liquidatee borrows a generated fraction of its borrowing power, collateral price steered so that maintenance health lands at a generated target in {very negative .. slightly negative, 0, positive}, liquidator funded with too little / enough deposit or other collateral, seize amounts absolute / fraction of / exactly around the collateral position (in 30 % of the cases a third party borrows from the collateral bank so that the position is a FRACTIONAL number of units by then: floor / ceil / ceil + 1 are tried), plus bisection to the largest seize amount that still succeeds. Oracle on every success: reference maintenance health (exact rationals, enclosure; on stored and accrued pre-state) was not positive, is not positive afterwards and not worse, no side flips, liquidator initially healthy, and the five book entries equal the enclosure of 95% / 97.5% / 2.5% of q*p_low/p_high (scaled by decimals) with whole tokens to the insurance vault and the fraction to outstanding insurance fees. Non-trivial = a successful liquidation where both prices carry confidence and the two mints have different decimals; rejection classes are counted.";

pub fn run(ctx: &Ctx) -> Report {
    let cases: u32 = ctx.tier.pick(6000, 150_000);
    let mut rep = par_workers(ctx.threads, |wi| {
        let mut rep = Report::new(RULE);
        let strat = case_strategy();
        let outcome = run_prop(ctx.seed_bytes("c05", wi as u64), cases, &strat, |c, counting| {
            let mut st = Stats::default();
            let r = run_case(c, &mut st);
            if counting {
                rep.eval();
                if st.built {
                    rep.label("built");
                }
                if st.success && c.emode {
                    rep.label("success:emode-boosted-collateral");
                }
                if st.success && c.spec.banks[0].staked.is_some() {
                    rep.label("success:staked-collateral");
                }
                if st.success && c.spec.banks[0].init_limit != 0 {
                    rep.label("success:collateral-bank-capped");
                }
                if st.success && c.reduce_only_collateral {
                    rep.label("success:reduce-only-collateral");
                }
                if st.steered {
                    rep.label("steered");
                }
                rep.add_extra("hostile_observation_lists_tried", st.hostile_tried);
                rep.add_extra("hostile_observation_lists_accepted", st.hostile_accepted);
                if st.emptied_slot {
                    rep.label("liquidatee-holds-an-emptied-open-slot");
                }
                if st.built && st.fractional_collateral {
                    rep.label(&format!("fractional-collateral:seize-{}:{}", st.seize_vs_balance, if st.first_ok { "succeeded" } else { "refused" }));
                }
                if st.stale_extra {
                    rep.label("extra-collateral-oracle-stale");
                }
                if st.success {
                    rep.label("liquidation-succeeded");
                }
                if st.frontier {
                    rep.label("frontier-found");
                }
                if let Some(e) = st.err {
                    rep.label(&format!("rejected:{e}"));
                }
                rep.label(&format!("pre-health-sign:{}", st.pre_health_sign));
                rep.set_max("max_interval_width", st.max_width);
                if st.success && st.conf_both && st.dec_differ {
                    rep.nontrivial_case(&json!({"c": c.collateral, "f": c.borrow_frac, "t": c.target_pm, "q": c.q, "r": c.q_rel, "d": [c.spec.banks[0].decimals, c.spec.banks[1].decimals]}));
                    if rep.samples.len() < 3 {
                        rep.sample(json!({"collateral": c.collateral, "borrow_frac": c.borrow_frac, "target_per_mille": c.target_pm, "q": c.q, "q_rel": c.q_rel, "decimals": [c.spec.banks[0].decimals, c.spec.banks[1].decimals], "tokens": [c.spec.banks[0].token, c.spec.banks[1].token]}));
                    }
                }
            }
            r.map_err(|(s, m)| format!("{s}|{m}"))
        });
        if let Some((c, msg)) = outcome.failure {
            let (sig, m) = msg.split_once('|').map(|(a, b)| (a.to_string(), b.to_string())).unwrap_or((msg.clone(), msg.clone()));
            rep.violation(&sig, m, serde_json::to_value(&c).unwrap());
        }
        rep
    });
    rep.nontrivial_floor = ctx.tier.pick(30, 300);
    rep
}

pub fn replay(_ctx: &Ctx, case: &Value) -> Report {
    let mut rep = Report::new(RULE);
    rep.nontrivial_floor = 0;
    match serde_json::from_value::<LiqCase>(case.clone()) {
        Ok(c) => {
            let mut st = Stats::default();
            rep.eval();
            if let Err((sig, msg)) = run_case(&c, &mut st) {
                rep.violation(&sig, msg, case.clone());
            }
            outln!("replay stats: {:?}", st);
        }
        Err(e) => rep.engine_errors.push(format!("bad replay: {e}")),
    }
    rep
}
