//! C08 (multi-account oracle half): "substituting an ... oracle that belongs to another bank ... is always
//! rejected" for banks whose price is read from SEVERAL pinned accounts. Staked-collateral banks
//! (`StakedWithPythPush`) pin three: the group's SOL feed, the pool's LST mint and the pool's SOL stake account.
//! Worlds: one SOL-tagged bank (borrowable) + two staked banks A, B with different LST rates, created through
//! the real `init_staked_settings` / `lending_pool_add_bank_permissionless`. A borrower deposits LST of A and
//! borrows SOL; then every instruction that prices bank A is replayed with each NON-EMPTY subset of A's pinned
//! accounts replaced by the corresponding account of B (or another authentic Pyth feed): all must fail, and must
//! leave bank A and the account byte-identical.
use crate::common::*;
use crate::svm::Vm;
use crate::world::*;
use proptest::prelude::*;
use serde::{Deserialize, Serialize};
use serde_json::{json, Value};
use solana_program::instruction::{AccountMeta, Instruction};
use solana_program::pubkey::Pubkey;

#[derive(Clone, Debug, Serialize, Deserialize)]
pub struct SCase {
    /// SOL price mantissa (expo -8) and confidence in bps
    pub sol_mant: i64,
    pub conf_bps: u16,
    pub aw_i: u32,
    pub aw_gap: u32,
    /// (supply, stake) of pools A and B
    pub a: (u64, u64),
    pub b: (u64, u64),
    pub deposit: u64,
    /// fraction (x/65536) of the borrowing power used
    pub borrow_frac: u32,
    /// crash factor (per mille) applied to SOL... no: to pool A's stake afterwards (1000 = none)
    pub slash_pm: u16,
}

pub fn case_strategy() -> impl Strategy<Value = SCase> {
    let pool = || (1_000_000_000u64..2_000_000_000_000_000, 500u32..3000).prop_map(|(supply, rate_pm)| (supply, ((supply as u128 * rate_pm as u128 / 1000) as u64).saturating_add(1_000_000_000)));
    (1_000_000i64..100_000_000_000, 0u16..200, 100_000u32..=900_000, 0u32..=100_000, pool(), pool(), 1_000_000u64..1_000_000_000_000, prop_oneof![1 => 1000u32..30_000, 3 => 30_000u32..64_000], prop_oneof![1 => Just(1000u16), 1 => 200u16..900]).prop_map(
        |(sol_mant, conf_bps, aw_i, aw_gap, a, b, deposit, borrow_frac, slash_pm)| SCase { sol_mant, conf_bps, aw_i, aw_gap, a, b, deposit, borrow_frac, slash_pm },
    )
}

fn spec_of(c: &SCase) -> WorldSpec {
    let conf = (c.sol_mant as u128 * c.conf_bps as u128 / 10_000) as u64;
    let feed = OracleSpec { kind: 3, mant: c.sol_mant, expo: -8, conf, ema_mant: c.sol_mant, ema_conf: conf, max_age: 100, max_conf: 0 };
    let sol = BankSpec { decimals: 9, asset_tag: 1, oracle: OracleSpec { kind: 1, ..feed.clone() }, aw_i: 800_000, aw_m: 900_000, lw_i: 1_100_000, lw_m: 1_050_000, ..BankSpec::default() };
    let staked = |p: (u64, u64)| BankSpec { decimals: 9, asset_tag: 2, oracle: feed.clone(), aw_i: c.aw_i, aw_m: c.aw_i + c.aw_gap, staked: Some(StakedSpec { supply: p.0, stake: p.1 }), ..BankSpec::default() };
    WorldSpec { banks: vec![sol, staked(c.a), staked(c.b)], n_users: 3, program_fees_enabled: false, ..WorldSpec::default() }
}

#[derive(Default, Debug)]
pub struct Stats {
    pub role_rotations: u64,
    pub built: bool,
    pub baseline_ok: Vec<&'static str>,
    pub cells: u64,
    pub liquidatable: bool,
}

fn substitute(ix: &Instruction, map: &[(Pubkey, Pubkey)]) -> Instruction {
    let mut ix = ix.clone();
    for m in ix.accounts.iter_mut() {
        // only the observation (remaining) accounts carry these keys as read-only, non-signer metas; the bank's
        // own mint never appears among the named accounts of the instructions used here
        if let Some((_, to)) = map.iter().find(|(from, _)| *from == m.pubkey) {
            *m = AccountMeta::new_readonly(*to, false);
        }
    }
    ix
}

fn pulse_bank_ix(w: &World, bi: usize) -> Instruction {
    use anchor_lang::{InstructionData, ToAccountMetas};
    let mut m = marginfi::accounts::LendingPoolPulseBankPriceCache { group: w.group, bank: w.banks[bi].key }.to_account_metas(Some(true));
    m.push(AccountMeta::new_readonly(w.banks[bi].oracle_key, false));
    for k in &w.banks[bi].oracle_extra {
        m.push(AccountMeta::new_readonly(*k, false));
    }
    Instruction { program_id: marginfi::ID, accounts: m, data: marginfi::instruction::LendingPoolPulseBankPriceCache {}.data() }
}

pub fn run_case(c: &SCase, stats: &mut Stats) -> Result<(), (String, String)> {
    let spec = spec_of(c);
    let Ok(mut w) = World::build(&spec) else { return Ok(()) };
    let (sol, a, b) = (0usize, 1usize, 2usize);
    let lender = w.users[0].clone();
    let u = w.users[1].clone();
    let l = w.users[2].clone();
    let ix = w.ix_deposit(lender.accts[0], lender.auth, sol, lender.tokens[sol], 1_000_000_000_000_000, None);
    if w.vm.exec(&ix).is_err() {
        return Ok(());
    }
    let ix = w.ix_deposit(u.accts[0], u.auth, a, u.tokens[a], c.deposit, None);
    if w.vm.exec(&ix).is_err() {
        return Ok(());
    }
    // the liquidator holds SOL deposits (default-like class may not mix with staked, SOL may)
    let ix = w.ix_deposit(l.accts[0], l.auth, sol, l.tokens[sol], 1_000_000_000_000, None);
    let _ = w.vm.exec(&ix);
    // borrow a fraction of the power found by halving
    let liq = w.tok(&w.banks[sol].lv);
    let mut amt = liq / 2;
    let mut power = 0u64;
    for _ in 0..60 {
        if amt == 0 {
            break;
        }
        let mut vm = w.vm.clone();
        if vm.exec(&w.ix_borrow(u.accts[0], u.auth, sol, u.tokens[sol], amt)).is_ok() {
            power = amt;
            break;
        }
        amt /= 2;
    }
    let amt = ((power as u128 * c.borrow_frac as u128) >> 16) as u64;
    if amt > 0 {
        let _ = w.vm.exec(&w.ix_borrow(u.accts[0], u.auth, sol, u.tokens[sol], amt));
    }
    if c.slash_pm < 1000 {
        // the validator of pool A is slashed: the LST rate of A falls
        let adj = (c.a.1 - 1_000_000_000) as u128 * c.slash_pm as u128 / 1000;
        w.set_staked_rate(a, c.a.0, adj as u64 + 1_000_000_000);
    }
    let _ = w.vm.exec(&w.ix_init_liq_record(u.accts[0], l.auth));
    stats.built = true;
    let small = (amt / 100).max(1);
    let wd = (c.deposit / 100).max(1);
    let risk = w.risk_metas(&u.accts[0], None, None);
    let mk: Vec<(&'static str, Vec<Instruction>)> = vec![
        ("borrow", vec![w.ix_borrow(u.accts[0], u.auth, sol, u.tokens[sol], small)]),
        ("withdraw", vec![w.ix_withdraw(u.accts[0], u.auth, a, u.tokens[a], wd, None)]),
        ("liquidate", vec![w.ix_liquidate(l.accts[0], l.auth, u.accts[0], a, sol, wd)]),
        ("pulse_bank_price_cache", vec![pulse_bank_ix(&w, a)]),
        (
            "receivership",
            vec![
                w.ix_start_liquidation(u.accts[0], l.auth),
                w.ix_withdraw_with(u.accts[0], l.auth, a, l.tokens[a], (wd / 10).max(1), None, risk.clone()),
                w.ix_repay(u.accts[0], l.auth, sol, l.tokens[sol], small, None),
                w.ix_end_liquidation(u.accts[0], l.auth, risk.clone()),
            ],
        ),
    ];
    let (a_mint, a_pool) = (w.banks[a].oracle_extra[0], w.banks[a].oracle_extra[1]);
    let (b_mint, b_pool) = (w.banks[b].oracle_extra[0], w.banks[b].oracle_extra[1]);
    let feed = w.banks[a].oracle_key;
    let other_feed = w.banks[sol].oracle_key; // authentic, fresh Pyth account of another bank
    let subs: Vec<(&'static str, Vec<(Pubkey, Pubkey)>)> = vec![
        ("other-pool-mint", vec![(a_mint, b_mint)]),
        ("other-pool-stake", vec![(a_pool, b_pool)]),
        ("other-pool-mint-and-stake", vec![(a_mint, b_mint), (a_pool, b_pool)]),
        ("mint-and-stake-swapped", vec![(a_mint, a_pool), (a_pool, a_mint)]),
        ("other-bank-feed", vec![(feed, other_feed)]),
        ("other-bank-feed-and-other-pool-mint", vec![(feed, other_feed), (a_mint, b_mint)]),
        ("other-bank-feed-and-other-pool-stake", vec![(feed, other_feed), (a_pool, b_pool)]),
    ];
    let a_key = w.banks[a].key;
    for (name, ixs) in &mk {
        let mut vm: Vm = w.vm.clone();
        if !vm.exec_tx(ixs).ok {
            continue;
        }
        stats.baseline_ok.push(name);
        if *name == "liquidate" || *name == "receivership" {
            stats.liquidatable = true;
        }
        for (sname, map) in &subs {
            // when the feed is replaced, leave the SOL bank's own observation pair alone: substitute only inside
            // bank A's group of accounts (the metas right after bank A's key)
            let ixs2: Vec<Instruction> = ixs
                .iter()
                .map(|ix| {
                    let mut ix2 = ix.clone();
                    let mut i = 0;
                    while i < ix2.accounts.len() {
                        if ix2.accounts[i].pubkey == a_key && i + 4 <= ix2.accounts.len() {
                            let grp = Instruction { program_id: ix2.program_id, accounts: ix2.accounts[i + 1..i + 4].to_vec(), data: vec![] };
                            let g2 = substitute(&grp, map);
                            for (j, m) in g2.accounts.into_iter().enumerate() {
                                ix2.accounts[i + 1 + j] = m;
                            }
                            i += 4;
                        } else {
                            i += 1;
                        }
                    }
                    ix2
                })
                .collect();
            if ixs2.iter().zip(ixs.iter()).all(|(x, y)| x.accounts == y.accounts) {
                continue;
            }
            let mut vm: Vm = w.vm.clone();
            let r = vm.exec_tx(&ixs2);
            stats.cells += 1;
            if r.ok {
                return Err((format!("auth:oracle-substitution:staked:{name}:{sname}"), format!("{name} succeeded although bank A's pinned oracle accounts were replaced ({sname})")));
            }
        }
    }
    staked_settings_cells(&w, stats)?;
    add_bank_permissionless_cells(&w, stats)?;
    role_rotation_cells(&w, c.borrow_frac as u64, stats)?;
    Ok(())
}

/// "every administrative instruction succeeds only when signed by the specific role it names" - also after the group admin
/// has ROTATED the roles with `marginfi_group_configure`: for the curve, limit and e-mode delegate, the role is handed to
/// (a) the key that currently holds ANOTHER role, (b) a fresh key, (c) the null key; after an accepted configure the
/// role's own instruction must be refused for the replaced key and accepted for the new one (when it can sign).
fn role_rotation_cells(w: &World, salt: u64, stats: &mut Stats) -> Result<(), (String, String)> {
    use marginfi_type_crate::types::InterestRateConfigOpt;
    let r0 = w.roles.clone();
    if r0.curve == r0.limit || r0.curve == r0.emode || r0.limit == r0.emode {
        return Ok(()); // worlds whose roles all sit on the admin key have nothing to rotate
    }
    let fresh = crate::world::kp("c08b_fresh_role", salt % 7);
    let sol = 0usize;
    let act = |ww: &World, role: u8, signer: Pubkey| -> Instruction {
        match role {
            0 => ww.ix_configure_interest_only(sol, InterestRateConfigOpt { insurance_fee_fixed_apr: Some(crate::world::w_mill(1_000 + (salt % 5) as u32)), ..Default::default() }, signer),
            1 => ww.ix_configure_limits_only(sol, Some(u64::MAX / 2 - salt % 1000), None, None, signer),
            _ => ww.ix_config_emode(sol, 0, &[], signer),
        }
    };
    let names = ["curve", "limit", "emode"];
    let holder = |r: &Roles, role: u8| match role {
        0 => r.curve,
        1 => r.limit,
        _ => r.emode,
    };
    for role in 0u8..3 {
        let others: Vec<(String, Pubkey)> = (0u8..3).filter(|o| *o != role).map(|o| (format!("the current {} admin", names[o as usize]), holder(&r0, o))).chain([("a fresh key".to_string(), fresh), ("the null key".to_string(), Pubkey::default()), ("the group admin".to_string(), r0.admin), ("the risk admin".to_string(), r0.risk)]).collect();
        for (who, newk) in others {
            let old = holder(&r0, role);
            if newk == old {
                continue;
            }
            let mut r1 = r0.clone();
            match role {
                0 => r1.curve = newk,
                1 => r1.limit = newk,
                _ => r1.emode = newk,
            }
            let mut vm = w.vm.clone();
            if newk != Pubkey::default() && vm.get(&newk).is_none() {
                vm.set(newk, crate::world::wallet_acct(1_000_000_000));
            }
            if vm.exec(&w.ix_group_configure(&r1, None, None)).is_err() {
                continue;
            }
            stats.role_rotations += 1;
            // the replaced key
            let mut v1 = vm.clone();
            if v1.exec(&act(w, role, old)).is_ok() {
                return Err((
                    format!("auth:role-rotation:{}:replaced-key-still-accepted", names[role as usize]),
                    format!("after marginfi_group_configure handed the {} role to {who}, the REPLACED key still passes the {} admin's instruction", names[role as usize], names[role as usize]),
                ));
            }
            // the new key
            if newk != Pubkey::default() {
                let mut v2 = vm.clone();
                if v2.exec(&act(w, role, newk)).is_err() {
                    return Err((
                        format!("auth:role-rotation:{}:named-key-refused", names[role as usize]),
                        format!("after marginfi_group_configure handed the {} role to {who}, the key it named is refused by the {} admin's instruction", names[role as usize], names[role as usize]),
                    ));
                }
            }
        }
    }
    Ok(())
}

/// `lending_pool_add_bank_permissionless` (anyone may create a staked-collateral bank for a single-validator pool):
/// the three pool accounts must belong together and to the single-pool program, and the settings to this group.
/// A fresh pool C is fabricated; the consistent request must be accepted (positive control), every request with one
/// account of pool B / an ordinary mint / a look-alike pool account / another group's settings in its place refused.
fn add_bank_permissionless_cells(w: &World, stats: &mut Stats) -> Result<(), (String, String)> {
    use anchor_lang::{InstructionData, ToAccountMetas};
    let sp_id = marginfi::constants::SPL_SINGLE_POOL_ID;
    let mut vm: Vm = w.vm.clone();
    let pool_c = kp("c08b_stake_pool_c", 0);
    vm.set(pool_c, crate::svm::Acct { lamports: 1_000_000_000, data: vec![0u8; 64], owner: sp_id, executable: false });
    let mint_c = Pubkey::find_program_address(&[b"mint", pool_c.as_ref()], &sp_id).0;
    let sol_c = Pubkey::find_program_address(&[b"stake", pool_c.as_ref()], &sp_id).0;
    vm.set(mint_c, lst_mint_acct(5_000_000_000_000));
    vm.set(sol_c, stake_acct(6_000_000_000_000));
    // a look-alike "pool" that the single-pool program does not own
    let fake_pool = kp("c08b_fake_pool", 0);
    vm.set(fake_pool, crate::svm::Acct { lamports: 1_000_000_000, data: vec![0u8; 64], owner: solana_program::system_program::ID, executable: false });
    let fake_mint = Pubkey::find_program_address(&[b"mint", fake_pool.as_ref()], &sp_id).0;
    let fake_sol = Pubkey::find_program_address(&[b"stake", fake_pool.as_ref()], &sp_id).0;
    vm.set(fake_mint, lst_mint_acct(5_000_000_000_000));
    vm.set(fake_sol, stake_acct(6_000_000_000_000));
    let b = 2usize;
    let (mint_b, sol_b) = (w.banks[b].oracle_extra[0], w.banks[b].oracle_extra[1]);
    let pool_b = kp("stake_pool", b as u64);
    let feed = w.banks[1].oracle_key;
    let settings = w.staked_settings_key();
    let payer = w.roles.stranger;
    let seed = 77u64;
    let mk = |group: Pubkey, st: Pubkey, mint: Pubkey, sol_pool: Pubkey, stake_pool: Pubkey, obs: [Pubkey; 3]| {
        let bank = Pubkey::find_program_address(&[group.as_ref(), mint.as_ref(), &seed.to_le_bytes()], &marginfi::ID).0;
        let mut m = marginfi::accounts::LendingPoolAddBankPermissionless {
            marginfi_group: group,
            staked_settings: st,
            fee_payer: payer,
            bank_mint: mint,
            sol_pool,
            stake_pool,
            bank,
            liquidity_vault_authority: bank_pda("liquidity_vault_auth", &bank),
            liquidity_vault: bank_pda("liquidity_vault", &bank),
            insurance_vault_authority: bank_pda("insurance_vault_auth", &bank),
            insurance_vault: bank_pda("insurance_vault", &bank),
            fee_vault_authority: bank_pda("fee_vault_auth", &bank),
            fee_vault: bank_pda("fee_vault", &bank),
            token_program: spl_token::ID,
            system_program: solana_program::system_program::ID,
        }
        .to_account_metas(Some(true));
        for k in obs {
            m.push(AccountMeta::new_readonly(k, false));
        }
        (Instruction { program_id: marginfi::ID, accounts: m, data: marginfi::instruction::LendingPoolAddBankPermissionless { bank_seed: seed }.data() }, bank)
    };
    // positive control
    {
        let mut probe = vm.clone();
        let (ix, _) = mk(w.group, settings, mint_c, sol_c, pool_c, [feed, mint_c, sol_c]);
        if probe.exec(&ix).is_err() {
            return Ok(());
        }
        stats.baseline_ok.push("add_bank_permissionless");
    }
    // a foreign group's settings account
    let g2 = kp("c08b_foreign_group", 1);
    let owner = w.users[2].auth;
    let st2 = Pubkey::find_program_address(&[b"staked_settings", g2.as_ref()], &marginfi::ID).0;
    let init_group = Instruction {
        program_id: marginfi::ID,
        accounts: marginfi::accounts::MarginfiGroupInitialize { marginfi_group: g2, admin: owner, fee_state: w.fee_state, system_program: solana_program::system_program::ID }.to_account_metas(Some(true)),
        data: marginfi::instruction::MarginfiGroupInitialize {}.data(),
    };
    let init_settings = Instruction {
        program_id: marginfi::ID,
        accounts: marginfi::accounts::InitStakedSettings { marginfi_group: g2, admin: owner, fee_payer: owner, staked_settings: st2, system_program: solana_program::system_program::ID }.to_account_metas(Some(true)),
        data: marginfi::instruction::InitStakedSettings {
            settings: marginfi::instructions::marginfi_group::StakedSettingsConfig {
                oracle: feed,
                asset_weight_init: w_mill(999_000),
                asset_weight_maint: w_mill(1_000_000),
                deposit_limit: u64::MAX / 2,
                total_asset_value_init_limit: 0,
                oracle_max_age: 100,
                risk_tier: marginfi_type_crate::types::RiskTier::Collateral,
            },
        }
        .data(),
    };
    let foreign_ok = vm.exec(&init_group).is_ok() && vm.exec(&init_settings).is_ok();
    let mut cells: Vec<(&'static str, Instruction, Pubkey)> = vec![];
    let mut push = |name: &'static str, t: (Instruction, Pubkey)| cells.push((name, t.0, t.1));
    push("sol-pool-of-another-pool", mk(w.group, settings, mint_c, sol_b, pool_c, [feed, mint_c, sol_b]));
    push("stake-pool-of-another-pool", mk(w.group, settings, mint_c, sol_c, pool_b, [feed, mint_c, sol_c]));
    push("mint-of-another-pool", mk(w.group, settings, mint_b, sol_c, pool_c, [feed, mint_b, sol_c]));
    push("ordinary-mint", mk(w.group, settings, w.banks[0].mint, sol_c, pool_c, [feed, w.banks[0].mint, sol_c]));
    push("pool-not-owned-by-the-single-pool-program", mk(w.group, settings, fake_mint, fake_sol, fake_pool, [feed, fake_mint, fake_sol]));
    push("observation-accounts-of-another-pool", mk(w.group, settings, mint_c, sol_c, pool_c, [feed, mint_b, sol_b]));
    push("observation-feed-of-another-bank", mk(w.group, settings, mint_c, sol_c, pool_c, [w.banks[0].oracle_key, mint_c, sol_c]));
    if foreign_ok {
        push("settings-of-another-group", mk(w.group, st2, mint_c, sol_c, pool_c, [feed, mint_c, sol_c]));
    }
    for (name, ix, bank) in cells {
        // the SOL bank's feed and the staked feed may be the same account in some worlds: skip a no-op substitution
        if name == "observation-feed-of-another-bank" && w.banks[0].oracle_key == feed {
            continue;
        }
        let mut probe = vm.clone();
        stats.cells += 1;
        if probe.exec(&ix).is_ok() || probe.get(&bank).is_some() {
            return Err((format!("auth:substitution:add_bank_permissionless:{name}"), format!("lending_pool_add_bank_permissionless created a staked-collateral bank although its accounts do not belong together ({name})")));
        }
    }
    Ok(())
}

/// Administration of the staked-collateral settings: `edit_staked_settings` obeys the group admin only;
/// the permissionless `propagate_staked_settings` copies the GROUP's settings onto a STAKED bank of THAT group and
/// onto nothing else (an ordinary bank in the bank slot, the settings account of another group): "substituting an
/// account, bank ... that belongs to another group, bank or program is always rejected".
fn staked_settings_cells(w: &World, stats: &mut Stats) -> Result<(), (String, String)> {
    use anchor_lang::{InstructionData, ToAccountMetas};
    use marginfi::instructions::marginfi_group::StakedSettingsEditConfig;
    let settings = w.staked_settings_key();
    let (sol, a) = (0usize, 1usize);
    let edit = |signer: Pubkey, limit: u64| Instruction {
        program_id: marginfi::ID,
        accounts: marginfi::accounts::EditStakedSettings { marginfi_group: w.group, admin: signer, staked_settings: settings }.to_account_metas(Some(true)),
        data: marginfi::instruction::EditStakedSettings { settings: StakedSettingsEditConfig { deposit_limit: Some(limit), ..Default::default() } }.data(),
    };
    let propagate = |group: Pubkey, st: Pubkey, bank: Pubkey, oracle: Pubkey| {
        let mut m = marginfi::accounts::PropagateStakedSettings { marginfi_group: group, staked_settings: st, bank }.to_account_metas(Some(true));
        m.push(AccountMeta::new_readonly(oracle, false));
        Instruction { program_id: marginfi::ID, accounts: m, data: marginfi::instruction::PropagateStakedSettings {}.data() }
    };
    // (1) signer cells of edit_staked_settings
    let r = &w.roles;
    let wrong: Vec<(&'static str, Pubkey)> = vec![("stranger", r.stranger), ("emode_admin", r.emode), ("curve_admin", r.curve), ("limit_admin", r.limit), ("emissions_admin", r.emissions), ("risk_admin", r.risk), ("fee_admin", r.fee_admin), ("user", w.users[1].auth)];
    for (who, k) in &wrong {
        let mut vm: Vm = w.vm.clone();
        stats.cells += 1;
        if vm.exec(&edit(*k, 123_456_789)).is_ok() {
            return Err((format!("auth:signer:edit_staked_settings:{who}"), format!("edit_staked_settings succeeded for signer {who}, who is not the group admin")));
        }
    }
    let mut vm: Vm = w.vm.clone();
    if vm.exec(&edit(r.admin, 123_456_789)).is_err() {
        return Ok(());
    }
    stats.baseline_ok.push("edit_staked_settings");
    // (2) propagate: baseline on the staked bank A, then every other bank / settings account in its place
    let feed = w.banks[a].oracle_key;
    {
        let mut probe = vm.clone();
        if probe.exec(&propagate(w.group, settings, w.banks[a].key, feed)).is_err() {
            return Ok(());
        }
        stats.baseline_ok.push("propagate_staked_settings");
    }
    // an ordinary (SOL-tagged) bank of the same group in the bank slot
    {
        let mut probe = vm.clone();
        let before = probe.data(&w.banks[sol].key).to_vec();
        let ok = probe.exec(&propagate(w.group, settings, w.banks[sol].key, feed)).is_ok();
        stats.cells += 1;
        if ok || probe.data(&w.banks[sol].key) != before.as_slice() {
            return Err(("auth:substitution:propagate_staked_settings:ordinary-bank".into(), "propagate_staked_settings was accepted for a bank that is not a staked-collateral bank (its configuration was overwritten by the staked settings, without any signature)".into()));
        }
    }
    // the settings account of another group (anybody can create a group and its staked settings)
    {
        let mut probe = vm.clone();
        let g2 = kp("c08b_foreign_group", 0);
        let owner = w.users[2].auth;
        let init_group = Instruction {
            program_id: marginfi::ID,
            accounts: marginfi::accounts::MarginfiGroupInitialize { marginfi_group: g2, admin: owner, fee_state: w.fee_state, system_program: solana_program::system_program::ID }.to_account_metas(Some(true)),
            data: marginfi::instruction::MarginfiGroupInitialize {}.data(),
        };
        let st2 = Pubkey::find_program_address(&[b"staked_settings", g2.as_ref()], &marginfi::ID).0;
        let init_settings = Instruction {
            program_id: marginfi::ID,
            accounts: marginfi::accounts::InitStakedSettings { marginfi_group: g2, admin: owner, fee_payer: owner, staked_settings: st2, system_program: solana_program::system_program::ID }.to_account_metas(Some(true)),
            data: marginfi::instruction::InitStakedSettings {
                settings: marginfi::instructions::marginfi_group::StakedSettingsConfig {
                    oracle: feed,
                    asset_weight_init: w_mill(999_000),
                    asset_weight_maint: w_mill(1_000_000),
                    deposit_limit: u64::MAX / 2,
                    total_asset_value_init_limit: 0,
                    oracle_max_age: 100,
                    risk_tier: marginfi_type_crate::types::RiskTier::Collateral,
                },
            }
            .data(),
        };
        if probe.exec(&init_group).is_ok() && probe.exec(&init_settings).is_ok() {
            let before = probe.data(&w.banks[a].key).to_vec();
            stats.cells += 2;
            if probe.exec(&propagate(w.group, st2, w.banks[a].key, feed)).is_ok() || probe.data(&w.banks[a].key) != before.as_slice() {
                return Err(("auth:substitution:propagate_staked_settings:foreign-settings".into(), "propagate_staked_settings copied the staked settings of ANOTHER group onto this group's bank".into()));
            }
            if probe.exec(&propagate(g2, st2, w.banks[a].key, feed)).is_ok() || probe.data(&w.banks[a].key) != before.as_slice() {
                return Err(("auth:substitution:propagate_staked_settings:foreign-group".into(), "propagate_staked_settings (group and settings of another group) rewrote this group's bank".into()));
            }
            stats.baseline_ok.push("foreign-staked-settings-built");
        }
    }
    Ok(())
}

pub const RULE: &str = "proptest worlds: a SOL-tagged bank and two staked-collateral banks A, B (real init_staked_settings + add_bank_permissionless, fabricated single-validator pools with generated LST supply / delegated stake, shared SOL Pyth feed), a borrower holding LST of A and owing SOL (optionally made liquidatable by slashing pool A); borrow / withdraw / classic liquidate / pulse_bank_price_cache / receivership bracket whose baseline succeeds are re-run with every substitution of bank A's three pinned oracle accounts by the corresponding account of pool B, by each other, or by another bank's authentic Pyth feed (7 substitution patterns): each must fail. Non-trivial = a world with at least one asserted cell.";

pub fn run(ctx: &Ctx) -> Report {
    let cases: u32 = ctx.tier.pick(300, 20_000);
    par_workers(ctx.threads, |wi| {
        let mut rep = Report::new(RULE);
        let strat = case_strategy();
        let outcome = run_prop(ctx.seed_bytes("c08b", wi as u64), cases, &strat, |c, counting| {
            let mut st = Stats::default();
            let r = run_case(c, &mut st);
            if counting {
                rep.eval();
                rep.add_extra("staked_substitution_cells", st.cells);
                rep.add_extra("role_rotations_evaluated", st.role_rotations);
                for b in &st.baseline_ok {
                    rep.label(&format!("staked-baseline-ok:{b}"));
                }
                if st.cells > 0 {
                    rep.nontrivial_case(&json!({"staked": st.baseline_ok, "slash": c.slash_pm < 1000, "a": c.a.0 % 97, "b": c.b.0 % 97}));
                }
            }
            r.map_err(|(s, m)| format!("{s}|{m}"))
        });
        if let Some((c, msg)) = outcome.failure {
            let (sig, m) = msg.split_once('|').map(|(a, b)| (a.to_string(), b.to_string())).unwrap_or((msg.clone(), msg.clone()));
            let mut v = serde_json::to_value(&c).unwrap();
            v["half"] = json!("c08b");
            rep.violation(&sig, m, v);
        }
        rep
    })
}

pub fn replay(_ctx: &Ctx, case: &Value) -> Report {
    let mut rep = Report::new(RULE);
    rep.nontrivial_floor = 0;
    match serde_json::from_value::<SCase>(case.clone()) {
        Ok(c) => {
            let mut st = Stats::default();
            rep.eval();
            if let Err((sig, msg)) = run_case(&c, &mut st) {
                rep.violation(&sig, msg, case.clone());
            }
        }
        Err(e) => rep.engine_errors.push(format!("bad replay: {e}")),
    }
    rep
}
