//! C15 (instruction-level half): the same history invariants as c15.rs, but the pause system is
//! the real program driven through its entry point: panic_pause / panic_unpause /
//! panic_unpause_permissionless / propagate_fee_state, with the gate observed through a real
//! user instruction (a deposit that always succeeds when the group is not paused).
use crate::common::*;
use crate::props::c15::{Obs, Op, PauseSystem};
use crate::world::*;
use marginfi_type_crate::types::FeeState;
use proptest::prelude::*;
use serde_json::{json, Value};

pub struct SvmSys {
    pub w: World,
    /// the key currently recorded as the global fee admin (it may hand the role to its second key and back)
    pub admin: solana_program::pubkey::Pubkey,
    edits: u32,
}

impl SvmSys {
    pub fn new(t0: i64) -> Option<SvmSys> {
        let mut spec = WorldSpec::default();
        spec.n_users = 1;
        let mut w = World::build(&spec).ok()?;
        // move the clock to t0 (>= build time); fixed oracle never goes stale
        let d = t0 - w.vm.now();
        if d > 0 {
            w.vm.advance(d);
        }
        {
            let u = w.users[0].clone();
            let _ = w.vm.exec(&w.ix_deposit(u.accts[0], u.auth, 0, u.tokens[0], 1_000_000, None));
        }
        let admin = w.roles.fee_admin;
        Some(SvmSys { w, admin, edits: 0 })
    }
    fn fee_state(&self) -> FeeState {
        let d = self.w.vm.data(&self.w.fee_state);
        bytemuck::pod_read_unaligned::<FeeState>(&d[8..8 + std::mem::size_of::<FeeState>()])
    }
    fn deposit_blocked(&self, propagate_first: bool) -> bool {
        let mut vm = self.w.vm.clone();
        if propagate_first {
            let _ = vm.exec(&self.w.ix_propagate_fee_state());
        }
        let u = &self.w.users[0];
        let ix = self.w.ix_deposit(u.accts[0], u.auth, 0, u.tokens[0], 1, None);
        vm.exec(&ix).is_err()
    }
    /// The other user instructions that the pause gates (each on its own clone of the store): they must be blocked
    /// exactly when the deposit is. Returns the names of those whose answer differs from `deposit_blocked`.
    pub fn gate_disagreements(&self) -> Vec<&'static str> {
        let u = self.w.users[0].clone();
        let blocked = self.deposit_blocked(false);
        let new = kp("c15b_transfer_target", 0);
        let mut t_kp = self.w.ix_transfer_account(u.accts[0], new, u.auth, u.auth);
        for m in t_kp.accounts.iter_mut() {
            if m.pubkey == new {
                m.is_signer = true;
            }
        }
        let cands: Vec<(&'static str, solana_program::instruction::Instruction)> = vec![
            ("lending_account_withdraw", self.w.ix_withdraw(u.accts[0], u.auth, 0, u.tokens[0], 1, None)),
            ("transfer_to_new_account", t_kp),
            ("transfer_to_new_account_pda", self.w.ix_transfer_account_pda(u.accts[0], u.auth, u.auth, 3)),
        ];
        let mut out = vec![];
        for (name, ix) in cands {
            let mut vm = self.w.vm.clone();
            if vm.exec(&ix).is_err() != blocked {
                out.push(name);
            }
        }
        out
    }
}

impl PauseSystem for SvmSys {
    fn now(&self) -> i64 {
        self.w.vm.now()
    }
    fn apply(&mut self, op: Op) -> bool {
        match op {
            Op::Pause => self.w.vm.exec(&self.w.ix_panic_pause(self.admin)).is_ok(),
            Op::AdminUnpause => self.w.vm.exec(&self.w.ix_panic_unpause(self.admin)).is_ok(),
            Op::Other(k) if k >= 3 => {
                // config_group_fee by the current admin: toggles the group's program-fee flag (writes the group account,
                // where the pause cache lives)
                use anchor_lang::{InstructionData, ToAccountMetas};
                self.edits += 1;
                let ix = mfi_ix(
                    marginfi::accounts::ConfigGroupFee { marginfi_group: self.w.group, global_fee_admin: self.admin, fee_state: self.w.fee_state }.to_account_metas(Some(true)),
                    marginfi::instruction::ConfigGroupFee { enable_program_fee: self.edits % 2 == 0 }.data(),
                );
                self.w.vm.exec(&ix).is_ok()
            }
            Op::Other(k) => {
                // edit_global_fee_state by the current admin: k = 0 keeps the admin and changes a fee parameter,
                // k >= 1 hands the role to the admin's other key (primary <-> second)
                use anchor_lang::{InstructionData, ToAccountMetas};
                let second = kp("fee_admin_second", 0);
                if self.w.vm.get(&second).is_none() {
                    self.w.vm.set(second, wallet_acct(10_000_000_000));
                }
                let new_admin = if k == 0 { self.admin } else if self.admin == second { self.w.roles.fee_admin } else { second };
                self.edits += 1;
                let ix = mfi_ix(
                    marginfi::accounts::EditFeeState { global_fee_admin: self.admin, fee_state: self.w.fee_state }.to_account_metas(Some(true)),
                    marginfi::instruction::EditGlobalFeeState {
                        admin: new_admin,
                        fee_wallet: self.w.fee_wallet,
                        bank_init_flat_sol_fee: self.w.spec.bank_init_flat_sol_fee + self.edits % 3,
                        liquidation_flat_sol_fee: self.w.spec.liq_flat_sol_fee,
                        program_fee_fixed: w_mill(self.w.spec.program_fee_fixed),
                        program_fee_rate: w_mill(self.w.spec.program_fee_rate),
                        liquidation_max_fee: w_mill(self.w.spec.liq_max_fee),
                    }
                    .data(),
                );
                let ok = self.w.vm.exec(&ix).is_ok();
                if ok {
                    self.admin = new_admin;
                }
                ok
            }
            Op::PermissionlessUnpause => self.w.vm.exec(&self.w.ix_panic_unpause_permissionless()).is_ok(),
            Op::Propagate => self.w.vm.exec(&self.w.ix_propagate_fee_state()).is_ok(),
            Op::Wait(d) => {
                self.w.vm.advance(d as i64);
                true
            }
        }
    }
    fn observe(&self) -> Obs {
        let f = self.fee_state();
        let p = f.panic_state;
        Obs { flag: p.pause_flags & 1 != 0, start: p.pause_start_timestamp, daily: p.daily_pause_count, consec: p.consecutive_pause_count, last_reset: p.last_daily_reset_timestamp }
    }
    fn gate_group(&self) -> bool {
        self.deposit_blocked(false)
    }
    fn gate_fee_state(&self) -> bool {
        // the fee state's own answer = what a freshly propagated group would enforce
        self.deposit_blocked(true)
    }
}

fn op_strategy() -> impl Strategy<Value = Op> {
    let delta = prop_oneof![
        6 => prop::sample::select(vec![0u64, 1, 1799, 1800, 1801, 3599, 3600, 3601, 86_399, 86_400, 86_401]),
        2 => 0u64..4000,
        1 => 0u64..200_000,
    ];
    prop_oneof![
        5 => Just(Op::Pause),
        2 => Just(Op::AdminUnpause),
        2 => Just(Op::PermissionlessUnpause),
        3 => Just(Op::Propagate),
        2 => (0u8..4).prop_map(Op::Other),
        6 => delta.prop_map(Op::Wait),
    ]
}

pub const RULE: &str = "instruction level: random histories (boundary-biased waits) of panic_pause / panic_unpause / panic_unpause_permissionless / propagate_fee_state / edit_global_fee_state (fee parameters, admin hand-over to a second key and back) / config_group_fee executed through the real program entry point in a generated-time world; after every step the same history invariants as the pure part are judged on the fee-state bytes, and the gate is observed by executing a real deposit (with the group's cache as last propagated, and with a freshly propagated cache). Non-trivial = history with an extension and a daily reset, or a gate query within 1 s of expiry.";

fn run_seq(t0: i64, ops: &[Op]) -> Option<crate::props::c15::HistoryResult> {
    let mut sys = SvmSys::new(t0)?;
    // besides the history clauses (judged through the deposit gate): after every step the other gated user instructions
    // must give the same answer as the deposit — "a pause that has run out stops blocking users immediately" holds for
    // every instruction, not only for the one the spec watches
    let mut disagreement: Option<(usize, &'static str)> = None;
    let mut r = crate::props::c15::check_history_with(&mut sys, false, |s, _, i| {
        if disagreement.is_none() && i > 0 {
            if let Some(name) = s.gate_disagreements().into_iter().next() {
                disagreement = Some((i - 1, name));
                return None;
            }
        }
        ops.get(i).copied()
    });
    if r.failure.is_none() {
        if disagreement.is_none() {
            if let Some(name) = sys.gate_disagreements().into_iter().next() {
                disagreement = Some((ops.len().saturating_sub(1), name));
            }
        }
        if let Some((i, name)) = disagreement {
            let blocked = sys.deposit_blocked(false);
            r.failure = Some((i, crate::props::c15::Fail { sig: "gate-differs-between-instructions", msg: format!("after this step a deposit is {} but {name} is {} (same group, same time {})", if blocked { "refused" } else { "accepted" }, if blocked { "accepted" } else { "refused" }, sys.w.vm.now()) }));
        }
    }
    Some(r)
}

pub fn run(ctx: &Ctx) -> Report {
    let cases: u32 = ctx.tier.pick(150, 15_000);
    let max_len = ctx.tier.pick(120usize, 300usize);
    par_workers(ctx.threads, |wi| {
        let mut rep = Report::new(RULE);
        let strat = (START_TIME..START_TIME + 200_000, prop::collection::vec(op_strategy(), 1..=max_len));
        let outcome = run_prop(ctx.seed_bytes("c15b", wi as u64), cases, &strat, |(t0, ops), counting| {
            let Some(r) = run_seq(*t0, ops) else { return Ok(()) };
            if counting {
                rep.eval();
                rep.add_extra("instruction_level_ops", r.stats.ops);
                rep.add_extra("instruction_level_pauses_ok", r.stats.pauses_ok);
                rep.add_extra("instruction_level_gate_blocked", r.stats.gate_group_blocked);
                rep.add_extra("instruction_level_stale_cache_released", r.stats.stale_cache_released);
                if r.stats.nontrivial() {
                    let enc: Vec<String> = r.executed.iter().map(|o| o.encode()).collect();
                    rep.nontrivial_case(&json!({"t": t0, "o": enc}));
                    if rep.samples.len() < 1 && wi == 0 {
                        rep.sample(json!({"part": "instruction-level", "t0": t0, "first_ops": enc.iter().take(30).collect::<Vec<_>>()}));
                    }
                }
            }
            match r.failure {
                None => Ok(()),
                Some((i, f)) => Err(format!("ix:{}|op#{i}: {}", f.sig, f.msg)),
            }
        });
        if let Some(((t0, ops), msg)) = outcome.failure {
            let (sig, m) = msg.split_once('|').map(|(a, b)| (a.to_string(), b.to_string())).unwrap_or((msg.clone(), msg.clone()));
            rep.violation(&sig, m, json!({"half": "c15b", "t0": t0, "ops": ops.iter().map(|o| o.encode()).collect::<Vec<_>>()}));
        }
        rep
    })
}

pub fn replay(_ctx: &Ctx, case: &Value) -> Report {
    let mut rep = Report::new(RULE);
    rep.nontrivial_floor = 0;
    let t0 = case["t0"].as_i64().unwrap_or(START_TIME);
    let mut ops = vec![];
    for o in case["ops"].as_array().cloned().unwrap_or_default() {
        if let Some(op) = o.as_str().and_then(Op::decode) {
            ops.push(op);
        }
    }
    rep.eval();
    if let Some(r) = run_seq(t0, &ops) {
        if let Some((i, f)) = r.failure {
            rep.violation(&format!("ix:{}", f.sig), format!("op#{i}: {}", f.msg), case.clone());
        }
    }
    rep
}
