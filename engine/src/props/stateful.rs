//! C01 / C02 / C16 / C17 (and the shared parts of C03, C06, C19): the stateful campaign.
use crate::campaign::*;
use crate::common::*;
use crate::monitors::*;
use crate::snap::StoreSnap;
use crate::world::WorldSpec;
use serde_json::{json, Value};

#[derive(Clone, Copy, PartialEq, Eq, Debug)]
pub enum Target {
    C01,
    C02,
    C16,
    C17,
    C03,
    C06,
}
impl Target {
    fn prefix(&self) -> &'static str {
        match self {
            Target::C01 => "solvency:",
            Target::C02 => "ledger:",
            Target::C16 => "structure:",
            Target::C17 => "caps:",
            Target::C03 => "value:",
            Target::C06 => "accrual:",
        }
    }
}

#[derive(Default)]
struct SeqStats {
    ok_ops: Vec<&'static str>,
    fails: Vec<(&'static str, u64)>,
    zero_ops: u64,
    opened_by_tag: std::collections::BTreeMap<u8, u64>,
    max_integration: usize,
    c03_nontrivial: u64,
    c06_probes: u64,
    c06_charged_checks: u64,
    c06_charged_zero_borrow_limit: u64,
    c06_prog_fee_checks: u64,
    c06_conservation_checks: u64,
    c06_foreign_group_cranks: u64,
    skips: Vec<(&'static str, &'static str)>,
    borrow_ok: bool,
    accrued_interest: bool,
    removal_after_accrual: bool,
    shared_bank: bool,
    closed_position: bool,
    liq_or_bankr: bool,
    max_positions: usize,
    reopened: u64,
    cap_frontier: bool,
    upto_accrual: bool,
    close_bank_ok: u64,
    disabled_probed: u64,
    close_probes_on_empty_flagged: u64,
    close_bank_ok_after_activity: u64,
    max_share_value: f64,
    tiny_asv_steps: u64,
}

struct Monitors {
    c01: C01State,
    c02: C02State,
    c16: C16State,
    c17: C17State,
    c03: C03State,
    c06: C06State,
}

/// Run one (world, ops) case. Returns Err((signature, message)) for the first finding of the
/// target property; findings of other properties are returned as notes.
fn run_case(target: Target, spec: &WorldSpec, ops: &[Op], stats: &mut SeqStats, notes: &mut Vec<String>) -> Result<(), (String, String)> {
    let mut r = match Runner::new(spec) {
        Ok(r) => r,
        Err(e) => {
            notes.push(format!("world-rejected: {e}"));
            return Ok(());
        }
    };
    let mut m = Monitors { c01: Default::default(), c02: Default::default(), c16: Default::default(), c17: Default::default(), c03: Default::default(), c06: Default::default() };
    for op in ops {
        let pre: StoreSnap = r.snap.clone();
        let step = r.step(op);
        let post = if matches!(op, Op::Wait { .. } | Op::Distress { .. } | Op::Price { .. }) { r.snap.clone() } else { r.refresh_snapshot() };
        let mut findings = vec![];
        findings.extend(c01_step(&mut m.c01, &pre, &post, &step));
        findings.extend(c02_step(&mut m.c02, &pre, &post, &step));
        findings.extend(c16_step(&mut m.c16, &pre, &post, &step, &r.w));
        findings.extend(c17_step(&mut m.c17, &pre, &post, &step, &r.w));
        // an account that has just become disabled (bankrupt / migrated) is probed at once: it must not be able to
        // deposit, withdraw, borrow, repay or open a flash loan
        for (k, a1) in &post.accts {
            let was = pre.accts.get(k).map(|a0| a0.flags & marginfi_type_crate::types::ACCOUNT_DISABLED != 0).unwrap_or(false);
            if a1.flags & marginfi_type_crate::types::ACCOUNT_DISABLED != 0 && !was {
                stats.disabled_probed += 1;
                for name in r.probe_disabled_account(k) {
                    findings.push(Finding { sig: "structure:disabled-acted".into(), msg: format!("op#{}: right after account {k} was disabled, its authority's {name} was accepted", step.index) });
                }
            }
        }
        // an account that has just been frozen or disabled is probed with close attempts (authority / admin, with and
        // without a separate fee payer): "an account can be closed only when it is ... neither disabled, frozen ..."
        for (k, a1) in &post.accts {
            let flagged = marginfi_type_crate::types::ACCOUNT_DISABLED | marginfi_type_crate::types::ACCOUNT_FROZEN;
            let was = pre.accts.get(k).map(|a0| a0.flags & flagged).unwrap_or(0);
            if a1.flags & flagged & !was != 0 {
                let (acc, empty) = r.probe_close_flagged(k);
                if empty {
                    stats.close_probes_on_empty_flagged += 1;
                }
                for name in acc {
                    findings.push(Finding { sig: "structure:close-flagged".into(), msg: format!("op#{}: right after account {k} got flags {:#x}, {name} was accepted", step.index, a1.flags) });
                }
            }
        }
        let (f3, nt3) = c03_step(&mut m.c03, &pre, &post, &step, &r.w);
        findings.extend(f3);
        if nt3 {
            stats.c03_nontrivial += 1;
        }
        if matches!(target, Target::C06) {
            let (f6, nt6) = c06_step(&mut m.c06, &pre, &post, &step, &r.w);
            findings.extend(f6);
            if nt6 {
                stats.c06_probes += 1;
            }
            stats.c06_charged_checks = m.c06.charged_checks;
            stats.c06_charged_zero_borrow_limit = m.c06.charged_zero_borrow_limit;
            stats.c06_prog_fee_checks = m.c06.prog_fee_checks;
            stats.c06_conservation_checks = m.c06.conservation_checks;
            stats.c06_foreign_group_cranks = m.c06.foreign_group_cranks;
        }
        // statistics for the non-trivial rules
        let zero_amount = matches!(step.op, Op::Deposit { .. } | Op::Withdraw { all: false, .. } | Op::Borrow { .. } | Op::Repay { all: false, .. }) && step.amount == 0;
        if step.ok && !step.skipped && zero_amount {
            stats.zero_ops += 1;
        }
        if step.ok && !step.skipped && !zero_amount {
            stats.ok_ops.push(step.op.name());
            match &step.op {
                Op::Borrow { .. } => stats.borrow_ok = true,
                Op::Liquidate { .. } | Op::Bankrupt { .. } | Op::Receivership { .. } => stats.liq_or_bankr = true,
                _ => {}
            }
            let any_accrual = post.banks.iter().any(|(k, b1)| pre.banks.get(k).map(|b0| b0.lsv != b1.lsv).unwrap_or(false));
            if any_accrual {
                stats.accrued_interest = true;
            }
            if stats.accrued_interest && matches!(step.op, Op::Withdraw { .. } | Op::Repay { all: true, .. } | Op::Liquidate { .. } | Op::Bankrupt { .. } | Op::Collect { .. }) && !any_accrual {
                stats.removal_after_accrual = true;
            }
            if stats.accrued_interest && matches!(step.op, Op::Withdraw { .. } | Op::Repay { all: true, .. } | Op::Liquidate { .. } | Op::Bankrupt { .. } | Op::Collect { .. }) {
                stats.removal_after_accrual = true;
            }
            if matches!(step.op, Op::Withdraw { all: true, .. } | Op::Repay { all: true, .. } | Op::CloseBalance { .. }) {
                stats.closed_position = true;
            }
            for (bk, _) in &post.banks {
                let holders = post.accts.values().filter(|a| a.positions.iter().any(|p| p.bank == *bk && (p.a_bits > 0 || p.l_bits > 0))).count();
                if holders >= 2 {
                    stats.shared_bank = true;
                }
            }
            if let (Op::Deposit { up: 2, .. }, Some(bi)) = (&step.op, step.bank) {
                let k = r.w.banks[bi].key;
                if let (Some(b0), Some(b1)) = (pre.banks.get(&k), post.banks.get(&k)) {
                    if b0.lsv != b1.lsv && b1.deposit_limit != u64::MAX {
                        stats.upto_accrual = true;
                    }
                }
            }
        }
        if let Some((_, code)) = step.err {
            stats.fails.push((step.op.name(), code));
        }
        if step.skipped {
            stats.skips.push((step.op.name(), step.skip_why));
        }
        if let (Some(bi), Some((_, code))) = (step.bank, step.err) {
            let _ = bi;
            if code == err_asset_capacity()
                || code == u32::from(marginfi::errors::MarginfiError::BankLiabilityCapacityExceeded) as u64
                || code == u32::from(marginfi::errors::MarginfiError::IllegalUtilizationRatio) as u64
            {
                stats.cap_frontier = true;
            }
        }
        stats.close_bank_ok = m.c02.close_bank_accepted;
        stats.close_bank_ok_after_activity = m.c02.close_bank_accepted_after_activity;
        for b in post.banks.values() {
            stats.max_share_value = stats.max_share_value.max(crate::num::q_f64(&b.asv)).max(crate::num::q_f64(&b.lsv));
            {
                let v = crate::num::q_f64(&b.asv);
                if v > 0.0 && v < 1.0e-4 {
                    stats.tiny_asv_steps += 1;
                }
            }
        }
        stats.max_positions = stats.max_positions.max(m.c16.max_positions);
        stats.opened_by_tag = m.c16.opened_by_tag.clone();
        stats.max_integration = m.c16.max_integration_positions;
        stats.reopened = m.c16.reopened;
        let mut hit: Option<(String, String)> = None;
        for f in findings {
            if f.sig.starts_with(target.prefix()) {
                if hit.is_none() {
                    hit = Some((f.sig, f.msg));
                }
            } else {
                notes.push(f.sig);
            }
        }
        if let Some(h) = hit {
            return Err(h);
        }
    }
    Ok(())
}

fn nontrivial(target: Target, s: &SeqStats) -> bool {
    match target {
        Target::C01 => s.borrow_ok && s.accrued_interest && s.removal_after_accrual,
        Target::C02 => s.shared_bank && s.closed_position && s.liq_or_bankr,
        Target::C16 => s.max_positions >= 3 && (s.closed_position || s.liq_or_bankr),
        Target::C17 => s.cap_frontier || s.upto_accrual,
        Target::C03 => s.c03_nontrivial > 0,
        Target::C06 => s.c06_probes > 0,
    }
}

fn rule(target: Target) -> &'static str {
    match target {
        Target::C01 => "stateful proptest: generated worlds (1-4 banks; SPL/Token-2022/transfer-fee mints; fixed/Pyth/Switchboard oracles; generated curves, fees, weights, limits) x generated op sequences executed through marginfi::entry; after every committed transaction per bank: d(vault) >= d(A*asv - L*lsv + fees) - eps and the cumulative form, eps derived from share magnitudes. Non-trivial = sequence with a successful borrow, an accrual that changed the liability share value, and a later successful value-removing op (withdraw / repay_all / liquidate / bankruptcy / collect). Distinct = hash of the successful-op name sequence + world shape.",
        Target::C02 => "stateful proptest (same campaign): after every committed transaction, for every bank d(total shares) == sum over ALL accounts of d(position shares) bit-exactly, except close_balance / account-close which may abandon < 0.0001 units / < 1 share; running check total - sum(positions) == abandoned dust. Non-trivial = >= 2 accounts hold the same bank, a position was fully closed, and a liquidation/bankruptcy/receivership executed.",
        Target::C16 => "stateful proptest (same campaign): after every committed transaction every MarginfiAccount in the store: distinct banks, one side per bank, sorted active slots, tag rules, <= 8 integration / <= 16 positions, tags stable; close only when empty & unflagged; disabled accounts cannot act; transfer moves positions once. Non-trivial = an account reached >= 3 positions and a position was closed or a liquidation/bankruptcy ran.",
        Target::C03 => "stateful proptest (same campaign): for every successful deposit/withdraw/borrow/repay (+all variants) compare, in exact rationals at the share values the instruction transacted at, tokens the user received vs value removed from the position, and value credited vs tokens that reached the vault (few-ulp allowance); withdraw_all pays <= floor(value), repay_all brings >= debt. Non-trivial = amount > 0 on a bank whose share values differ from 1 (reached by real accrual or real loss socialisation). Plus the exhaustive round-trip driver (see labels).",
        Target::C06 => "stateful proptest (same campaign) + differential probe: after every successful transacting instruction bank.last_update == clock and share values never decrease; from the pre-state, [accrue; op] and [op] must end in bit-identical bank totals/share values/fees/vaults and user shares (an instruction that transacts against stale share values differs); accrue twice at one timestamp leaves the bank bytes unchanged; and, independently of the program's accrual code, whenever such an instruction finds the bank last updated at t0 < now with >= 1 unit of deposits and of debt, the liability share value must have grown by at least lsv x (exact seven-point curve at the pre-state utilisation - 2^-12 + fixed insurance and group fees; legacy curve: fixed fees only) x dt / year (evaluated when that is >= 256 ulps; counted, also separately for banks whose borrow limit is 0). over every interest crank that changed the bank, d(debt) = d(deposits) + d(fees) within 64 magnitude-scaled ulps, both directions; a bank of a group whose program-fee switch is off books no program fee in any step that charges fees through accrual only (crank, deposit, withdraw, repay, balance closure); the interest crank sent with a freshly created foreign group in its group slot is refused or leaves the bank exactly where the honest crank does. Non-trivial = probe executed on a bank with loans and dt > 0. Plus the pure accrual-function check (labels accrual:*).",
        Target::C17 => "stateful proptest (same campaign, limits drawn from {0, small, mid, u64::MAX}): after successful deposit A*asv < deposit_limit, after successful borrow L*lsv < borrow_limit and A*asv > L*lsv - 1 ulp (2^-48 native units: the truncation of the program's own I80F48 comparison), after withdraw the same, deposit_up_to_limit never fails with the capacity error. Non-trivial = a capacity/limit/utilisation rejection was observed in the sequence (the frontier was reached) or an up-to-limit deposit accrued interest inside the instruction.",
    }
}

pub fn run_target(ctx: &Ctx, target: Target) -> Report {
    let cases_per_worker: u32 = ctx.tier.pick(6000, 60000);
    let cfg = GenCfg { max_ops: ctx.tier.pick(40, 100), ..GenCfg::default() };
    let mut rep = par_workers(ctx.threads, |wi| {
        let mut rep = Report::new(rule(target));
        let strat = case_strategy(&cfg);
        let outcome = run_prop(ctx.seed_bytes("campaign", wi as u64), cases_per_worker, &strat, |(spec, ops), counting| {
            let mut stats = SeqStats::default();
            let mut notes = vec![];
            let r = run_case(target, spec, ops, &mut stats, &mut notes);
            if counting {
                rep.eval();
                rep.add_extra("ops_executed", ops.len() as u64);
                rep.add_extra("ops_succeeded", stats.ok_ops.len() as u64);
                rep.add_extra("zero_amount_ops", stats.zero_ops);
                for (t, n) in &stats.opened_by_tag {
                    rep.label_n(&format!("position-opened:tag{t}"), *n);
                }
                rep.set_max("max_integration_positions_in_one_account", stats.max_integration as f64);
                rep.set_max("max_share_value_reached", stats.max_share_value);
                rep.add_extra("close_bank_accepted", stats.close_bank_ok);
                if matches!(target, Target::C06) {
                    rep.add_extra("interest_really_charged_evaluations", stats.c06_charged_checks);
                    rep.add_extra("interest_really_charged_evaluations_on_banks_with_borrow_limit_0", stats.c06_charged_zero_borrow_limit);
                    rep.add_extra("program_fee_zero_while_disabled_evaluations", stats.c06_prog_fee_checks);
                    rep.add_extra("crank_conservation_evaluations", stats.c06_conservation_checks);
                    rep.add_extra("interest_cranks_with_a_foreign_group_refused_or_identical", stats.c06_foreign_group_cranks);
                }
                rep.add_extra("disabled_accounts_probed", stats.disabled_probed);
                rep.add_extra("close_probes_on_empty_frozen_or_disabled_accounts", stats.close_probes_on_empty_flagged);
                rep.add_extra("close_bank_accepted_after_activity", stats.close_bank_ok_after_activity);
                rep.add_extra("steps_with_a_deposit_share_value_in_(0,0.0001)", stats.tiny_asv_steps);
                if stats.max_share_value >= 1.0e4 {
                    rep.label("share-value>=1e4");
                }
                for n in &notes {
                    rep.label(&format!("note:{n}"));
                }
                for o in &stats.ok_ops {
                    rep.label(&format!("ok:{o}"));
                }
                for (o, c) in &stats.skips {
                    rep.label(&format!("skip:{o}:{c}"));
                }
                for (o, c) in &stats.fails {
                    if matches!(*o, "liquidate" | "bankruptcy" | "receivership" | "flashloan" | "borrow") {
                        rep.label(&format!("fail:{o}:{c}"));
                    }
                }
                if nontrivial(target, &stats) {
                    let w = json!({"ok": stats.ok_ops, "banks": spec.banks.len(), "tok": spec.banks.iter().map(|b| b.token).collect::<Vec<_>>()});
                    rep.nontrivial_case(&w);
                    if rep.samples.len() < 3 {
                        rep.sample(json!({"world_banks": spec.banks.len(), "token_kinds": spec.banks.iter().map(|b| b.token).collect::<Vec<_>>(), "decimals": spec.banks.iter().map(|b| b.decimals).collect::<Vec<_>>(), "successful_ops": stats.ok_ops}));
                    }
                }
            }
            r.map_err(|(s, m)| format!("{s}|{m}"))
        });
        if let Some(((spec, ops), msg)) = outcome.failure {
            let (sig, m) = msg.split_once('|').map(|(a, b)| (a.to_string(), b.to_string())).unwrap_or((msg.clone(), msg.clone()));
            rep.violation(&sig, m, json!({"spec": spec, "ops": ops}));
        }
        rep
    });
    rep.nontrivial_floor = ctx.tier.pick(20, 200);
    rep
}

pub fn replay_target(_ctx: &Ctx, target: Target, case: &Value) -> Report {
    let mut rep = Report::new(rule(target));
    rep.nontrivial_floor = 0;
    let spec: WorldSpec = match serde_json::from_value(case["spec"].clone()) {
        Ok(s) => s,
        Err(e) => {
            rep.engine_errors.push(format!("bad replay spec: {e}"));
            return rep;
        }
    };
    let ops: Vec<Op> = match serde_json::from_value(case["ops"].clone()) {
        Ok(s) => s,
        Err(e) => {
            rep.engine_errors.push(format!("bad replay ops: {e}"));
            return rep;
        }
    };
    let mut stats = SeqStats::default();
    let mut notes = vec![];
    rep.eval();
    if let Err((sig, msg)) = run_case(target, &spec, &ops, &mut stats, &mut notes) {
        rep.violation(&sig, msg, case.clone());
    }
    rep
}

/// one case for the coverage-guided driver: Some((signature, message, replay)) on a finding
pub fn fuzz_one(target: &str, spec: &WorldSpec, ops: &[Op]) -> Option<(String, String, Value)> {
    let t = match target {
        "C01" => Target::C01,
        "C02" => Target::C02,
        "C03" => Target::C03,
        "C06" => Target::C06,
        "C16" => Target::C16,
        "C17" => Target::C17,
        _ => return None,
    };
    let mut stats = SeqStats::default();
    let mut notes = vec![];
    match run_case(t, spec, ops, &mut stats, &mut notes) {
        Ok(()) => None,
        Err((sig, msg)) => Some((sig, msg, json!({"spec": spec, "ops": ops}))),
    }
}
