//! C09 (instruction-level half): instructions presented with a doctored oracle account.
use crate::common::*;
use crate::props::c04::c04_bank_strategy_pub;
use crate::svm::{Acct, Vm};
use crate::world::*;
use proptest::prelude::*;
use serde::{Deserialize, Serialize};
use serde_json::{json, Value};

#[derive(Clone, Debug, Serialize, Deserialize)]
pub struct OCase {
    pub spec: WorldSpec,
    pub collateral: u64,
    pub borrow_frac: u32,
    /// which oracle is doctored: 0 collateral bank, 1 debt bank, 2 a second collateral bank that the instruction
    /// itself does not transact in (neither seized nor repaid)
    pub which: u8,
    /// 0 stale, 1 wrong owner, 2 wrong discriminator, 3 truncated, 4 confidence too wide, 5 partial verification,
    /// 6 other bank's oracle bytes at... (key substitution), 7 zero price, 8 negative price, 9 missing account
    pub fault: u8,
    /// make the account liquidatable first (crash collateral to this per-mille)
    pub crash_pm: u16,
    /// operational state of the doctored bank when it is a collateral bank (which 0 / 2): 0 operational, 1 the admin
    /// set it reduce-only after the positions were opened (its deposits "still count for liquidation purposes", so an
    /// unusable oracle must still make every assessment fail)
    #[serde(default)]
    pub state: u8,
}

pub fn case_strategy() -> impl Strategy<Value = OCase> {
    (prop::collection::vec(c04_bank_strategy_pub(), 3..=3), 1_000_000u64..1_000_000_000_000, 20_000u32..60_000, 0u8..3, 0u8..10, prop_oneof![Just(1000u16), 200u16..700], prop_oneof![3 => Just(0u8), 2 => Just(1u8)]).prop_map(|(mut banks, collateral, borrow_frac, which, fault, crash_pm, state)| {
        for b in banks.iter_mut() {
            b.init_limit = 0;
            b.emode_tag = 0;
            b.emode_entries.clear();
            b.isolated = false;
            if b.aw_i < 100_000 {
                b.aw_i += 300_000;
            }
            if b.aw_m < b.aw_i {
                b.aw_m = b.aw_i;
            }
            // both banks on Pyth so that every fault class applies
            if b.oracle.kind != 1 {
                let m = b.oracle.mant;
                b.oracle = OracleSpec::pyth(m, b.oracle.expo, (m as u64) / 200);
            }
        }
        OCase { spec: WorldSpec { banks, n_users: 3, program_fees_enabled: false, ..WorldSpec::default() }, collateral, borrow_frac, which, fault, crash_pm, state }
    })
}

fn doctor(w: &mut World, bi: usize, fault: u8, other: usize) {
    let key = w.banks[bi].oracle_key;
    let now = w.vm.now();
    let o = w.banks[bi].spec.oracle.clone();
    match fault {
        0 => w.vm.set(key, pyth_acct(o.mant, o.conf, o.expo, o.ema_mant, o.ema_conf, now - 101)),
        1 => w.vm.modify(&key, |a| a.owner = solana_program::system_program::ID),
        2 => w.vm.modify(&key, |a| a.data[0] ^= 0xff),
        3 => w.vm.modify(&key, |a| a.data.truncate(40)),
        4 => w.vm.set(key, pyth_acct(o.mant, (o.mant as u64) / 4, o.expo, o.ema_mant, (o.ema_mant as u64) / 4, now)),
        5 => {
            // verification level byte follows discriminator(8) + write_authority(32): 0 = Partial{num_signatures}
            w.vm.modify(&key, |a| {
                let mut d = a.data[..40].to_vec();
                d.push(0);
                d.push(5);
                d.extend_from_slice(&a.data[41..]);
                a.data = d;
            })
        }
        6 => {
            // the other bank's (authentic, fresh) oracle account bytes under this key would be a price for
            // the wrong asset but still authentic; the key-substitution case is: present the OTHER oracle
            // account in this bank's slot. Done by the caller through the instruction's account list.
            let _ = other;
        }
        7 => w.vm.set(key, pyth_acct(0, 0, o.expo, 0, 0, now)),
        8 => w.vm.set(key, pyth_acct(-o.mant, o.conf, o.expo, -o.ema_mant, o.ema_conf, now)),
        _ => {
            w.vm.accts.remove(&key);
        }
    }
}

#[derive(Default, Debug)]
pub struct Stats {
    pub prepared: bool,
    pub baseline_ok: Vec<&'static str>,
    pub asserted: u64,
    pub reduce_only: bool,
}

fn substitute_oracle(ix: &mut solana_program::instruction::Instruction, from: solana_program::pubkey::Pubkey, to: solana_program::pubkey::Pubkey) {
    for m in ix.accounts.iter_mut() {
        if m.pubkey == from {
            m.pubkey = to;
        }
    }
}

pub fn run_case(c: &OCase, stats: &mut Stats) -> Result<(), (String, String)> {
    let Ok(mut w) = World::build(&c.spec) else { return Ok(()) };
    let (ab, lb) = (0usize, 1usize);
    let lender = w.users[0].clone();
    let u = w.users[1].clone();
    let l = w.users[2].clone();
    for bi in [ab, lb] {
        let ix = w.ix_deposit(lender.accts[0], lender.auth, bi, lender.tokens[bi], 1_000_000_000_000_000, None);
        if w.vm.exec(&ix).is_err() {
            return Ok(());
        }
    }
    let ix = w.ix_deposit(u.accts[0], u.auth, ab, u.tokens[ab], c.collateral, None);
    if w.vm.exec(&ix).is_err() {
        return Ok(());
    }
    let cb = 2usize;
    if c.which == 2 {
        // second collateral position in the third bank
        let ix = w.ix_deposit(u.accts[0], u.auth, cb, u.tokens[cb], (c.collateral / 3).max(1), None);
        if w.vm.exec(&ix).is_err() {
            return Ok(());
        }
    }
    let ix = w.ix_deposit(l.accts[0], l.auth, lb, l.tokens[lb], 1_000_000_000_000, None);
    let _ = w.vm.exec(&ix);
    // borrow by bisection-free estimate: try decreasing fractions of the liquidity
    let liq = w.tok(&w.banks[lb].lv);
    let mut amt = ((liq as u128 * c.borrow_frac as u128) >> 16) as u64;
    let mut borrowed = 0u64;
    for _ in 0..40 {
        if amt == 0 {
            break;
        }
        let ix = w.ix_borrow(u.accts[0], u.auth, lb, u.tokens[lb], amt);
        if w.vm.exec(&ix).is_ok() {
            borrowed = amt;
            break;
        }
        amt /= 2;
    }
    if borrowed == 0 {
        return Ok(());
    }
    if c.crash_pm < 1000 {
        let o = w.banks[ab].spec.oracle.clone();
        let nm = ((o.mant as i128 * c.crash_pm as i128) / 1000).max(1) as i64;
        let _ = w.set_price(ab, nm, (nm as u64) / 200, nm, (nm as u64) / 200);
    }
    let rec = w.ix_init_liq_record(u.accts[0], l.auth);
    let _ = w.vm.exec(&rec);
    if c.state == 1 && c.which != 1 {
        let bi = if c.which == 0 { ab } else { cb };
        let mut o = marginfi_type_crate::types::BankConfigOpt::default();
        o.operational_state = Some(marginfi_type_crate::types::BankOperationalState::ReduceOnly);
        if w.vm.exec(&w.ix_configure_bank(bi, o, w.roles.admin)).is_err() {
            return Ok(());
        }
        stats.reduce_only = true;
    }
    stats.prepared = true;
    // candidate instructions (built against the clean world)
    let small = (borrowed / 100).max(1);
    let wd = (c.collateral / 100).max(1);
    let risk = w.risk_metas(&u.accts[0], None, None);
    let mk: Vec<(&'static str, Vec<solana_program::instruction::Instruction>)> = vec![
        ("borrow", vec![w.ix_borrow(u.accts[0], u.auth, lb, u.tokens[lb], small)]),
        ("withdraw", vec![w.ix_withdraw(u.accts[0], u.auth, ab, u.tokens[ab], wd, None)]),
        ("liquidate", vec![w.ix_liquidate(l.accts[0], l.auth, u.accts[0], ab, lb, wd)]),
        ("bankruptcy", vec![w.ix_bankruptcy(lb, u.accts[0], w.roles.admin)]),
        (
            "receivership",
            vec![
                w.ix_start_liquidation(u.accts[0], l.auth),
                w.ix_withdraw_with(u.accts[0], l.auth, ab, l.tokens[ab], (wd / 10).max(1), None, risk.clone()),
                w.ix_repay(u.accts[0], l.auth, lb, l.tokens[lb], small, None),
                w.ix_end_liquidation(u.accts[0], l.auth, risk.clone()),
            ],
        ),
        // a bracket that seizes nothing (no instruction of it needs the collateral price for itself)
        ("receivership-repay-only", vec![w.ix_start_liquidation(u.accts[0], l.auth), w.ix_repay(u.accts[0], l.auth, lb, l.tokens[lb], small, None), w.ix_end_liquidation(u.accts[0], l.auth, risk.clone())]),
    ];
    let mut base_ok: Vec<bool> = vec![];
    for (name, ixs) in &mk {
        let mut vm = w.vm.clone();
        let ok = vm.exec_tx(ixs).ok;
        base_ok.push(ok);
        if ok {
            stats.baseline_ok.push(name);
        }
    }
    // doctor one oracle
    let bi = match c.which {
        0 => ab,
        1 => lb,
        _ => cb,
    };
    let other = if c.which == 1 { ab } else { lb };
    let mut wd_world = w.clone();
    doctor(&mut wd_world, bi, c.fault, other);
    let unusable = true;
    let fault_name = ["stale", "wrong-owner", "wrong-discriminator", "truncated", "confidence-too-wide", "partial-verification", "other-banks-oracle", "zero-price", "negative-price", "missing"][c.fault as usize];
    let side = match c.which {
        0 => "collateral",
        1 => "debt",
        _ => "other-collateral",
    };
    for (i, (name, ixs)) in mk.iter().enumerate() {
        let mut ixs = ixs.clone();
        if c.fault == 6 {
            for ix in ixs.iter_mut() {
                substitute_oracle(ix, w.banks[bi].oracle_key, w.banks[other].oracle_key);
            }
        }
        let mut vm: Vm = wd_world.vm.clone();
        let ok = vm.exec_tx(&ixs).ok;
        // expectations from the statement
        let non_positive = c.fault == 7 || c.fault == 8;
        let must_fail = if non_positive {
            // a zero or negative price can never be used to seize collateral or size a liquidation
            // (other decisions are not claimed by the statement for an authentic non-positive price)
            matches!((*name, c.which), ("liquidate", 0) | ("liquidate", 1) | ("receivership", 0))
        } else {
            match (*name, c.which) {
            // every valuation of debt fails; liquidation / bankruptcy assessments fail
            (_, 1) => unusable,
            // collateral oracle unusable: liquidation and bankruptcy assessments fail (they need the price);
            // the receivership start assesses maintenance health (fails); a zero/negative price can never
            // be used to seize collateral
            ("liquidate", 0) | ("bankruptcy", 0) | ("receivership", 0) | ("receivership-repay-only", 0) => unusable,
            // for borrowing purposes the collateral counts as worth nothing: this account's only
            // collateral is that bank, so no new borrow and no withdrawal with debt outstanding can pass
            ("borrow", 0) | ("withdraw", 0) => unusable,
            // a collateral bank the instruction does not transact in: the liquidatee's health cannot be
            // assessed, so every liquidation / bankruptcy assessment fails (borrow / withdraw may go on with
            // that collateral counted as nothing: no claim)
            ("liquidate", 2) | ("bankruptcy", 2) | ("receivership", 2) | ("receivership-repay-only", 2) => unusable,
            _ => false,
            }
        };
        if must_fail {
            stats.asserted += 1;
            if ok {
                return Err((format!("instruction:{name}:{side}:{fault_name}"), format!("{name} succeeded although the {side} bank's oracle is {fault_name} (baseline with the authentic oracle: {})", if base_ok[i] { "ok" } else { "rejected" })));
            }
        }
    }
    let _ = Acct::default();
    Ok(())
}

pub const RULE: &str = "instruction level: generated 3-bank worlds on Pyth oracles, a borrower (optionally made liquidatable), then borrow / withdraw / classic liquidate / bankruptcy / receivership bracket are executed with ONE doctored oracle (collateral bank, debt bank, or a second collateral bank that the instruction does not transact in; stale, wrong owner, wrong discriminator, truncated, confidence > 10%, partial verification, another bank's authentic oracle in its place, zero price, negative price, missing): every one must fail (debt cannot be valued; liquidation/bankruptcy cannot be assessed; the account's only collateral counts as nothing; non-positive prices cannot seize). Non-trivial = asserted cells in worlds where at least one baseline instruction succeeded.";

pub fn run(ctx: &Ctx) -> Report {
    let cases: u32 = ctx.tier.pick(1500, 60_000);
    par_workers(ctx.threads, |wi| {
        let mut rep = Report::new(RULE);
        let strat = case_strategy();
        let outcome = run_prop(ctx.seed_bytes("c09b", wi as u64), cases, &strat, |c, counting| {
            let mut st = Stats::default();
            let r = run_case(c, &mut st);
            if counting {
                rep.eval();
                rep.add_extra("instruction_cells_asserted", st.asserted);
                for b in &st.baseline_ok {
                    rep.label(&format!("baseline-ok:{b}"));
                }
                if st.prepared && !st.baseline_ok.is_empty() {
                    rep.nontrivial_case(&json!({"w": c.which, "f": c.fault, "c": c.crash_pm, "b": st.baseline_ok}));
                    rep.label(&format!("fault:{}:{}", c.which, c.fault));
                    if st.reduce_only {
                        rep.label("doctored-collateral-bank-reduce-only");
                    }
                    if rep.samples.len() < 2 {
                        rep.sample(json!({"instruction_level": {"doctored": (["collateral", "debt", "other-collateral"][c.which as usize % 3]), "fault": c.fault, "baseline_ok": st.baseline_ok}}));
                    }
                }
            }
            r.map_err(|(s, m)| format!("{s}|{m}"))
        });
        if let Some((c, msg)) = outcome.failure {
            let (sig, m) = msg.split_once('|').map(|(a, b)| (a.to_string(), b.to_string())).unwrap_or((msg.clone(), msg.clone()));
            let mut v = serde_json::to_value(&c).unwrap();
            v["half"] = json!("c09b");
            rep.violation(&sig, m, v);
        }
        rep
    })
}

pub fn replay(_ctx: &Ctx, case: &Value) -> Report {
    let mut rep = Report::new(RULE);
    rep.nontrivial_floor = 0;
    match serde_json::from_value::<OCase>(case.clone()) {
        Ok(c) => {
            let mut st = Stats::default();
            rep.eval();
            if let Err((sig, msg)) = run_case(&c, &mut st) {
                rep.violation(&sig, msg, case.clone());
            }
        }
        Err(e) => rep.engine_errors.push(format!("bad replay: {e}")),
    }
    rep
}
