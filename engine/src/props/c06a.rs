//! C06 (a) -- pure-function half of "interest accrual conserves value and is monotone".
//!
//! Statement checked (first sentence of C06): accruing interest never decreases a bank's deposit
//! or liability share value; over any accrual the increase in total debt equals the increase in
//! total deposits plus the insurance, group and program fees booked, within the fixed-point
//! allowance; fees are never negative; program fees are zero when disabled for the group.
//!
//! Code under test: `calc_interest_rate_accrual_state_changes` reached exactly the way
//! `Bank::accrue_interest` reaches it: `InterestRateConfig::validate`, then
//! `create_interest_rate_calculator(&group)`, totals = floor(shares x share value).
//!
//! ------------------------------------------------------------------------------------------
//! Derivation of the allowance (all quantities exact rationals, ulp = 2^-48, ty = dt / Y)
//! ------------------------------------------------------------------------------------------
//! Inputs of the caller: A, L (shares), asv, lsv.  The caller passes the truncated totals
//!   T_A = floor(A*asv) = A*asv - tA,   T_L = floor(L*lsv) = L*lsv - tL      (tA, tL in [0,ulp), known exactly)
//! Every I80F48 mul/div in the function truncates downwards (all operands are >= 0); products with
//! the integer `time_delta` and all additions are exact.  Let b be the base rate the code computed
//! (any I80F48 value; its accuracy is irrelevant for conservation), R = sum of the active rate fees,
//! F = sum of the active fixed fees.  The truncating operations, in program order:
//!   u      = T_L/T_A            - du      (1 div)
//!   lend   = b*u                - e1      (1 mul)
//!   bor    = b*(1+R)            - e4 + F  (1 mul)
//!   rate_x = b*r_x              - e7x + f_x   (1 mul per fee with r_x != 0; n7 of them)
//!   irp_l  = lend*dt/Y          - e2      (1 div)        irp_b = bor*dt/Y - e5   (1 div)
//!   asv'   = asv*(1+irp_l)      - e3      (1 mul)        lsv'  = lsv*(1+irp_b) - e6 (1 mul)
//!   fee_x  = ((T_L*rate_x - e8x)*dt)/Y - e9x   (1 mul + 1 div per fee with rate_x != 0; n8 of them)
//! with every e in [0, ulp).  Expanding
//!   G_A = A*(asv'-asv) = (T_A+tA) * ((b*(T_L/T_A - du) - e1)*ty - e2) - A*e3
//!   G_L = L*(lsv'-lsv) = (T_L+tL) * ((b*(1+R) + F - e4)*ty - e5)      - L*e6
//!   FEE = sum fee_x    = T_L*(b*R + F)*ty - T_L*(sum e7x)*ty - (sum e8x)*ty - sum e9x
//! the leading terms T_L*b*ty, T_L*(b*R+F)*ty cancel in D = G_L - G_A - FEE and what remains is
//!   D =  tL*(b*(1+R)+F)*ty                                   [>= 0]
//!      + (T_A+tA)*((b*du + e1)*ty + e2) + A*e3               [>= 0]
//!      + T_L*(sum e7x)*ty + (sum e8x)*ty + sum e9x           [>= 0]
//!      - (T_L+tL)*(e4*ty + e5) - L*e6                        [<= 0]
//!      - tA*(T_L/T_A)*b*ty                                   [<= 0]
//! Hence  -eps_neg < D < eps_pos  with
//!   eps_pos = tL*(b*(1+R)+F)*ty + ulp*[ (T_A+tA)*((b+1)*ty + 1) + A + (n7*T_L + n8)*ty + n8 ]
//!   eps_neg = ulp*[ (T_L+tL)*(ty + 1) + L ] + tA*(T_L/T_A)*b*ty
//! (7 truncating operations + 3 per active fee inside the function, + the 2 truncated totals of the caller;
//! each is weighted by the magnitude that flows through it, none is double counted.)
//! D < 0 means lenders + fee collectors were credited more than borrowers were charged (dangerous),
//! D > 0 means borrowers were charged more than anybody was credited (dust stays in the bank).
//! b is not observable from the result, so the bound uses b_hi = b_model + 2^-10 where b_model is the
//! exact piecewise-linear curve at T_L/T_A: the code's knots are truncated by < 1 ulp in x and
//! <= 10 ulp in y and u by < 1 ulp, the steepest admissible segment has slope 10*(2^32-1), so the
//! code's b exceeds b_model by less than 10*2^32*2^-48*(1+2^-15) < 2^-12; for the legacy curve every
//! truncation lowers b.  b_hi only scales second-order terms.
use crate::common::*;
use crate::num::*;
use bytemuck::Zeroable;
use fixed::types::I80F48;
use marginfi::state::interest_rate::{
    calc_interest_rate_accrual_state_changes, InterestRateConfigImpl,
};
use marginfi::state::marginfi_group::PROGRAM_FEES_ENABLED;
use marginfi_type_crate::types::{
    InterestRateConfig, MarginfiGroup, RatePoint, INTEREST_CURVE_LEGACY,
    INTEREST_CURVE_SEVEN_POINT,
};
use num_bigint::BigInt;
use num_integer::Integer;
use num_traits::{One, Signed, Zero};
use proptest::prelude::*;
use serde_json::{json, Value};
use std::panic::{catch_unwind, AssertUnwindSafe};

const RULE: &str = "generated: valid InterestRateConfig (85% seven-point curve with 0-5 sorted/unique/non-decreasing points, \
zero/hundred rates 0..1000%, 15% legacy curve), insurance/group fixed+rate fees in [0,1) as I80F48 bit patterns (many exact zeros), \
group program-fee flag on/off with cached program_fee_fixed/rate in [0,1) either way; asset shares 1..1e18 (log-uniform), share values \
1e-6..1e6 as bit patterns (biased to 1..1.5), liability shares derived from a target utilisation (70% inside (0,1), rest near curve knots / 1, \
slightly above 1, tiny, exactly equal; 2^-20..1e18 shares); dt in {1,2,59,60,3600,86400,1y,5y} or log-uniform 1s..5y. Totals are floor(shares*value) exactly as \
Bank::accrue_interest computes them. NON-TRIVIAL = function returned Some, dt>0, utilisation strictly inside (0,1) and not truncated to 0, \
at least one active non-zero fee, asv != 1 and lsv != 1.";

const NONTRIVIAL_SET_CAP: usize = 400_000;
const ONE: i128 = 1i128 << 48;
const Y_SECS: u64 = 31_536_000;
const MAX_DT: u64 = 5 * Y_SECS;
/// 1e-6 and 1e6 as I80F48 bits (rounded inwards)
const SV_MIN: i128 = 281_474_977;
const SV_MAX: i128 = 1_000_000 * ONE;
const SHARES_MAX: i128 = 1_000_000_000_000_000_000 * ONE;

// ------------------------------------------------------------------------------------------
// the case
// ------------------------------------------------------------------------------------------
#[derive(Clone, Debug, PartialEq)]
pub struct Case {
    curve_type: u8,
    // legacy curve (I80F48 bits)
    opt: i128,
    plateau: i128,
    max: i128,
    // seven point curve
    zero_rate: u32,
    hundred_rate: u32,
    points: Vec<(u32, u32)>,
    // fees (I80F48 bits)
    ins_fixed: i128,
    ins_ir: i128,
    grp_fixed: i128,
    grp_ir: i128,
    prog_on: bool,
    prog_fixed: i128,
    prog_rate: i128,
    // bank state (I80F48 bits)
    a_shares: i128,
    l_shares: i128,
    asv: i128,
    lsv: i128,
    dt: u64,
}

fn case_json(c: &Case) -> Value {
    json!({
        "curve_type": c.curve_type,
        "opt": c.opt.to_string(), "plateau": c.plateau.to_string(), "max": c.max.to_string(),
        "zero_rate": c.zero_rate, "hundred_rate": c.hundred_rate,
        "points": c.points.iter().map(|(u, r)| json!([u, r])).collect::<Vec<_>>(),
        "ins_fixed": c.ins_fixed.to_string(), "ins_ir": c.ins_ir.to_string(),
        "grp_fixed": c.grp_fixed.to_string(), "grp_ir": c.grp_ir.to_string(),
        "prog_on": c.prog_on,
        "prog_fixed": c.prog_fixed.to_string(), "prog_rate": c.prog_rate.to_string(),
        "a_shares": c.a_shares.to_string(), "l_shares": c.l_shares.to_string(),
        "asv": c.asv.to_string(), "lsv": c.lsv.to_string(),
        "dt": c.dt,
    })
}

fn case_from_json(v: &Value) -> Option<Case> {
    let s = |k: &str| -> Option<i128> { v.get(k)?.as_str()?.parse::<i128>().ok() };
    let n = |k: &str| -> Option<u64> { v.get(k)?.as_u64() };
    let mut points = vec![];
    for p in v.get("points")?.as_array()? {
        let a = p.as_array()?;
        points.push((a.first()?.as_u64()? as u32, a.get(1)?.as_u64()? as u32));
    }
    Some(Case {
        curve_type: n("curve_type")? as u8,
        opt: s("opt")?,
        plateau: s("plateau")?,
        max: s("max")?,
        zero_rate: n("zero_rate")? as u32,
        hundred_rate: n("hundred_rate")? as u32,
        points,
        ins_fixed: s("ins_fixed")?,
        ins_ir: s("ins_ir")?,
        grp_fixed: s("grp_fixed")?,
        grp_ir: s("grp_ir")?,
        prog_on: v.get("prog_on")?.as_bool()?,
        prog_fixed: s("prog_fixed")?,
        prog_rate: s("prog_rate")?,
        a_shares: s("a_shares")?,
        l_shares: s("l_shares")?,
        asv: s("asv")?,
        lsv: s("lsv")?,
        dt: n("dt")?,
    })
}

fn case_hash(c: &Case) -> u64 {
    let mut b: Vec<u8> = Vec::with_capacity(320);
    b.push(c.curve_type);
    for x in [
        c.opt, c.plateau, c.max, c.ins_fixed, c.ins_ir, c.grp_fixed, c.grp_ir, c.prog_fixed,
        c.prog_rate, c.a_shares, c.l_shares, c.asv, c.lsv,
    ] {
        b.extend_from_slice(&x.to_le_bytes());
    }
    b.extend_from_slice(&c.zero_rate.to_le_bytes());
    b.extend_from_slice(&c.hundred_rate.to_le_bytes());
    for (u, r) in &c.points {
        b.extend_from_slice(&u.to_le_bytes());
        b.extend_from_slice(&r.to_le_bytes());
    }
    b.push(c.prog_on as u8);
    b.extend_from_slice(&c.dt.to_le_bytes());
    fnv(&b)
}

// ------------------------------------------------------------------------------------------
// exact arithmetic: unreduced big fractions (BigRational's gcd per operation costs ~10x more and
// the chains here are short, so numerators/denominators stay below a few thousand bits)
// ------------------------------------------------------------------------------------------
#[derive(Clone, Debug)]
struct F {
    n: BigInt,
    d: BigInt, // > 0
}
impl F {
    fn new<A: Into<BigInt>, B: Into<BigInt>>(n: A, d: B) -> F {
        let (n, d): (BigInt, BigInt) = (n.into(), d.into());
        if d.is_negative() {
            F { n: -n, d: -d }
        } else {
            F { n, d }
        }
    }
    fn int<A: Into<BigInt>>(n: A) -> F {
        F { n: n.into(), d: BigInt::one() }
    }
    /// value of an I80F48 bit pattern
    fn bits(b: i128) -> F {
        F { n: BigInt::from(b), d: two48() }
    }
    fn zero() -> F {
        F::int(0)
    }
    fn one() -> F {
        F::int(1)
    }
    fn is_zero(&self) -> bool {
        self.n.is_zero()
    }
    fn floor(&self) -> BigInt {
        self.n.div_floor(&self.d)
    }
    fn to_q(&self) -> Q {
        Q::new(self.n.clone(), self.d.clone())
    }
    fn f64(&self) -> f64 {
        q_f64(&self.to_q())
    }
    fn show(&self) -> String {
        q_str(&self.to_q())
    }
    fn max(self, o: F) -> F {
        if self >= o {
            self
        } else {
            o
        }
    }
    fn min(self, o: F) -> F {
        if self <= o {
            self
        } else {
            o
        }
    }
}
impl PartialEq for F {
    fn eq(&self, o: &F) -> bool {
        &self.n * &o.d == &o.n * &self.d
    }
}
impl PartialOrd for F {
    fn partial_cmp(&self, o: &F) -> Option<std::cmp::Ordering> {
        Some((&self.n * &o.d).cmp(&(&o.n * &self.d)))
    }
}
fn f_add(a: &F, b: &F) -> F {
    if a.d == b.d {
        return F { n: &a.n + &b.n, d: a.d.clone() };
    }
    F { n: &a.n * &b.d + &b.n * &a.d, d: &a.d * &b.d }
}
fn f_sub(a: &F, b: &F) -> F {
    if a.d == b.d {
        return F { n: &a.n - &b.n, d: a.d.clone() };
    }
    F { n: &a.n * &b.d - &b.n * &a.d, d: &a.d * &b.d }
}
fn f_mul(a: &F, b: &F) -> F {
    F { n: &a.n * &b.n, d: &a.d * &b.d }
}
fn f_div(a: &F, b: &F) -> F {
    assert!(!b.n.is_zero(), "division by zero in the reference model");
    F::new(&a.n * &b.d, &a.d * &b.n)
}
macro_rules! f_ops {
    ($tr:ident, $m:ident, $f:ident) => {
        impl std::ops::$tr<&F> for &F {
            type Output = F;
            fn $m(self, o: &F) -> F {
                $f(self, o)
            }
        }
        impl std::ops::$tr<F> for &F {
            type Output = F;
            fn $m(self, o: F) -> F {
                $f(self, &o)
            }
        }
        impl std::ops::$tr<&F> for F {
            type Output = F;
            fn $m(self, o: &F) -> F {
                $f(&self, o)
            }
        }
        impl std::ops::$tr<F> for F {
            type Output = F;
            fn $m(self, o: F) -> F {
                $f(&self, &o)
            }
        }
    };
}
f_ops!(Add, add, f_add);
f_ops!(Sub, sub, f_sub);
f_ops!(Mul, mul, f_mul);
f_ops!(Div, div, f_div);
impl std::ops::Neg for &F {
    type Output = F;
    fn neg(self) -> F {
        F { n: -&self.n, d: self.d.clone() }
    }
}
impl std::ops::AddAssign<&F> for F {
    fn add_assign(&mut self, o: &F) {
        *self = f_add(self, o);
    }
}
fn f_ulp() -> F {
    F { n: BigInt::one(), d: two48() }
}

// ------------------------------------------------------------------------------------------
// building the real inputs
// ------------------------------------------------------------------------------------------
fn fx(bits: i128) -> I80F48 {
    I80F48::from_bits(bits)
}

fn build_config(c: &Case) -> InterestRateConfig {
    let mut cfg = InterestRateConfig::zeroed();
    cfg.curve_type = c.curve_type;
    cfg.optimal_utilization_rate = w_from_bits(c.opt);
    cfg.plateau_interest_rate = w_from_bits(c.plateau);
    cfg.max_interest_rate = w_from_bits(c.max);
    cfg.insurance_fee_fixed_apr = w_from_bits(c.ins_fixed);
    cfg.insurance_ir_fee = w_from_bits(c.ins_ir);
    cfg.protocol_fixed_fee_apr = w_from_bits(c.grp_fixed);
    cfg.protocol_ir_fee = w_from_bits(c.grp_ir);
    cfg.zero_util_rate = c.zero_rate;
    cfg.hundred_util_rate = c.hundred_rate;
    for (i, (u, r)) in c.points.iter().take(5).enumerate() {
        cfg.points[i] = RatePoint::new(*u, *r);
    }
    cfg
}

fn build_group(c: &Case) -> MarginfiGroup {
    let mut g = MarginfiGroup::zeroed();
    if c.prog_on {
        g.group_flags |= PROGRAM_FEES_ENABLED;
    }
    g.fee_state_cache.program_fee_fixed = w_from_bits(c.prog_fixed);
    g.fee_state_cache.program_fee_rate = w_from_bits(c.prog_rate);
    g
}

// ------------------------------------------------------------------------------------------
// exact reference pieces (from the statement / Appendix C, never calling the code under test)
// ------------------------------------------------------------------------------------------
fn lerp_q(sx: &F, sy: &F, ex: &F, ey: &F, t: &F) -> F {
    if ex <= sx {
        return sy.clone();
    }
    sy + (ey - sy) * (t - sx) / (ex - sx)
}

/// base APR of the configured curve at utilisation `u` (exact)
fn curve_model(c: &Case, u: &F) -> F {
    if c.curve_type == INTEREST_CURVE_LEGACY {
        let opt = F::bits(c.opt);
        let pl = F::bits(c.plateau);
        let mx = F::bits(c.max);
        if *u <= opt {
            u / &opt * &pl
        } else {
            (u - &opt) / (F::one() - &opt) * (&mx - &pl) + &pl
        }
    } else {
        let m = F::int(u32::MAX);
        let rate = |r: u32| F::int(r) * F::int(10) / &m;
        let ur = u.clone().max(F::zero()).min(F::one());
        let mut px = F::zero();
        let mut py = rate(c.zero_rate);
        for (pu, pr) in c.points.iter().filter(|p| p.0 != 0) {
            let x = F::int(*pu) / &m;
            let y = rate(*pr);
            if ur <= x {
                return lerp_q(&px, &py, &x, &y, &ur);
            }
            px = x;
            py = y;
        }
        lerp_q(&px, &py, &F::one(), &rate(c.hundred_rate), &ur)
    }
}

fn limit() -> F {
    F::int(BigInt::one() << 79)
}

struct Outcome {
    viol: Vec<(String, String)>,
    labels: Vec<&'static str>,
    nontrivial: bool,
    discarded: bool,
    ratio_pos: f64,
    ratio_neg: f64,
    /// max(eps_pos, eps_neg) when shares and totals are <= 1e12 and utilisation <= 1 (else negative)
    eps_moderate: f64,
    /// the same, additionally dt <= 1 day
    eps_moderate_day: f64,
}

fn evaluate(c: &Case) -> Outcome {
    let mut o = Outcome {
        viol: vec![],
        labels: vec![],
        nontrivial: false,
        discarded: false,
        ratio_pos: 0.0,
        ratio_neg: 0.0,
        eps_moderate: -1.0,
        eps_moderate_day: -1.0,
    };
    let cfg = build_config(c);
    let valid = catch_unwind(AssertUnwindSafe(|| cfg.validate().is_ok())).unwrap_or(false);
    if !valid {
        o.discarded = true;
        o.labels.push("discard:config-rejected-by-validate");
        return o;
    }
    o.labels.push(if c.curve_type == INTEREST_CURVE_LEGACY { "curve:legacy" } else { "curve:seven-point" });
    if c.curve_type == INTEREST_CURVE_SEVEN_POINT {
        o.labels.push(match c.points.len() {
            0 => "points:0",
            1 => "points:1",
            2 => "points:2",
            3 => "points:3",
            4 => "points:4",
            _ => "points:5",
        });
    }
    let group = build_group(c);

    // ---- what the caller (Bank::accrue_interest) does before the pure function ----
    let a = F::bits(c.a_shares);
    let l = F::bits(c.l_shares);
    let asv = F::bits(c.asv);
    let lsv = F::bits(c.lsv);
    let a_val = &a * &asv;
    let l_val = &l * &lsv;
    if c.dt == 0 {
        o.discarded = true;
        o.labels.push("discard:dt=0 (caller returns early)");
        return o;
    }
    let (Some(ta_f), Some(tl_f)) = (fit(&a_val), fit(&l_val)) else {
        o.discarded = true;
        o.labels.push("discard:total overflows in the caller");
        return o;
    };
    if ta_f == I80F48::ZERO || tl_f == I80F48::ZERO {
        o.discarded = true;
        o.labels.push("discard:zero total (caller returns early)");
        return o;
    }
    let ta = F::bits(ta_f.to_bits());
    let tl = F::bits(tl_f.to_bits());
    let tau_a = &a_val - &ta;
    let tau_l = &l_val - &tl;

    // ---- the code under test ----
    let calc = cfg.create_interest_rate_calculator(&group);
    let res = catch_unwind(AssertUnwindSafe(|| {
        calc_interest_rate_accrual_state_changes(c.dt, ta_f, tl_f, &calc, fx(c.asv), fx(c.lsv))
    }));

    // ---- exact model quantities ----
    let u = &tl / &ta;
    let ulp = f_ulp();
    let u_trunc_zero = u < ulp;
    let b_model = curve_model(c, &u);
    let b_hi = &b_model + F::new(1, 1024);
    let ty = F::new(c.dt, Y_SECS);
    let fees_cfg: [(F, F, bool); 3] = [
        (F::bits(c.ins_ir), F::bits(c.ins_fixed), true),
        (F::bits(c.grp_ir), F::bits(c.grp_fixed), true),
        (F::bits(c.prog_rate), F::bits(c.prog_fixed), c.prog_on),
    ];
    let mut r_sum = F::zero();
    let mut f_sum = F::zero();
    let mut n7 = 0u32;
    let mut n8 = 0u32;
    for (r, f, on) in fees_cfg.iter() {
        if !*on {
            continue;
        }
        r_sum += r;
        f_sum += f;
        if !r.is_zero() {
            n7 += 1;
        }
        if !r.is_zero() || !f.is_zero() {
            n8 += 1;
        }
    }
    let any_fee = n8 > 0;

    // labels of the input class
    o.labels.push(if u_trunc_zero {
        "util:truncates-to-0"
    } else if u < F::new(1, 1000) {
        "util:(0,0.001)"
    } else if u < F::one() {
        "util:[0.001,1)"
    } else if u == F::one() {
        "util:=1"
    } else {
        "util:>1"
    });
    o.labels.push(match c.dt {
        1 => "dt:1",
        2..=60 => "dt:2..60",
        61..=3600 => "dt:..1h",
        3601..=86400 => "dt:..1d",
        86401..=31_536_000 => "dt:..1y",
        _ => "dt:>1y",
    });
    o.labels.push(if c.prog_on { "program-fee:on" } else { "program-fee:off" });
    o.labels.push(if any_fee { "fees:some-active" } else { "fees:all-zero" });
    o.labels.push(if c.asv == ONE { "asv:=1" } else if c.asv < ONE { "asv:<1" } else { "asv:>1" });
    o.labels.push(if c.lsv == ONE { "lsv:=1" } else if c.lsv < ONE { "lsv:<1" } else { "lsv:>1" });
    let big = ta.clone().max(tl.clone()).max(a.clone()).max(l.clone());
    o.labels.push(if big <= F::int(10u64.pow(6)) {
        "totals:<=1e6"
    } else if big <= F::int(10u64.pow(12)) {
        "totals:<=1e12"
    } else if big <= F::int(10u64.pow(18)) {
        "totals:<=1e18"
    } else {
        "totals:>1e18"
    });

    let sc = match res {
        Ok(Some(sc)) => sc,
        other => {
            // (5) None / panic: only alarm when no intermediate the function has to compute can
            // reach 2^79.  Upper bounds of every intermediate, using b_hi >= the code's b and
            // u >= the code's truncated utilisation; every other truncation lowers the value.
            let panicked = other.is_err();
            let lim = limit();
            let mut inter: Vec<F> = vec![u.clone()];
            if c.curve_type == INTEREST_CURVE_LEGACY {
                let opt = F::bits(c.opt);
                inter.push(&u / &opt);
                inter.push(&u / (F::one() - &opt));
                inter.push(&u / (F::one() - &opt) * F::bits(c.max));
            }
            let lend_hi = &b_hi * &u;
            let bor_hi = &b_hi * (F::one() + &r_sum) + &f_sum;
            let dtq = F::int(c.dt);
            inter.push(lend_hi.clone());
            inter.push(bor_hi.clone());
            inter.push(&lend_hi * &dtq);
            inter.push(&bor_hi * &dtq);
            let new_asv_hi = &asv * (F::one() + &lend_hi * &ty);
            let new_lsv_hi = &lsv * (F::one() + &bor_hi * &ty);
            inter.push(new_asv_hi.clone());
            inter.push(new_lsv_hi.clone());
            let mut fee_final_max = F::zero();
            for (r, f, on) in fees_cfg.iter() {
                if !*on {
                    continue;
                }
                let rate = &b_hi * r + f;
                inter.push(&tl * &rate);
                inter.push(&tl * &rate * &dtq);
                fee_final_max = fee_final_max.max(&tl * &rate * &ty);
            }
            let worst = inter.into_iter().fold(F::zero(), F::max);
            let finals_fit = new_asv_hi < lim && new_lsv_hi < lim && fee_final_max < lim;
            if worst < lim {
                let what = if panicked { "panicked" } else { "returned None" };
                o.viol.push((
                    "accrual:unexpected-none".into(),
                    format!(
                        "function {what} although every intermediate is < 2^79 (largest ~{}); u={} b~{} dt={}",
                        worst.show(), u.show(), b_model.show(), c.dt
                    ),
                ));
            } else if finals_fit {
                o.labels.push(if panicked {
                    "result:panic (intermediate overflow, final values representable)"
                } else {
                    "result:None (intermediate overflow, final values representable)"
                });
            } else {
                o.labels.push(if panicked {
                    "result:panic (result not representable)"
                } else {
                    "result:None (result not representable)"
                });
            }
            return o;
        }
    };
    o.labels.push("result:Some");

    let asv_n = F::bits(sc.new_asset_share_value.to_bits());
    let lsv_n = F::bits(sc.new_liability_share_value.to_bits());
    let ins = F::bits(sc.insurance_fees_collected.to_bits());
    let grp = F::bits(sc.group_fees_collected.to_bits());
    let prg = F::bits(sc.protocol_fees_collected.to_bits());

    // (1) monotone share values -- exact, no allowance
    if asv_n < asv {
        o.viol.push((
            "accrual:asset-share-value-decreased".into(),
            format!("asv bits {} -> {} (dt={}, u={})", c.asv, sc.new_asset_share_value.to_bits(), c.dt, u.show()),
        ));
    }
    if lsv_n < lsv {
        o.viol.push((
            "accrual:liability-share-value-decreased".into(),
            format!("lsv bits {} -> {} (dt={}, u={})", c.lsv, sc.new_liability_share_value.to_bits(), c.dt, u.show()),
        ));
    }
    // (2) fees non-negative
    for (name, v) in [("insurance", &ins), ("group", &grp), ("program", &prg)] {
        if *v < F::zero() {
            o.viol.push((format!("accrual:negative-fee:{name}"), format!("{name} fee = {}", v.show())));
        }
    }
    // (3) program fee is zero when disabled for the group
    if !c.prog_on && !prg.is_zero() {
        o.viol.push((
            "accrual:program-fee-when-disabled".into(),
            format!(
                "group flag PROGRAM_FEES_ENABLED is off but program fee booked = {} (cached fixed bits {}, rate bits {})",
                prg.show(), c.prog_fixed, c.prog_rate
            ),
        ));
    }
    // (4) + (6) conservation with the derived allowance
    let g_a = &a * (&asv_n - &asv);
    let g_l = &l * (&lsv_n - &lsv);
    let fees = &ins + &grp + &prg;
    let d = &g_l - &g_a - &fees;
    let eps_pos = &tau_l * (&b_hi * (F::one() + &r_sum) + &f_sum) * &ty
        + &ulp
            * (&a_val * ((&b_hi + F::one()) * &ty + F::one())
                + &a
                + (F::int(n7) * &tl + F::int(n8)) * &ty
                + F::int(n8));
    let eps_neg = &ulp * (&l_val * (&ty + F::one()) + &l) + &tau_a * &u * &b_hi * &ty;
    if d > F::zero() {
        o.ratio_pos = (&d / &eps_pos).f64();
    } else if d < F::zero() {
        o.ratio_neg = (-&d / &eps_neg).f64();
    }
    if big <= F::int(10u64.pow(12)) && u <= F::one() {
        o.eps_moderate = eps_pos.f64().max(eps_neg.f64());
        if c.dt <= 86400 {
            o.eps_moderate_day = o.eps_moderate;
        }
    }
    let detail = || {
        format!(
            "debt +{} vs deposits +{} + fees {} (ins {} grp {} prog {}): D = {} allowance (-{}, +{}); A*asv={} L*lsv={} u={} b~{} dt={}",
            g_l.show(), g_a.show(), fees.show(), ins.show(), grp.show(), prg.show(), d.show(),
            eps_neg.show(), eps_pos.show(), a_val.show(), l_val.show(), u.show(), b_model.show(), c.dt
        )
    };
    if d < -&eps_neg {
        o.viol.push(("accrual:lenders-overpaid".into(), format!("lenders and fee collectors credited more than borrowers are charged: {}", detail())));
        o.viol.push(("accrual:conservation".into(), detail()));
    } else if d > eps_pos {
        o.viol.push(("accrual:conservation".into(), detail()));
    }

    o.nontrivial = !u_trunc_zero && u < F::one() && any_fee && c.asv != ONE && c.lsv != ONE;
    o
}

/// floor to I80F48 if it fits
fn fit(x: &F) -> Option<I80F48> {
    if *x >= limit() {
        return None;
    }
    let bits = (x * F::int(two48())).floor();
    num_traits::ToPrimitive::to_i128(&bits).map(I80F48::from_bits)
}

// ------------------------------------------------------------------------------------------
// generators
// ------------------------------------------------------------------------------------------
fn nice_bits(x: f64) -> i128 {
    I80F48::from_num(x).to_bits()
}

/// a fee parameter in [0,1) as I80F48 bits
fn fee_bits() -> BoxedStrategy<i128> {
    prop_oneof![
        3 => Just(0i128),
        1 => Just(1i128),
        3 => 0i128..ONE,
        3 => 0i128..(1i128 << 42),
        2 => prop::sample::select(vec![
            nice_bits(0.0001), nice_bits(0.005), nice_bits(0.01), nice_bits(0.025), nice_bits(0.075),
            nice_bits(0.1), nice_bits(0.135), nice_bits(0.5),
        ]),
        1 => Just(ONE - 1),
    ]
    .boxed()
}

fn rate_u32() -> BoxedStrategy<u32> {
    let m = u32::MAX;
    prop_oneof![
        4 => 0u32..=(m / 33),
        3 => 0u32..=(m / 3),
        2 => any::<u32>(),
        1 => Just(0u32),
        1 => Just(m),
    ]
    .boxed()
}

fn util_u32() -> BoxedStrategy<u32> {
    let m = u32::MAX;
    prop_oneof![
        8 => 1u32..=m,
        1 => Just(1u32),
        1 => Just(m),
        1 => 1u32..=1000,
        1 => (m - 1000)..=m,
    ]
    .boxed()
}

/// (zero, hundred, used points) valid by construction
fn curve7() -> BoxedStrategy<(u32, u32, Vec<(u32, u32)>)> {
    (
        prop::collection::vec(rate_u32(), 7),
        prop::collection::vec(util_u32(), 0..=5),
        prop::bool::weighted(0.1),
        prop::bool::weighted(0.05),
    )
        .prop_map(|(mut rates, mut utils, adjacent, flat)| {
            rates.sort_unstable();
            if flat {
                let r = rates[3];
                rates.iter_mut().for_each(|x| *x = r);
            }
            if adjacent && utils.len() >= 2 && utils[0] < u32::MAX {
                utils[1] = utils[0] + 1;
            }
            utils.sort_unstable();
            utils.dedup();
            let n = utils.len();
            let pts: Vec<(u32, u32)> = (0..n).map(|i| (utils[i], rates[1 + i])).collect();
            (rates[0], rates[6], pts)
        })
        .boxed()
}

/// (optimal, plateau, max) for the legacy curve, valid by construction
fn legacy() -> BoxedStrategy<(i128, i128, i128)> {
    let lo = 1i128 << 38; // 2^-10
    (
        prop_oneof![6 => lo..=(ONE - lo), 1 => Just(lo), 1 => Just(ONE - lo), 2 => prop::sample::select(vec![nice_bits(0.4), nice_bits(0.5), nice_bits(0.8), nice_bits(0.9)])],
        prop_oneof![4 => 1i128..=ONE, 2 => 1i128..=(10 * ONE), 1 => Just(1i128)],
        prop_oneof![4 => 1i128..=(3 * ONE), 2 => 1i128..=(10 * ONE), 1 => Just(10 * ONE)],
    )
        .prop_map(|(opt, p, m)| {
            let (p, m) = if p < m { (p, m) } else if m < p { (m, p) } else { (p, p + 1) };
            (opt, p, m)
        })
        .boxed()
}

fn log_bits(k: u32, r: u128) -> i128 {
    // k-bit number with random lower bits (k >= 1)
    let top = 1u128 << (k - 1);
    (top | (r & (top - 1))) as i128
}

fn share_value_bits() -> BoxedStrategy<i128> {
    prop_oneof![
        3 => Just(ONE),
        1 => Just(ONE + 1),
        6 => ONE..=(ONE * 3 / 2),
        2 => ONE..=(ONE * 16),
        4 => (29u32..=68, any::<u64>()).prop_map(|(k, r)| log_bits(k, r as u128).clamp(SV_MIN, SV_MAX)),
        1 => Just(SV_MIN),
        1 => Just(SV_MAX),
    ]
    .boxed()
}

fn dt_strategy() -> BoxedStrategy<u64> {
    prop_oneof![
        5 => prop::sample::select(vec![1u64, 2, 59, 60, 3600, 86400, Y_SECS, MAX_DT]),
        5 => (1u32..=28, any::<u64>()).prop_map(|(k, r)| (log_bits(k, r as u128) as u64).clamp(1, MAX_DT)),
        1 => 1u64..=120,
    ]
    .boxed()
}

/// utilisation target: (kind, param, offset)
/// 0 inside (0,1); 1 near a knot / 1.0; 2 slightly above 1; 3 tiny; 4 L == A and lsv == asv
fn util_target() -> BoxedStrategy<(u8, u64, i8)> {
    (
        prop_oneof![14 => Just(0u8), 2 => Just(1u8), 2 => Just(2u8), 1 => Just(3u8), 1 => Just(4u8)],
        any::<u64>(),
        -3i8..=3,
    )
        .boxed()
}

fn case_strategy() -> BoxedStrategy<Case> {
    let cfg_part = (
        prop::bool::weighted(0.15),
        legacy(),
        curve7(),
        (fee_bits(), fee_bits(), fee_bits(), fee_bits()),
        (any::<bool>(), fee_bits(), fee_bits()),
    );
    let state_part = (
        share_value_bits(),
        share_value_bits(),
        (49u32..=108, any::<u128>(), prop::bool::weighted(0.3)),
        util_target(),
        dt_strategy(),
    );
    (cfg_part, state_part)
        .prop_map(|((is_legacy, (opt, plateau, max), (zero, hundred, points), fees, prog), (asv, lsv, (ak, ar, a_int), ut, dt))| {
            let (kind, param, off) = ut;
            // asset shares: log-uniform in [1, 1e18], optionally integral; keep A*asv < 2^78
            let mut a_shares = log_bits(ak, ar).clamp(ONE, SHARES_MAX);
            if a_int {
                a_shares &= !(ONE - 1);
            }
            let cap = F::int(BigInt::one() << 78);
            while F::bits(a_shares) * F::bits(asv) >= cap && a_shares > ONE {
                a_shares = (a_shares >> 1).max(ONE);
            }
            let lsv = if kind == 4 { asv } else { lsv };
            let a_val = F::bits(a_shares) * F::bits(asv);
            let frac = F::new(param, BigInt::one() << 64); // [0,1)
            let target: F = match kind {
                0 => F::new(BigInt::from(param) + 1, (BigInt::one() << 64) + 2),
                1 => {
                    // a knot of the curve (or 1.0), +- a few ulps
                    let knots: Vec<F> = if is_legacy {
                        vec![F::bits(opt), F::one()]
                    } else {
                        let mut v: Vec<F> = points.iter().map(|p| F::new(p.0, u32::MAX)).collect();
                        v.push(F::one());
                        v
                    };
                    let k = &knots[(param % knots.len() as u64) as usize];
                    (k + F::int(off) * f_ulp()).max(f_ulp())
                }
                2 => F::one() + frac / F::int(20),
                3 => F::new(1, BigInt::one() << (10 + (param % 50) as usize)),
                _ => F::one(),
            };
            let l_shares = if kind == 4 {
                a_shares
            } else {
                let want = &a_val * &target / F::bits(lsv) * F::int(two48());
                let bits = want.floor();
                let hi = BigInt::from(SHARES_MAX);
                let lo = BigInt::from(ONE >> 20);
                let bits = if bits > hi { hi } else if bits < lo { lo } else { bits };
                num_traits::ToPrimitive::to_i128(&bits).unwrap_or(ONE)
            };
            Case {
                curve_type: if is_legacy { INTEREST_CURVE_LEGACY } else { INTEREST_CURVE_SEVEN_POINT },
                opt,
                plateau,
                max,
                zero_rate: zero,
                hundred_rate: hundred,
                points,
                ins_fixed: fees.0,
                ins_ir: fees.1,
                grp_fixed: fees.2,
                grp_ir: fees.3,
                prog_on: prog.0,
                prog_fixed: prog.1,
                prog_rate: prog.2,
                a_shares,
                l_shares,
                asv,
                lsv,
                dt,
            }
        })
        .boxed()
}

// ------------------------------------------------------------------------------------------
// entry points
// ------------------------------------------------------------------------------------------
fn absorb(rep: &mut Report, c: &Case, o: &Outcome) {
    rep.eval();
    for l in &o.labels {
        rep.label(l);
    }
    if o.discarded {
        rep.add_extra("discards", 1);
        return;
    }
    if o.nontrivial {
        rep.add_extra("nontrivial_evaluations", 1);
        // the distinct set is capped per worker to bound memory in the thorough tier; the
        // distinct count reported is then a lower bound
        if rep.nontrivial.len() < NONTRIVIAL_SET_CAP {
            rep.nontrivial_hash(case_hash(c));
        }
        if rep.samples.len() < 2 {
            rep.sample(case_json(c));
        }
    }
    rep.set_max("max_error_over_allowance_debt_side(+)", o.ratio_pos);
    rep.set_max("max_error_over_allowance_lender_side(-)", o.ratio_neg);
    if o.eps_moderate >= 0.0 {
        rep.set_max("max_allowance_native_units_when_shares_and_totals<=1e12_util<=1", o.eps_moderate);
    }
    if o.eps_moderate_day >= 0.0 {
        rep.set_max("max_allowance_native_units_when_shares_and_totals<=1e12_util<=1_and_dt<=1d", o.eps_moderate_day);
    }
}

pub fn run(ctx: &Ctx) -> Report {
    let total: u64 = ctx.tier.pick(3_000_000, 60_000_000);
    let threads = ctx.threads.max(1);
    let per = (total / threads as u64).max(1) as u32;
    let mut rep = par_workers(threads, |w| {
        let mut rep = Report::new(RULE);
        rep.add_extra("discards", 0);
        let strat = case_strategy();
        let out = run_prop(ctx.seed_bytes("c06a", w as u64), per, &strat, |c, counting| {
            let o = evaluate(c);
            if counting {
                absorb(&mut rep, c, &o);
            }
            match o.viol.first() {
                None => Ok(()),
                Some((sig, msg)) => Err(format!("{sig}: {msg}")),
            }
        });
        if let Some((c, _)) = out.failure {
            let o = evaluate(&c);
            for (sig, msg) in o.viol {
                let msg = format!("{msg} [worker {w}: first failure at its case #{}, shown after shrinking]", out.cases_run);
                rep.violation(&sig, msg, case_json(&c));
            }
        }
        rep
    });
    rep.nontrivial_floor = (total / 20).min(NONTRIVIAL_SET_CAP as u64 * threads as u64 / 2);
    rep.assumptions = vec![
        "pure-function level: calc_interest_rate_accrual_state_changes is called directly with totals = floor(shares x share value), exactly as Bank::accrue_interest does; the instruction-level half of C06 is checked separately".into(),
        "fee parameters are taken from [0,1): neither InterestRateConfig::validate nor edit_global_fee enforces any bound (negative or huge fees are accepted by the program but are outside 'valid fee settings')".into(),
        "legacy-curve configs use optimal utilisation in [2^-10, 1-2^-10] and rates <= 1000% APR".into(),
    ];
    rep
}

pub fn replay(_ctx: &Ctx, case: &Value) -> Report {
    let mut rep = Report::new(RULE);
    match case_from_json(case) {
        None => rep.engine_errors.push("c06a: malformed replay case".into()),
        Some(c) => {
            let o = evaluate(&c);
            absorb(&mut rep, &c, &o);
            for (sig, msg) in o.viol {
                rep.violation(&sig, msg, case_json(&c));
            }
        }
    }
    rep
}
