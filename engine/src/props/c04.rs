//! C04 — risk gate: a successful borrow/withdraw leaves the account initially healthy (reference
//! health in exact rationals from raw bytes), and is never rejected for health when the
//! reference health is clearly positive. Amounts are searched to the accept/reject boundary.
use crate::common::*;
use crate::outln;
use crate::model::*;
use crate::num::*;
use crate::svm::{err_code, Vm};
use crate::world::*;
use marginfi_type_crate::types::BankConfigOpt;
use num_traits::{Signed, Zero};
use proptest::prelude::*;
use serde::{Deserialize, Serialize};
use serde_json::{json, Value};

pub fn err_risk_engine() -> u64 {
    u32::from(marginfi::errors::MarginfiError::RiskEngineInitRejected) as u64
}

#[derive(Clone, Debug, Serialize, Deserialize)]
pub struct Pos {
    pub b: u16,
    /// deposit: native amount; borrow: fraction (x/65536) of the current borrowing power
    pub amt: u64,
}

#[derive(Clone, Debug, Serialize, Deserialize)]
pub struct PortCase {
    pub spec: WorldSpec,
    pub deposits: Vec<Pos>,
    pub borrows: Vec<Pos>,
    /// banks (indices into deposits) switched to ReduceOnly after the deposits
    pub reduce_only: Vec<u16>,
    /// collateral oracles left stale at probe time (indices into deposits)
    pub stale: Vec<u16>,
    /// 0 = borrow, 1 = withdraw
    pub probe_kind: u8,
    pub probe_bank: u16,
    pub wait: u32,
    /// extra random amounts (fractions of the frontier) at which the success side is also checked
    pub fracs: Vec<u16>,
    /// > 0: before the portfolio is built, a third user borrows from one bank (steep curve) and `inflate` rounds of
    /// five years pass, so that this bank's share values are orders of magnitude above 1
    #[serde(default)]
    pub inflate: u8,
    /// with `inflate`: the user also takes a tiny debt (native units) in the inflated bank
    #[serde(default)]
    pub tiny_debt: u64,
    /// number of banks in which the user opens a position and empties it again with a plain withdraw (the slot stays
    /// open with zero shares): such a slot holds nothing and must not influence any valuation (e-mode reconciliation!)
    #[serde(default)]
    pub emptied: u8,
}

pub fn c04_bank_strategy_pub() -> impl Strategy<Value = BankSpec> {
    c04_bank_strategy()
}

fn c04_bank_strategy() -> impl Strategy<Value = BankSpec> {
    (
        (prop_oneof![4 => Just(6u8), 2 => Just(9u8), 2 => 0u8..=12], 0u8..3, 0u16..500, prop_oneof![Just(0u64), 1u64..100_000]),
        // the bank's own initial asset weight: mass on the boundaries of the accepted region (0: the collateral only
        // counts through an e-mode entry; 1: no haircut)
        (prop_oneof![2 => Just(0u32), 1 => Just(1_000_000u32), 12 => 0u32..=1_000_000], prop_oneof![1 => Just(0u32), 6 => 0u32..=600_000], 0u32..600_000, 0u32..600_000, prop::bool::weighted(0.12)),
        prop_oneof![3 => Just(0u64), 2 => 1u64..5_000],
        (1u8..3, 1_000i64..500_000_000, prop_oneof![4 => Just(-6i32), 2 => -8i32..=-3], prop_oneof![2 => Just(0u16), 3 => 1u16..300, 1 => 300u16..460], 800u16..1250, prop_oneof![3 => Just(0u16), 2 => 1u16..400]),
        prop::bool::weighted(0.25),
        (0u16..4, prop::collection::vec((1u16..4, 0u32..=1_000_000, 0u32..=1_000_000), 0..3)),
        prop_oneof![3 => Just(0u32), 1 => 0u32..30_000],
    )
        .prop_map(|((decimals, token, fee_bps, fee_max), (aw_i, aw_gap, lw_m_x, lw_gap, isolated), init_limit, (okind, mant, expo, conf_bps, ema_num, ema_conf_bps), fixed, (emode_tag, entries), orig)| {
            let (aw_i, aw_m) = if isolated { (0, 0) } else { (aw_i, (aw_i + aw_gap).min(2_000_000)) };
            let lw_m = 1_000_000 + lw_m_x;
            let lw_i = lw_m + lw_gap;
            let oracle = if fixed {
                OracleSpec::fixed(mant, expo)
            } else {
                let conf = (mant as u128 * conf_bps as u128 / 10_000) as u64;
                let ema = if okind == 1 { (mant as i128 * ema_num as i128 / 1000).max(1) as i64 } else { mant };
                let ema_conf = if okind == 1 { (ema as u128 * ema_conf_bps as u128 / 10_000) as u64 } else { conf };
                OracleSpec { kind: okind, mant, expo, conf, ema_mant: ema, ema_conf, max_age: 100, max_conf: 0 }
            };
            // e-mode entries valid against this bank's liability weights and the default caps
            let cap_i = (lw_i as u64 * 14 / 15).min(lw_m as u64 * 19 / 20) as u32;
            let cap_m = (lw_m as u64 * 19 / 20) as u32;
            let mut seen = vec![];
            let mut es = vec![];
            for (tag, fi, fm) in entries {
                if seen.contains(&tag) {
                    continue;
                }
                seen.push(tag);
                let init = ((cap_i as u64 * fi as u64) / 1_000_000) as u32;
                let maint = init.max(((cap_m as u64 * fm as u64) / 1_000_000) as u32).min(cap_m.saturating_sub(1));
                let init = init.min(maint);
                es.push(EmodeEntrySpec { tag, flags: 0, init, maint });
            }
            es.sort_by_key(|e| e.tag);
            let mut curve = CurveSpec::default();
            curve.orig = orig;
            BankSpec {
                decimals,
                token,
                fee_bps: if token == 2 { fee_bps } else { 0 },
                fee_max: if token == 2 { fee_max } else { 0 },
                aw_i,
                aw_m,
                lw_i,
                lw_m,
                isolated,
                deposit_limit: u64::MAX,
                borrow_limit: u64::MAX,
                init_limit,
                curve,
                oracle,
                emode_tag,
                emode_entries: es,
                asset_tag: 0,
                op_state: 1,
                permissionless_bad_debt: false,
                staked: None,
            }
        })
}

pub fn case_strategy(max_banks: usize) -> impl Strategy<Value = PortCase> {
    (
        prop::collection::vec(c04_bank_strategy(), 2..=max_banks),
        prop::collection::vec((any::<u16>(), prop_oneof![1u64..1000, 1000u64..100_000_000, 100_000_000u64..100_000_000_000_000]), 1..=8),
        prop::collection::vec((any::<u16>(), 1u64..=65000), 0..=4),
        prop::collection::vec(any::<u16>(), 0..=2),
        prop::collection::vec(any::<u16>(), 0..=2),
        (0u8..2, any::<u16>(), prop_oneof![Just(0u32), 1u32..90, 1000u32..4_000_000]),
        prop::collection::vec(any::<u16>(), 0..=2),
        prop::bool::weighted(0.3),
        // staked world: every bank is SOL-tagged (borrowable) or a staked-collateral bank (collateral only)
        (prop::bool::weighted(0.12), prop::collection::vec((1_000_000_000u64..2_000_000_000_000_000, 500u32..3000, any::<bool>()), 16)),
        (prop_oneof![5 => Just(0u8), 1 => 1u8..3, 1 => 3u8..6], prop_oneof![1 => Just(0u64), 2 => 1u64..1000, 2 => 1000u64..10_000_000], prop_oneof![3 => Just(0u8), 1 => Just(1u8), 1 => Just(2u8)]),
    )
        .prop_map(|(mut banks, deps, bors, ro, stale, (probe_kind, probe_bank, wait), fracs, ro_on, (staked_world, pools), (inflate, tiny_debt, emptied))| {
            let inflate = if staked_world { 0 } else { inflate };
            if inflate > 0 {
                let ib = idx(probe_bank, banks.len());
                banks[ib].curve.zero = 2_000_000_000;
                banks[ib].curve.hundred = 4_000_000_000;
                banks[ib].curve.points.clear();
                banks[ib].isolated = false;
            }
            if staked_world {
                // the group's SOL feed: the first bank's oracle, as a Pyth push feed
                let mut feed = banks[0].oracle.clone();
                if feed.kind != 1 {
                    feed = OracleSpec::pyth(feed.mant, feed.expo, (feed.mant as u64) / 300);
                }
                for (i, b) in banks.iter_mut().enumerate() {
                    let (supply, rate_pm, st) = pools[i % pools.len()];
                    if i > 0 && st {
                        b.staked = Some(StakedSpec { supply, stake: ((supply as u128 * rate_pm as u128 / 1000) as u64).saturating_add(1_000_000_000) });
                        b.oracle = OracleSpec { kind: 3, ..feed.clone() };
                        b.asset_tag = 2;
                        b.isolated = false;
                        b.token = 0;
                        b.decimals = 9;
                        b.aw_i = b.aw_i.min(1_000_000);
                        b.aw_m = b.aw_m.max(b.aw_i);
                    } else {
                        b.asset_tag = 1;
                        if i == 0 {
                            b.oracle = feed.clone();
                        }
                    }
                }
            }
            let spec = WorldSpec { banks, n_users: 3, program_fees_enabled: false, ..WorldSpec::default() };
            PortCase {
                inflate,
                tiny_debt,
                emptied,
                spec,
                deposits: deps.into_iter().map(|(b, amt)| Pos { b, amt }).collect(),
                borrows: bors.into_iter().map(|(b, amt)| Pos { b, amt }).collect(),
                reduce_only: if ro_on { ro } else { vec![] },
                stale,
                probe_kind,
                probe_bank,
                wait,
                fracs,
            }
        })
}

#[derive(Default, Debug)]
pub struct CaseStats {
    pub built: bool,
    pub frontier: bool,
    pub binds_health: bool,
    pub features: Vec<&'static str>,
    pub n_positions: usize,
    pub widths: f64,
    pub converse_checked: bool,
    pub success_checks: u64,
    pub boundary_err: Option<u64>,
    pub inflated: bool,
    pub hostile_tried: u64,
    pub hostile_accepted: u64,
    pub withdraw_all_accepted: u64,
    pub withdraw_all_refused: u64,
    /// strict reading: successes whose health is negative once debts of >= 1 native unit that the program ignores
    /// (fewer than one liability share) are counted; (message, amount) of the first
    pub strict_hits: u64,
    pub strict_first: Option<String>,
    pub max_lsv: f64,
}

fn borrow_power(w: &World, acct: &solana_program::pubkey::Pubkey, bi: usize) -> u64 {
    use num_traits::ToPrimitive;
    let liq = w.tok(&w.banks[bi].lv);
    let Some(a) = read_macct(&w.vm, acct) else { return 0 };
    let h = health(&w.vm, &a, Req::Initial, w.vm.now());
    let Some(hh) = h.health() else { return 0 };
    if !hh.lo.is_positive() {
        return 0;
    }
    let bank = w.bank(bi);
    let ov = oracle_view(&w.vm, &bank, w.vm.now());
    let Some(p) = ov.high(PriceKind::Ema) else { return 0 };
    if !p.hi.is_positive() {
        return 0;
    }
    let amt = &hh.lo / (&p.hi * q_w(bank.config.liability_weight_init)) * pow10(bank.mint_decimals as u32);
    q_floor(&amt).to_u64().unwrap_or(u64::MAX).min(liq)
}

/// success side: the committed post-state must not be definitely unhealthy
fn check_success(vm: &Vm, acct: &solana_program::pubkey::Pubkey, what: &str, stats: &mut CaseStats) -> Result<(), (String, String)> {
    let a = read_macct(vm, acct).ok_or(("engine".to_string(), "account vanished".to_string()))?;
    let h = health(vm, &a, Req::Initial, vm.now());
    stats.success_checks += 1;
    if !h.defined() {
        return Err(("gate:success-with-unusable-debt-oracle".into(), format!("{what} succeeded although a liability (or non-initial) oracle is unusable")));
    }
    let hh = h.health().unwrap();
    stats.widths = stats.widths.max(q_f64(&hh.width()));
    if (&hh.hi + &h.ignored).is_negative() {
        return Err((
            "gate:success-but-unhealthy".into(),
            format!(
                "{what} succeeded but reference initial health is {} (enclosure [{}, {}]; assets {} liabs {})",
                q_str(&hh.hi),
                q_str(&hh.lo),
                q_str(&hh.hi),
                q_str(&h.assets.as_ref().unwrap().hi),
                q_str(&h.liabs.as_ref().unwrap().lo)
            ),
        ));
    }
    if h.isolated_liab && h.n_liabs > 1 {
        return Err(("gate:isolated-not-only-debt".into(), format!("{what} succeeded with an isolated-tier debt among {} debts", h.n_liabs)));
    }
    // strict reading of "positions of less than one native unit count as empty": a debt of >= 1 native unit held as
    // fewer than one liability share (share value > 1) is ignored by the program but counted by the statement
    if h.strict_debt_lo.is_positive() {
        let strict_hi = &hh.hi + (&h.ignored - &h.strict_debt_in_ignored) - &h.strict_debt_lo;
        if strict_hi.is_negative() {
            stats.strict_hits += 1;
            if stats.strict_first.is_none() {
                stats.strict_first = Some(format!("{what} succeeded; health counting every debt of at least one native unit is at most {} (the program ignores debts of fewer than one liability SHARE: here worth at least {} weighted)", q_str(&strict_hi), q_str(&h.strict_debt_lo)));
            }
        }
    }
    Ok(())
}

pub fn run_case(c: &PortCase, stats: &mut CaseStats) -> Result<(), (String, String)> {
    let Ok(mut w) = World::build(&c.spec) else { return Ok(()) };
    let nb = w.banks.len();
    let lender = w.users[0].clone();
    let usr = w.users[1].clone();
    let acct = usr.accts[0];
    // liquidity everywhere
    for bi in 0..nb {
        let ix = w.ix_deposit(lender.accts[0], lender.auth, bi, lender.tokens[bi], 1_000_000_000_000_000, None);
        let _ = w.vm.exec(&ix);
    }
    // inflation phase: a third user borrows from bank ib, five-year rounds pass (share values of ib grow by orders of magnitude)
    let ib = idx(c.probe_bank, nb);
    if c.inflate > 0 && w.users.len() > 2 {
        let inf = w.users[2].clone();
        for bi in 0..nb {
            if bi != ib {
                let ix = w.ix_deposit(inf.accts[0], inf.auth, bi, inf.tokens[bi], 1_000_000_000_000_000, None);
                let _ = w.vm.exec(&ix);
            }
        }
        let p = borrow_power(&w, &inf.accts[0], ib);
        let a = p / 10 * 9;
        if a > 0 && w.vm.exec(&w.ix_borrow(inf.accts[0], inf.auth, ib, inf.tokens[ib], a)).is_ok() {
            for _ in 0..c.inflate {
                w.vm.advance(157_000_000);
                w.refresh_oracles();
                let _ = w.vm.exec(&w.ix_accrue(ib));
            }
            stats.inflated = true;
        }
    }
    let mut dep_banks: Vec<usize> = vec![];
    for d in &c.deposits {
        // with inflation the user keeps out of the inflated bank on the deposit side
        if stats.inflated && idx(d.b, nb) == ib {
            continue;
        }
        let bi = idx(d.b, nb);
        let ix = w.ix_deposit(acct, usr.auth, bi, usr.tokens[bi], d.amt, None);
        if w.vm.exec(&ix).is_ok() && !dep_banks.contains(&bi) {
            dep_banks.push(bi);
        }
    }
    if dep_banks.is_empty() {
        return Ok(());
    }
    for b in &c.borrows {
        // borrow from a bank without own deposit
        let cands: Vec<usize> = (0..nb).filter(|i| !dep_banks.contains(i)).collect();
        if cands.is_empty() {
            break;
        }
        let bi = cands[idx(b.b, cands.len())];
        let p = borrow_power(&w, &acct, bi);
        let a = ((p as u128 * b.amt as u128) >> 16) as u64;
        if a == 0 {
            continue;
        }
        let ix = w.ix_borrow(acct, usr.auth, bi, usr.tokens[bi], a);
        let _ = w.vm.exec(&ix);
    }
    // a tiny debt in the inflated bank (fewer than one liability share when the share value is large)
    if stats.inflated && c.tiny_debt > 0 && !dep_banks.contains(&ib) {
        let ix = w.ix_borrow(acct, usr.auth, ib, usr.tokens[ib], c.tiny_debt);
        let _ = w.vm.exec(&ix);
    }
    // emptied-but-open slots: deposit and plain-withdraw the same amount in banks the user does not otherwise hold
    if c.emptied > 0 {
        let held: Vec<usize> = read_macct(&w.vm, &acct).map(|a| a.lending_account.balances.iter().filter(|b| b.active != 0).filter_map(|b| w.bank_index(&b.bank_pk)).collect()).unwrap_or_default();
        let free: Vec<usize> = (0..nb).filter(|i| !held.contains(i) && !(stats.inflated && *i == ib)).collect();
        for bi in free.into_iter().take(c.emptied as usize) {
            if w.vm.exec(&w.ix_deposit(acct, usr.auth, bi, usr.tokens[bi], 1000, None)).is_ok() {
                let r = w.vm.exec(&w.ix_withdraw(acct, usr.auth, bi, usr.tokens[bi], 1000, None));
                if r.is_ok() {
                    stats.features.push("emptied-open-slot");
                }
            }
        }
    }
    // reduce-only collateral
    for r in &c.reduce_only {
        let bi = dep_banks[idx(*r, dep_banks.len())];
        let mut o = BankConfigOpt::default();
        o.operational_state = Some(marginfi_type_crate::types::BankOperationalState::ReduceOnly);
        let ix = w.ix_configure_bank(bi, o, w.roles.admin);
        let _ = w.vm.exec(&ix);
    }
    // time passes; oracles refreshed except the chosen stale collateral ones
    let stale: Vec<usize> = c.stale.iter().map(|s| dep_banks[idx(*s, dep_banks.len())]).collect();
    let wait = if stale.is_empty() { c.wait } else { c.wait.max(101) };
    w.vm.advance(wait as i64);
    let now = w.vm.now();
    for b in w.banks.clone().iter().enumerate() {
        if stale.contains(&b.0) {
            continue;
        }
        if let Some(a) = b.1.spec.oracle.account(now) {
            w.vm.set(b.1.oracle_key, a);
        }
    }
    stats.built = true;
    // probe
    let snap = read_macct(&w.vm, &acct).unwrap();
    stats.n_positions = snap.lending_account.balances.iter().filter(|b| b.active != 0).count();
    let (probe_bank, upper, kind) = if c.probe_kind == 1 {
        let bi = dep_banks[idx(c.probe_bank, dep_banks.len())];
        let b = w.bank(bi);
        let bal = snap.lending_account.balances.iter().find(|x| x.active != 0 && x.bank_pk == w.banks[bi].key).unwrap();
        use num_traits::ToPrimitive;
        let v = q_floor(&(q_w(bal.asset_shares) * q_w(b.asset_share_value))).to_u64().unwrap_or(0);
        (bi, v, "withdraw")
    } else {
        let cands: Vec<usize> = (0..nb).filter(|i| !dep_banks.contains(i)).collect();
        if cands.is_empty() {
            return Ok(());
        }
        let bi = if stats.inflated && cands.contains(&ib) { ib } else { cands[idx(c.probe_bank, cands.len())] };
        (bi, w.tok(&w.banks[bi].lv), "borrow")
    };
    if upper == 0 {
        return Ok(());
    }
    let exec = |w: &World, a: u64| -> (Vm, Result<(), u64>) {
        let mut vm = w.vm.clone();
        let ix = if kind == "withdraw" { w.ix_withdraw(acct, usr.auth, probe_bank, usr.tokens[probe_bank], a, None) } else { w.ix_borrow(acct, usr.auth, probe_bank, usr.tokens[probe_bank], a) };
        // use the world's view of remaining accounts but execute on the clone
        let r = vm.exec(&ix).map_err(|e| err_code(&e));
        (vm, r)
    };
    // bisection for the largest accepted amount
    let (vm_hi, r_hi) = exec(&w, upper);
    let (a_star, vm_star, err_above): (u64, Vm, Option<u64>) = if r_hi.is_ok() {
        (upper, vm_hi, None)
    } else {
        let (vm0, r0) = exec(&w, 0);
        if r0.is_err() {
            // even a zero-amount action fails (e.g. bank paused / stale debt oracle): nothing to assert on the success side
            stats.boundary_err = r0.err();
            return Ok(());
        }
        let (mut lo, mut hi) = (0u64, upper);
        let mut vm_lo = vm0;
        let mut e_hi = r_hi.err();
        while hi - lo > 1 {
            let mid = lo + (hi - lo) / 2;
            let (vm, r) = exec(&w, mid);
            match r {
                Ok(()) => {
                    lo = mid;
                    vm_lo = vm;
                }
                Err(e) => {
                    hi = mid;
                    e_hi = Some(e);
                }
            }
        }
        (lo, vm_lo, e_hi)
    };
    stats.frontier = a_star > 0 && a_star < upper;
    stats.boundary_err = err_above;
    // features present
    {
        let a = read_macct(&vm_star, &acct).unwrap();
        let h = health(&vm_star, &a, Req::Initial, vm_star.now());
        if stats.inflated {
            stats.max_lsv = crate::num::q_f64(&q_w(w.bank(ib).liability_share_value));
            stats.features.push("inflated-share-values");
        }
        if h.emode_active {
            stats.features.push("emode");
        }
        if a.lending_account.balances.iter().any(|b| b.active != 0 && b.bank_asset_tag == 2 && fixed::types::I80F48::from(b.asset_shares) >= fixed::types::I80F48::from_num(1)) {
            stats.features.push("staked-collateral");
        }
        if h.cap_active {
            stats.features.push("cap");
        }
        if h.conf_active {
            stats.features.push("conf");
        }
        if h.n_liabs >= 2 {
            stats.features.push("multi-liab");
        }
        if h.stale_collateral {
            stats.features.push("stale-collateral");
        }
        if h.reduce_only_collateral {
            stats.features.push("reduce-only");
        }
        if h.isolated_liab {
            stats.features.push("isolated-debt");
        }
    }
    // success side at the frontier and at generated fractions of it
    if a_star > 0 {
        check_success(&vm_star, &acct, &format!("{kind}({a_star}) [largest accepted]"), stats)?;
    }
    for f in &c.fracs {
        let a = ((a_star as u128 * *f as u128) >> 16) as u64;
        if a == 0 {
            continue;
        }
        let (vm, r) = exec(&w, a);
        if r.is_ok() {
            check_success(&vm, &acct, &format!("{kind}({a})"), stats)?;
        }
    }
    // the full-withdrawal variant of the same probe (closes the balance; the client omits - or, second form, includes -
    // the closed bank's observation accounts): whatever is accepted is judged on the real post-state
    if kind == "withdraw" {
        for include_closed in [false, true] {
            let metas = w.risk_metas(&acct, None, if include_closed { None } else { Some(w.banks[probe_bank].key) });
            let ix = w.ix_withdraw_with(acct, usr.auth, probe_bank, usr.tokens[probe_bank], 0, Some(true), metas);
            let mut vm = w.vm.clone();
            if vm.exec(&ix).is_ok() {
                stats.withdraw_all_accepted += 1;
                check_success(&vm, &acct, if include_closed { "withdraw_all (closed bank's accounts included)" } else { "withdraw_all" }, stats)?;
            } else {
                stats.withdraw_all_refused += 1;
            }
        }
    }
    // hostile presentation of the observation accounts: amounts the program refuses with the honest list are retried
    // with defective lists (none at all; one bank's group dropped; two groups swapped; one group duplicated over
    // another). The program may refuse, or accept if what it saw still justifies it - any acceptance is judged on the
    // real post-state like every other success.
    if err_above.is_some() {
        let inc = if kind == "borrow" { Some(w.banks[probe_bank].key) } else { None };
        let mut keys: Vec<solana_program::pubkey::Pubkey> = snap.lending_account.balances.iter().filter(|b| b.active != 0).map(|b| b.bank_pk).collect();
        if let Some(k) = inc {
            if !keys.contains(&k) {
                keys.push(k);
            }
        }
        keys.sort_by(|a, b| b.cmp(a));
        let groups: Vec<Vec<solana_program::instruction::AccountMeta>> = keys.iter().map(|k| w.risk_metas_for_bank(k)).collect();
        let mut variants: Vec<(&'static str, Vec<solana_program::instruction::AccountMeta>)> = vec![("none", vec![])];
        for skip in 0..groups.len().min(4) {
            variants.push(("one-bank-dropped", groups.iter().enumerate().filter(|(i, _)| *i != skip).flat_map(|(_, g)| g.clone()).collect()));
        }
        if groups.len() >= 2 {
            let mut g2 = groups.clone();
            g2.swap(0, 1);
            variants.push(("two-swapped", g2.into_iter().flatten().collect()));
            let mut g3 = groups.clone();
            g3[1] = g3[0].clone();
            variants.push(("one-duplicated-over-another", g3.into_iter().flatten().collect()));
            let mut g4 = groups.clone();
            let last = g4.len() - 1;
            g4[last] = g4[0].clone();
            variants.push(("one-duplicated-over-another", g4.into_iter().flatten().collect()));
        }
        for amt in [a_star.saturating_add(1), upper] {
            for (vname, metas) in &variants {
                let ix = if kind == "withdraw" { w.ix_withdraw_with(acct, usr.auth, probe_bank, usr.tokens[probe_bank], amt, None, metas.clone()) } else { w.ix_borrow_with(acct, usr.auth, probe_bank, usr.tokens[probe_bank], amt, metas.clone()) };
                let mut vm = w.vm.clone();
                stats.hostile_tried += 1;
                if vm.exec(&ix).is_ok() {
                    stats.hostile_accepted += 1;
                    check_success(&vm, &acct, &format!("{kind}({amt}) with hostile observation accounts [{vname}]"), stats)?;
                }
            }
        }
    }
    // converse at the frontier: rejected for health at a*+1 although clearly healthy. The state the
    // action would have produced is obtained exactly by running it inside a flash-loan bracket
    // (health checks are skipped inside the bracket) and observing the uncommitted state.
    if let Some(code) = err_above {
        if code == err_risk_engine() {
            stats.binds_health = true;
            let a1 = a_star + 1;
            let op_ix = if kind == "withdraw" { w.ix_withdraw(acct, usr.auth, probe_bank, usr.tokens[probe_bank], a1, None) } else { w.ix_borrow(acct, usr.auth, probe_bank, usr.tokens[probe_bank], a1) };
            let risk = w.risk_metas(&acct, if kind == "borrow" { Some(w.banks[probe_bank].key) } else { None }, None);
            let ixs = vec![w.ix_start_flashloan(acct, usr.auth, 2), op_ix, w.ix_end_flashloan(acct, usr.auth, risk)];
            let mut vm = w.vm.clone();
            let mut hypothetical: Option<Vm> = None;
            let _ = vm.exec_tx_observe(&ixs, |i, v| {
                if i == 1 {
                    hypothetical = Some(v.clone());
                }
            });
            if let Some(hv) = hypothetical {
                let a = read_macct(&hv, &acct).unwrap();
                let h = health(&hv, &a, Req::Initial, hv.now());
                if let Some(hh) = h.health() {
                    stats.converse_checked = true;
                    let margin = &h.ignored + q_int(64) * ulp();
                    let tiers_ok = !(h.isolated_liab && h.n_liabs > 1);
                    if tiers_ok && &hh.lo - &margin > q_zero() {
                        return Err((
                            "gate:spurious-rejection".into(),
                            format!("{kind}({a1}) rejected for health although the state it produces has reference initial health at least {} (assets >= {}, liabs <= {})", q_str(&hh.lo), q_str(&h.assets.as_ref().unwrap().lo), q_str(&h.liabs.as_ref().unwrap().hi)),
                        ));
                    }
                }
            }
        }
    }
    Ok(())
}

pub const STRICT_SIG: &str = "gate:success-but-unhealthy:debt-below-one-share-ignored";

const RULE: &str = "proptest portfolios: 2-8 banks (generated weights, isolated tier, e-mode tags/entries valid for the bank's liability weights, collateral-value caps, Pyth with EMA != spot and confidence / Switchboard / fixed oracles, SPL/Token-2022/transfer-fee mints, origination fee), 1-8 deposits, 0-4 borrows sized by the reference borrowing power, optional ReduceOnly collateral and stale collateral oracles; in 2/7 of the worlds one bank's share values are first inflated by orders of magnitude (a third user borrows from it on a steep curve, 1-5 rounds of five years) and the user takes a tiny debt there; then one borrow or withdraw whose amount is bisected on the real program to the largest accepted value a*. Oracle: reference initial health (exact rationals + enclosure) on the real post-state: success => not definitely unhealthy and an isolated debt is the only debt; rejection with the risk-engine code at a*+1 => health after a* minus the value of a few more units is not clearly positive. Non-trivial = health binds (0 < a* < available, rejected with the risk-engine code) and at least one of e-mode / cap discount / confidence / >=2 debts / stale or reduce-only collateral is active; distinct by (features, positions, probe kind, bank count).";

pub fn run(ctx: &Ctx) -> Report {
    let cases: u32 = ctx.tier.pick(3000, 30_000);
    let max_banks = ctx.tier.pick(8, 14);
    let mut rep = par_workers(ctx.threads, |wi| {
        let mut rep = Report::new(RULE);
        let strat = case_strategy(max_banks);
        let mut strict_first: Option<(PortCase, String)> = None;
        let outcome = run_prop(ctx.seed_bytes("c04", wi as u64), cases, &strat, |c, counting| {
            let mut st = CaseStats::default();
            let r = run_case(c, &mut st);
            if counting {
                rep.eval();
                if st.inflated {
                    rep.label("inflated-bank");
                    rep.set_max("max_liability_share_value", st.max_lsv);
                }
                if st.strict_hits > 0 {
                    rep.label_n("strict:success-with-ignored-debt-of-at-least-one-unit", st.strict_hits);
                    if strict_first.is_none() {
                        strict_first = Some((c.clone(), st.strict_first.clone().unwrap_or_default()));
                    }
                }
                if st.built {
                    rep.label("built");
                }
                if st.frontier {
                    rep.label("frontier-inside-range");
                }
                if st.binds_health {
                    rep.label("health-binds");
                }
                if st.converse_checked {
                    rep.label("converse-checked");
                }
                if let Some(e) = st.boundary_err {
                    rep.label(&format!("boundary-error:{e}"));
                }
                for f in &st.features {
                    rep.label(&format!("feature:{f}"));
                }
                rep.add_extra("success_side_checks", st.success_checks);
                rep.add_extra("withdraw_all_probes_accepted", st.withdraw_all_accepted);
                rep.add_extra("withdraw_all_probes_refused", st.withdraw_all_refused);
                rep.add_extra("hostile_observation_lists_tried", st.hostile_tried);
                rep.add_extra("hostile_observation_lists_accepted", st.hostile_accepted);
                rep.set_max("max_interval_width", st.widths);
                if st.frontier && st.binds_health && !st.features.is_empty() {
                    let wj = json!({"f": st.features, "n": st.n_positions, "k": c.probe_kind, "b": c.spec.banks.len(), "d": c.deposits.len(), "r": c.borrows.len()});
                    rep.nontrivial_case(&wj);
                    if rep.samples.len() < 3 {
                        rep.sample(json!({"banks": c.spec.banks.len(), "positions": st.n_positions, "probe": if c.probe_kind == 1 { "withdraw" } else { "borrow" }, "features": st.features, "deposits": c.deposits, "borrows": c.borrows}));
                    }
                }
            }
            r.map_err(|(s, m)| format!("{s}|{m}"))
        });
        if let Some((c, msg)) = outcome.failure {
            let (sig, m) = msg.split_once('|').map(|(a, b)| (a.to_string(), b.to_string())).unwrap_or((msg.clone(), msg.clone()));
            rep.violation(&sig, m, serde_json::to_value(&c).unwrap());
        }
        // the strict-reading finding does not stop the search (it is excluded by construction: counted, reported once)
        if let Some((c, m)) = strict_first {
            rep.violation(STRICT_SIG, m, serde_json::to_value(&c).unwrap());
        }
        rep
    });
    rep.nontrivial_floor = ctx.tier.pick(30, 300);
    rep
}

pub fn replay(_ctx: &Ctx, case: &Value) -> Report {
    let mut rep = Report::new(RULE);
    rep.nontrivial_floor = 0;
    match serde_json::from_value::<PortCase>(case.clone()) {
        Ok(c) => {
            let mut st = CaseStats::default();
            rep.eval();
            if let Err((sig, msg)) = run_case(&c, &mut st) {
                rep.violation(&sig, msg, case.clone());
            } else if st.strict_hits > 0 {
                rep.violation(STRICT_SIG, st.strict_first.clone().unwrap_or_default(), case.clone());
            }
            outln!("replay stats: {:?}", st);
        }
        Err(e) => rep.engine_errors.push(format!("bad replay: {e}")),
    }
    rep
}
