//! C10 (receivership bracket) and C11 (flash-loan bracket): exhaustive transaction shapes over an
//! alphabet of instruction kinds, executed atomically, judged at commit against a language spec
//! written from the statements and against the reference health model.
use crate::common::*;
use crate::model::*;
use crate::num::*;
use crate::outln;
use crate::props::c04::c04_bank_strategy_pub;
use crate::snap::bits;
use crate::svm::{noop_ids, proxy_id_allowed, wrap_cpi, Vm};
use crate::world::*;
use marginfi_type_crate::types::{ACCOUNT_DISABLED, ACCOUNT_FROZEN, ACCOUNT_IN_FLASHLOAN, ACCOUNT_IN_RECEIVERSHIP};
use num_traits::{Signed, ToPrimitive};
use proptest::prelude::*;
use serde::{Deserialize, Serialize};
use serde_json::{json, Value};
use solana_program::instruction::{AccountMeta, Instruction};
use solana_program::pubkey::Pubkey;

#[derive(Clone, Debug, Serialize, Deserialize)]
pub struct BrCase {
    pub spec: WorldSpec,
    pub collateral: u64,
    pub borrow_frac: u32,
    /// maintenance health target in per-mille of liabilities (negative = liquidatable)
    pub target_pm: i32,
    /// repay fraction (x/65536 of the debt) used by the `repay` symbol
    pub repay_frac: u32,
    /// withdraw value as per-mille of the repaid value for the `withdraw` symbol
    pub premium_pm: u32,
    /// 0 normal, 1 frozen, 2 disabled (C11 only)
    pub acct_state: u8,
    /// explicit shapes to run (replay) — empty means "enumerate"
    pub shapes: Vec<Vec<u8>>,
    pub max_len: u8,
    /// number of extra random shapes of length max_len+1 and +2
    pub extra_random: u32,
    pub extra_seed: u64,
}

fn world_strategy() -> impl Strategy<Value = WorldSpec> {
    (prop::collection::vec(c04_bank_strategy_pub(), 2..=2), prop::bool::weighted(0.12), 1_000_000_000u64..2_000_000_000_000_000, 500u32..3000).prop_map(|(mut banks, staked, supply, rate_pm)| {
        if staked {
            // the collateral bank is a real staked-collateral bank (three oracle accounts), the debt bank is SOL-tagged
            let mut feed = banks[1].oracle.clone();
            if feed.kind != 1 {
                feed = OracleSpec::pyth(feed.mant, feed.expo, (feed.mant as u64) / 400);
            }
            banks[1].oracle = feed.clone();
            banks[1].asset_tag = 1;
            banks[0].staked = Some(StakedSpec { supply, stake: ((supply as u128 * rate_pm as u128 / 1000) as u64).saturating_add(1_000_000_000) });
            banks[0].oracle = OracleSpec { kind: 3, ..feed };
            banks[0].asset_tag = 2;
            banks[0].token = 0;
            banks[0].decimals = 9;
            banks[0].aw_i = banks[0].aw_i.min(1_000_000);
        }
        for (i, b) in banks.iter_mut().enumerate() {
            // the collateral bank keeps its generated collateral-value cap (an initial-weight discount only)
            if i != 0 {
                b.init_limit = 0;
            }
            b.emode_tag = 0;
            b.emode_entries.clear();
            b.isolated = false;
            if i == 0 {
                if b.aw_i < 100_000 {
                    b.aw_i += 300_000;
                }
                if b.aw_m < b.aw_i {
                    b.aw_m = b.aw_i;
                }
            }
        }
        WorldSpec { banks, n_users: 4, program_fees_enabled: false, ..WorldSpec::default() }
    })
}

pub fn case_strategy(c10: bool, max_len: u8, extra_random: u32) -> impl Strategy<Value = BrCase> {
    (
        world_strategy(),
        // dollar value of the collateral in cents: mostly well above $5, sometimes below
        prop_oneof![1 => 50u64..500, 6 => 5_000u64..100_000_000, 2 => 100_000_000u64..100_000_000_000],
        30_000u32..=64_000,
        if c10 { prop_oneof![4 => -200i32..-5, 1 => 5i32..200].boxed() } else { (100i32..400).boxed() },
        3000u32..20_000,
        prop_oneof![3 => 900u32..1040, 1 => 1040u32..1060, 1 => 1060u32..1500],
        if c10 { Just(0u8).boxed() } else { prop_oneof![4 => Just(0u8), 1 => Just(1u8), 1 => Just(2u8)].boxed() },
        any::<u64>(),
    )
        .prop_map(move |(spec, collateral, borrow_frac, target_pm, repay_frac, premium_pm, acct_state, extra_seed)| BrCase { spec, collateral, borrow_frac, target_pm, repay_frac, premium_pm, acct_state, shapes: vec![], max_len, extra_random, extra_seed })
}

/// Prepared world: U = subject account (users[1]), V = another account (users[2]), L = third party (users[3])
#[derive(Clone)]
pub struct Prep {
    pub w: World,
    pub u: UserInfo,
    pub v: UserInfo,
    pub l: UserInfo,
    pub w_amt: u64,
    pub r_amt: u64,
    pub big_borrow: u64,
    pub small_borrow: u64,
    /// a second marginfi account of the liquidator that never held a position (no active balance at all)
    pub empty_acct: Pubkey,
    /// the liquidator's token account for the emissions mint (emissions are switched on for the collateral bank in
    /// every other world)
    pub em_dest: Pubkey,
    /// a second, unrelated group created by the liquidator, who is its admin and risk admin (group creation is permissionless)
    pub foreign_group: Pubkey,
    /// the collateral bank's collateral-value cap is tighter than what the bank holds (initial-weight discount active)
    pub cap_active: bool,
}

fn prepare(c: &BrCase, c10: bool) -> Option<Prep> {
    let mut cap_active = false;
    let mut w = World::build(&c.spec).ok()?;
    let (ab, lb) = (0usize, 1usize);
    let lender = w.users[0].clone();
    let u = w.users[1].clone();
    let v = w.users[2].clone();
    let l = w.users[3].clone();
    for bi in [ab, lb] {
        let ix = w.ix_deposit(lender.accts[0], lender.auth, bi, lender.tokens[bi], 1_000_000_000_000_000, None);
        w.vm.exec(&ix).ok()?;
    }
    // every other world: lending emissions on the collateral bank, so that U's position earns rewards a third party
    // could try to claim inside the bracket
    let emissions_on = c.repay_frac % 2 == 0;
    let (_mint, funding) = w.ensure_emissions_fixtures();
    let em_dest = w.emissions_destination(l.auth, 77);
    if emissions_on {
        let ix = w.ix_setup_emissions(ab, funding, 2, 1_000_000_000, 1_000_000_000_000);
        let _ = w.vm.exec(&ix);
    }
    // `collateral` is a dollar value in cents: convert to native units at the current price so that
    // most accounts are worth well over the $5 close-out threshold
    let collateral_native = {
        let ba = w.bank(ab);
        let ov = oracle_view(&w.vm, &ba, w.vm.now());
        let p = ov.low(PriceKind::Ema)?.lo;
        if !p.is_positive() {
            return None;
        }
        q_floor(&(q_ratio(c.collateral, 100u64) / &p * pow10(w.banks[ab].decimals as u32))).to_u64()?.max(1000)
    };
    let ix = w.ix_deposit(u.accts[0], u.auth, ab, u.tokens[ab], collateral_native, None);
    w.vm.exec(&ix).ok()?;
    let ix = w.ix_deposit(v.accts[0], v.auth, ab, v.tokens[ab], collateral_native / 2 + 1, None);
    w.vm.exec(&ix).ok()?;
    let ix = w.ix_deposit(l.accts[0], l.auth, lb, l.tokens[lb], 1_000_000_000_000, None);
    let _ = w.vm.exec(&ix);
    if emissions_on {
        // let some rewards accrue on U's deposit
        w.vm.advance(40);
        w.refresh_oracles();
    }
    let power = {
        let a = read_macct(&w.vm, &u.accts[0])?;
        let h = health(&w.vm, &a, Req::Initial, w.vm.now());
        let bank = w.bank(lb);
        let ov = oracle_view(&w.vm, &bank, w.vm.now());
        match (h.health(), ov.high(PriceKind::Ema)) {
            (Some(hh), Some(p)) if hh.lo.is_positive() && p.hi.is_positive() => q_floor(&(&hh.lo / (&p.hi * q_w(bank.config.liability_weight_init)) * pow10(bank.mint_decimals as u32))).to_u64().unwrap_or(0),
            _ => 0,
        }
    };
    let amt = ((power as u128 * c.borrow_frac as u128) >> 16) as u64;
    if amt < 1000 {
        return None;
    }
    let ix = w.ix_borrow(u.accts[0], u.auth, lb, u.tokens[lb], amt);
    w.vm.exec(&ix).ok()?;
    // in a third of the C10 worlds the limit admin now tightens the collateral bank's collateral-value cap to a third of
    // what the bank holds: the initial-weight discount is ACTIVE from here on. It must only matter for initial health -
    // the bracket's maintenance comparison and its equity-based premium test must not feel it.
    if c10 && c.extra_seed % 3 == 0 {
        let ba = w.bank(ab);
        let ov = oracle_view(&w.vm, &ba, w.vm.now());
        if let Some(p) = ov.low(PriceKind::Ema) {
            let value = q_w(ba.total_asset_shares) * q_w(ba.asset_share_value) * &p.lo / pow10(w.banks[ab].decimals as u32);
            if let Some(lim) = q_floor(&(value / q_int(3))).to_u64() {
                let ix = w.ix_configure_limits_only(ab, None, None, Some(lim.max(1)), w.roles.limit);
                if w.vm.exec(&ix).is_ok() {
                    cap_active = true;
                }
            }
        }
    }
    // liquidation records (separate transactions, as a liquidator would do)
    for acct in [u.accts[0], v.accts[0]] {
        let ix = w.ix_init_liq_record(acct, l.auth);
        w.vm.exec(&ix).ok()?;
    }
    // steer health
    {
        let a = read_macct(&w.vm, &u.accts[0])?;
        let h = health(&w.vm, &a, Req::Maintenance, w.vm.now());
        let (assets, liabs) = (h.assets.clone()?, h.liabs.clone()?);
        let vj = h.positions.iter().find(|p| !p.is_liab).map(|p| p.value.lo.clone())?;
        if !vj.is_positive() {
            return None;
        }
        let want = &liabs.hi + q_ratio(c.target_pm as i64, 1000i64) * &liabs.hi - (&assets.lo - &vj);
        if !want.is_positive() {
            return None;
        }
        let f = want / &vj;
        let o = w.banks[ab].spec.oracle.clone();
        let nm = q_floor(&(q_int(o.mant) * &f)).to_i64().unwrap_or(i64::MAX / 4).clamp(1, i64::MAX / 4);
        let conf = ((o.conf as u128).saturating_mul(nm as u128) / (o.mant.max(1) as u128)) as u64;
        w.set_price(ab, nm, conf, nm, conf).ok()?;
    }
    // amounts for the withdraw / repay symbols
    let r_amt = ((amt as u128 * c.repay_frac as u128) >> 16) as u64;
    let (pa, pl) = {
        let ba = w.bank(ab);
        let bl = w.bank(lb);
        let ova = oracle_view(&w.vm, &ba, w.vm.now());
        let ovl = oracle_view(&w.vm, &bl, w.vm.now());
        (ova.low(PriceKind::Ema)?.lo, ovl.high(PriceKind::Ema)?.hi)
    };
    if !pa.is_positive() {
        return None;
    }
    let r_val = q_int(r_amt) * &pl / pow10(w.banks[lb].decimals as u32);
    let w_amt = q_floor(&(r_val * q_ratio(c.premium_pm as u64, 1000u64) / &pa * pow10(w.banks[ab].decimals as u32))).to_u64()?;
    if w_amt == 0 || r_amt == 0 {
        return None;
    }
    if !c10 {
        match c.acct_state {
            1 => {
                let ix = w.ix_set_freeze(u.accts[0], w.roles.admin, true);
                w.vm.exec(&ix).ok()?;
            }
            2 => {
                // disabled through a real account transfer: the old account (disabled) stays the subject
                let new = kp("brackets_new", 1);
                let mut ix = w.ix_transfer_account(u.accts[0], new, u.auth, u.auth);
                for m in ix.accounts.iter_mut() {
                    if m.pubkey == new {
                        m.is_signer = true;
                    }
                }
                w.vm.exec(&ix).ok()?;
            }
            _ => {}
        }
    }
    // an account without any position (flash-loan brackets on it have nothing to check at the end — and must still
    // clear the flag)
    let empty_acct = kp("brackets_empty_acct", 0);
    {
        let mut ix = w.ix_account_init(empty_acct, l.auth);
        for m in ix.accounts.iter_mut() {
            if m.pubkey == empty_acct {
                m.is_signer = true;
            }
        }
        w.vm.exec(&ix).ok()?;
    }
    let liq = w.tok(&w.banks[lb].lv);
    // the liquidator's own group: initialise + configure with every role = the liquidator
    let foreign_group = kp("foreign_group", 0);
    {
        use anchor_lang::{InstructionData, ToAccountMetas};
        let ix = Instruction {
            program_id: marginfi::ID,
            accounts: marginfi::accounts::MarginfiGroupInitialize { marginfi_group: foreign_group, admin: l.auth, fee_state: w.fee_state, system_program: solana_program::system_program::ID }.to_account_metas(Some(true)),
            data: marginfi::instruction::MarginfiGroupInitialize {}.data(),
        };
        w.vm.exec(&ix).ok()?;
        let ix = Instruction {
            program_id: marginfi::ID,
            accounts: marginfi::accounts::MarginfiGroupConfigure { marginfi_group: foreign_group, admin: l.auth }.to_account_metas(Some(true)),
            data: marginfi::instruction::MarginfiGroupConfigure {
                new_admin: l.auth,
                new_emode_admin: l.auth,
                new_curve_admin: l.auth,
                new_limit_admin: l.auth,
                new_emissions_admin: l.auth,
                new_metadata_admin: l.auth,
                new_risk_admin: l.auth,
                emode_max_init_leverage: None,
                emode_max_maint_leverage: None,
            }
            .data(),
        };
        w.vm.exec(&ix).ok()?;
    }
    Some(Prep { w, u, v, l, w_amt, r_amt, em_dest, empty_acct, big_borrow: (power.saturating_mul(3)).min(liq / 2).max(amt), small_borrow: (amt / 50).max(1), foreign_group, cap_active })
}

// ------------------------------------------------------------------------------------------
// alphabets
// ------------------------------------------------------------------------------------------
// a trailing "+" = the same instruction with one extra byte appended to its data (Anchor ignores
// trailing bytes, so it dispatches identically; validators that compare whole data would not)
pub const C10_SYMS: &[&str] = &["cb", "sA", "sV", "eA", "eV", "wA", "rA", "bA", "dA", "irW", "kr", "js", "sd", "un", "fsA", "feA", "p:sA", "p:eA", "p:wA", "p:rA", "wBig", "sA+", "sV+", "eA+", "eA0", "sA1", "sA2", "sdF", "edF", "rAllA", "eAx", "weA", "seA", "phA", "acr", "sA3", "eA3"];
// "feV&A" = end for account V with account U appended as a trailing (ignored) remaining account;
// "feA0" / "feA1" = a genuine end for U whose observation accounts are missing altogether / lack the borrowed bank
// (the risk engine cannot be built: the end must fail, never pass unchecked)
pub const C11_SYMS: &[&str] = &["fs0", "fs1", "fs2", "fs3", "fs4", "fs9", "feA", "feV", "bBig", "bSm", "wBig", "dA", "rAll", "lqA", "bkA", "sA", "eA", "tA", "cA", "p:fs2", "p:feA", "p:bBig", "cb", "feV&A", "feA+", "fsH0", "fsH1", "fsG1", "feA0", "feA1", "tP", "xsE1", "xeE"];

/// end index named by a flash-loan start symbol: "fs<k>" = k, "fsH<k>" = 65536 + k, "fsG<k>" = 2^32 + k
/// (indices that alias position k if the program narrows the 64-bit argument to 16 / 32 bits)
fn fs_index(sym: &str) -> Option<u64> {
    let t = sym.strip_prefix("fs")?;
    if let Some(k) = t.strip_prefix('H') {
        return k.parse::<u64>().ok().map(|k| 65_536 + k);
    }
    if let Some(k) = t.strip_prefix('G') {
        return k.parse::<u64>().ok().map(|k| (1u64 << 32) + k);
    }
    t.parse::<u64>().ok()
}

fn foreign_ix(program_id: Pubkey, data: Vec<u8>) -> Instruction {
    Instruction { program_id, accounts: vec![], data }
}

fn build_ix(p: &Prep, sym: &str) -> Instruction {
    let w = &p.w;
    let (ab, lb) = (0usize, 1usize);
    let (ua, va) = (p.u.accts[0], p.v.accts[0]);
    let risk_u = w.risk_metas(&ua, Some(w.banks[lb].key), None);
    if let Some(inner) = sym.strip_prefix("p:") {
        return wrap_cpi(proxy_id_allowed(), &build_ix(p, inner));
    }
    if let Some(inner) = sym.strip_suffix('+') {
        let mut ix = build_ix(p, inner);
        ix.data.push(0);
        return ix;
    }
    if sym == "feV&A" {
        let mut ix = build_ix(p, "feV");
        ix.accounts.push(AccountMeta::new(ua, false));
        return ix;
    }
    match sym {
        "cb" => foreign_ix(noop_ids()[0], vec![2, 0, 0, 0, 0]),
        "sA" => w.ix_start_liquidation(ua, p.l.auth),
        // a genuine start for U whose observation accounts lack the collateral bank (the account would look worse
        // than it is): must fail, never take control of an account on a partial picture
        "sA1" => {
            let mut ix = w.ix_start_liquidation(ua, p.l.auth);
            let ckey = w.banks[ab].key;
            let glen = w.risk_metas_for_bank(&ckey).len();
            if let Some(pos) = ix.accounts.iter().rposition(|m| m.pubkey == ckey) {
                ix.accounts.drain(pos..(pos + glen).min(ix.accounts.len()));
            }
            ix
        }
        // ... or present the debt bank's group in the collateral bank's place
        "sA2" => {
            let mut ix = w.ix_start_liquidation(ua, p.l.auth);
            let ckey = w.banks[ab].key;
            let glen = w.risk_metas_for_bank(&ckey).len();
            if let Some(pos) = ix.accounts.iter().rposition(|m| m.pubkey == ckey) {
                ix.accounts.splice(pos..(pos + glen).min(ix.accounts.len()), w.risk_metas_for_bank(&w.banks[lb].key));
            }
            ix
        }
        // genuine start / end for U whose observation accounts show the DEBT bank's (authentic, fresh) oracle in the
        // collateral bank's oracle slot: the collateral cannot be priced, so the assessment must fail — never go on with
        // that collateral counted as nothing
        "sA3" | "eA3" => {
            let mut ix = if sym == "sA3" { w.ix_start_liquidation(ua, p.l.auth) } else { w.ix_end_liquidation(ua, p.l.auth, w.risk_metas(&ua, None, None)) };
            let (from, to) = (w.banks[ab].oracle_key, w.banks[lb].oracle_key);
            if from != to {
                for m in ix.accounts.iter_mut() {
                    if m.pubkey == from {
                        m.pubkey = to;
                    }
                }
            }
            ix
        }
        "sV" => w.ix_start_liquidation(va, p.l.auth),
        "eA" => w.ix_end_liquidation(ua, p.l.auth, w.risk_metas(&ua, None, None)),
        "eV" => w.ix_end_liquidation(va, p.l.auth, w.risk_metas(&va, None, None)),
        // a deleverage bracket on U run by the risk admin of ANOTHER group (the liquidator's own, unrelated group)
        "sdF" | "edF" => {
            let mut wf = w.clone();
            wf.group = p.foreign_group;
            if sym == "sdF" {
                wf.ix_start_deleverage(ua, p.l.auth)
            } else {
                wf.ix_end_deleverage(ua, p.l.auth, w.risk_metas(&ua, None, None))
            }
        }
        // a genuine end for U whose observation accounts are missing: the end-of-bracket health comparison cannot be
        // made, so it must fail (never pass unchecked)
        "eA0" => w.ix_end_liquidation(ua, p.l.auth, vec![]),
        "wA" => w.ix_withdraw_with(ua, p.l.auth, ab, p.l.tokens[ab], p.w_amt, None, w.risk_metas(&ua, None, None)),
        "wBig" => w.ix_withdraw_with(ua, p.l.auth, ab, p.l.tokens[ab], p.w_amt.saturating_mul(3), None, w.risk_metas(&ua, None, None)),
        "rA" => w.ix_repay(ua, p.l.auth, lb, p.l.tokens[lb], p.r_amt, None),
        // the liquidator repays U's WHOLE debt (closes the balance); the matching end lists no observation accounts for
        // the closed balance
        "rAllA" => w.ix_repay(ua, p.l.auth, lb, p.l.tokens[lb], 0, Some(true)),
        "eAx" => w.ix_end_liquidation(ua, p.l.auth, w.risk_metas(&ua, None, Some(w.banks[lb].key))),
        "bA" => w.ix_borrow_with(ua, p.l.auth, lb, p.l.tokens[lb], p.small_borrow, risk_u),
        "dA" => w.ix_deposit(ua, if sym == "dA" && p.w_amt % 2 == 0 { p.l.auth } else { p.u.auth }, ab, if p.w_amt % 2 == 0 { p.l.tokens[ab] } else { p.u.tokens[ab] }, 1000, None),
        "irW" => w.ix_init_liq_record(w.users[0].accts[0], p.l.auth),
        // other instructions of this program a third party can send: claim U's emission rewards into the liquidator's
        // own token account (signed by the liquidator), the permissionless settle / health pulse / interest crank.
        // None of them is a withdraw or a repay, so none may appear between start and end.
        "weA" => w.ix_withdraw_emissions(ua, p.l.auth, ab, p.em_dest),
        "seA" => w.ix_settle_emissions(ua, ab),
        "phA" => w.ix_pulse_health(ua),
        "acr" => w.ix_accrue(ab),
        "kr" => {
            use anchor_lang::Discriminator;
            use kamino_mocks::kamino_lending::client::args as kamino;
            let mut d = kamino::RefreshReserve::DISCRIMINATOR.to_vec();
            d.extend_from_slice(&[0u8; 8]);
            foreign_ix(kamino_mocks::kamino_lending::ID, d)
        }
        "js" => foreign_ix(proxy_id_allowed(), vec![0u8; 40]),
        "sd" => foreign_ix(proxy_id_allowed(), vec![1, 2, 3, 4]),
        "un" => foreign_ix(noop_ids()[1], vec![0u8; 16]),
        // a well-formed bracket on an account that holds nothing: [xsE1 at #0, xeE at #1]
        "xsE1" => w.ix_start_flashloan(p.empty_acct, p.l.auth, 1),
        "xeE" => w.ix_end_flashloan(p.empty_acct, p.l.auth, vec![]),
        "fsA" => w.ix_start_flashloan(ua, p.u.auth, 3),
        "feA" => w.ix_end_flashloan(ua, p.u.auth, w.risk_metas(&ua, Some(w.banks[lb].key), None)),
        "feV" => w.ix_end_flashloan(va, p.v.auth, w.risk_metas(&va, None, None)),
        "feA0" => w.ix_end_flashloan(ua, p.u.auth, vec![]),
        "feA1" => w.ix_end_flashloan(ua, p.u.auth, w.risk_metas(&ua, None, Some(w.banks[lb].key))),
        "fs0" | "fs1" | "fs2" | "fs3" | "fs4" | "fs9" | "fsH0" | "fsH1" | "fsG1" => w.ix_start_flashloan(ua, p.u.auth, fs_index(sym).unwrap()),
        "bBig" => w.ix_borrow_with(ua, p.u.auth, lb, p.u.tokens[lb], p.big_borrow, w.risk_metas(&ua, Some(w.banks[lb].key), None)),
        "bSm" => w.ix_borrow_with(ua, p.u.auth, lb, p.u.tokens[lb], p.small_borrow, w.risk_metas(&ua, Some(w.banks[lb].key), None)),
        "rAll" => w.ix_repay(ua, p.u.auth, lb, p.u.tokens[lb], 0, Some(true)),
        "lqA" => w.ix_liquidate(p.l.accts[0], p.l.auth, ua, ab, lb, (p.w_amt / 4).max(1)),
        "bkA" => w.ix_bankruptcy(lb, ua, w.roles.admin),
        "tA" => {
            let new = kp("brackets_t", 7);
            let mut ix = w.ix_transfer_account(ua, new, p.u.auth, p.u.auth);
            for m in ix.accounts.iter_mut() {
                if m.pubkey == new {
                    m.is_signer = true;
                }
            }
            ix
        }
        "cA" => w.ix_close_account(ua, p.u.auth),
        // the PDA flavour of the account transfer (moves positions AND the flag word to a new PDA account)
        "tP" => w.ix_transfer_account_pda(ua, p.u.auth, p.u.auth, 3),
        _ => foreign_ix(noop_ids()[1], vec![0u8; 8]),
    }
}

#[derive(Clone, Debug, Default)]
struct TxFacts {
    ok: bool,
    failed_at: Option<usize>,
    /// per executed ix: flags of U after it
    flags_after: Vec<u64>,
    /// state after each executed instruction
    states: Vec<Vm>,
}

fn run_tx(p: &Prep, ixs: &[Instruction]) -> (Vm, TxFacts) {
    let mut vm = p.w.vm.clone();
    let ua = p.u.accts[0];
    let mut f = TxFacts::default();
    let out = vm.exec_tx_observe(ixs, |_, v| {
        f.flags_after.push(read_macct(v, &ua).map(|a| a.account_flags).unwrap_or(0));
        f.states.push(v.clone());
    });
    f.ok = out.ok;
    f.failed_at = out.err.map(|e| e.0);
    (vm, f)
}

fn equity(vm: &Vm, acct: &Pubkey, kind: PriceKind) -> Option<(Iv, Iv)> {
    let a = read_macct(vm, acct)?;
    let h = health_with_kind(vm, &a, Req::Equity, vm.now(), Some(kind));
    Some((h.assets?, h.liabs?))
}

fn maint(vm: &Vm, acct: &Pubkey) -> Option<Iv> {
    let a = read_macct(vm, acct)?;
    let h = health(vm, &a, Req::Maintenance, vm.now());
    let x = h.health()?;
    Some(x.widen(&h.ignored))
}

fn no_flags_left(vm: &Vm, flag: u64) -> Option<Pubkey> {
    for (k, a) in all_maccts(vm) {
        if a.account_flags & flag != 0 {
            return Some(k);
        }
    }
    None
}

/// C10 language (from the statement): first top-level instruction that is not compute-budget or a
/// whitelisted refresh / record-init is THE start for U, the last instruction is the end for U,
/// only withdraw / repay / record-init of this program in between, allowed programs only, none of
/// the bracket instructions via CPI, exactly one start.
fn in_c10_language(shape: &[&str]) -> bool {
    if shape.len() < 2 {
        return false;
    }
    let is_pre = |s: &str| matches!(s, "cb" | "kr" | "irW");
    let mut i = 0;
    while i < shape.len() && is_pre(shape[i]) {
        i += 1;
    }
    if i >= shape.len() || !(shape[i] == "sA" || shape[i] == "sA+" || shape[i] == "sA1" || shape[i] == "sA2" || shape[i] == "sA3") {
        return false;
    }
    if !matches!(*shape.last().unwrap(), "eA" | "eA+" | "eA0" | "eAx" | "eA3") {
        return false;
    }
    for s in &shape[i + 1..shape.len() - 1] {
        match *s {
            "wA" | "wBig" | "rA" | "rAllA" | "irW" | "cb" | "kr" | "js" => {}
            // Conservative reading (DESIGN.md C10 CR): "none via CPI" is asserted for the start and the
            // end; a withdraw / repay of this program reached through an allow-listed top-level
            // program is still only a withdraw / repay and is counted, not alarmed.
            "p:wA" | "p:rA" => {}
            _ => return false,
        }
    }
    true
}

#[derive(Default, Debug)]
pub struct Stats {
    pub shapes: u64,
    pub committed: u64,
    pub committed_with_control: u64,
    pub in_language: u64,
    pub cpi_inner: u64,
    pub rejected_classes: std::collections::BTreeMap<String, u64>,
    pub skipped_health_checks: u64,
    pub premium_frontier: (u64, u64),
    pub prepared: bool,
    pub cap_active_worlds: u64,
    pub hostile_oracle_probes: u64,
    pub samples: Vec<Value>,
}

fn shape_strs(alpha: &[&'static str], s: &[u8]) -> Vec<&'static str> {
    s.iter().map(|i| alpha[*i as usize % alpha.len()]).collect()
}

fn check_c10(p: &Prep, shape: &[&str], c: &BrCase, stats: &mut Stats) -> Result<(), (String, String)> {
    let ixs: Vec<Instruction> = shape.iter().map(|s| build_ix(p, s)).collect();
    let (post, f) = run_tx(p, &ixs);
    stats.shapes += 1;
    let ua = p.u.accts[0];
    if !f.ok {
        let cls = format!("fail@{}:{}", f.failed_at.unwrap_or(99).min(9), shape.get(f.failed_at.unwrap_or(0)).unwrap_or(&"?"));
        *stats.rejected_classes.entry(cls).or_insert(0) += 1;
        return Ok(());
    }
    stats.committed += 1;
    // (1) nothing survives the transaction
    if let Some(k) = no_flags_left(&post, ACCOUNT_IN_RECEIVERSHIP) {
        return Err(("bracket:receivership-flag-survives".into(), format!("shape {:?}: account {k} is still flagged in receivership after commit", shape)));
    }
    let rec = World::liq_record_key(&ua);
    if let Some(a) = post.get(&rec) {
        // liquidation_receiver sits after discriminator(8) + key(32) + marginfi_account(32) + record_payer(32)
        let recv = Pubkey::new_from_array(a.data[8 + 96..8 + 128].try_into().unwrap());
        if recv != Pubkey::default() {
            return Err(("bracket:receiver-survives".into(), format!("shape {:?}: liquidation record still names receiver {recv}", shape)));
        }
    }
    // (2) was control exercised? (an instruction ran while the flag was set, or a third party moved U's balances)
    let pre_acct = read_macct(&p.w.vm, &ua).unwrap();
    let post_acct = read_macct(&post, &ua).unwrap();
    let flagged = f.flags_after.iter().any(|fl| fl & ACCOUNT_IN_RECEIVERSHIP != 0);
    let third_party_moved = {
        let changed = pre_acct.lending_account.balances.iter().zip(post_acct.lending_account.balances.iter()).any(|(x, y)| x.asset_shares != y.asset_shares || x.liability_shares != y.liability_shares || x.bank_pk != y.bank_pk);
        // the only instructions signed by U's own authority in this alphabet: deposit variant / flash-loan symbols
        let owner_signed = shape.iter().any(|s| matches!(*s, "fsA" | "feA")) || (shape.contains(&"dA") && p.w_amt % 2 == 1);
        changed && !owner_signed
    };
    if !(flagged || third_party_moved) {
        return Ok(());
    }
    stats.committed_with_control += 1;
    if !in_c10_language(shape) {
        return Err(("bracket:shape-outside-language".into(), format!("transaction {:?} committed with a third party controlling the account, but it is not start-first / end-last / withdraw-repay-only / no-CPI", shape)));
    }
    stats.in_language += 1;
    if shape.iter().any(|s| matches!(*s, "p:wA" | "p:rA")) {
        stats.cpi_inner += 1;
    }
    // (3) health conditions (definite breaches only)
    let h_pre = maint(&p.w.vm, &ua);
    let h_post = maint(&post, &ua);
    let (Some(h0), Some(h1)) = (h_pre, h_post) else {
        return Err(("bracket:undefined-health".into(), format!("shape {:?} committed although the reference health is undefined", shape)));
    };
    if h0.lo.is_positive() {
        return Err(("bracket:healthy-account-seized".into(), format!("shape {:?}: control taken although maintenance health was at least {}", shape, q_str(&h0.lo))));
    }
    if h1.hi < h0.lo {
        return Err(("bracket:health-worse".into(), format!("shape {:?}: maintenance health fell from >= {} to <= {}", shape, q_str(&h0.lo), q_str(&h1.hi))));
    }
    // equity measures under both price readings
    let mut small_account_any = false;
    let mut premium_breach_all = true;
    let mut ended_healthy = h1.lo.is_positive();
    let max_fee = q_max(q_ratio(c.spec.liq_max_fee as u64, 1_000_000u64), q_ratio(5, 100));
    let mut any_reading = false;
    for kind in [PriceKind::Ema, PriceKind::Spot] {
        let (Some((a0, l0)), Some((a1, l1))) = (equity(&p.w.vm, &ua, kind), equity(&post, &ua, kind)) else { continue };
        any_reading = true;
        if a0.lo < q_int(5) {
            small_account_any = true;
        }
        let seized_lo = &a0.lo - &a1.hi;
        let repaid_hi = &l0.hi - &l1.lo;
        let slack = q_int(256) * ulp() * (q_one() + a0.hi.abs() + l0.hi.abs());
        if !(seized_lo > &repaid_hi * (q_one() + &max_fee) + slack) {
            premium_breach_all = false;
        }
    }
    if !any_reading {
        premium_breach_all = false;
        ended_healthy = false;
    }
    if premium_breach_all && !small_account_any {
        return Err(("bracket:premium-exceeded".into(), format!("shape {:?}: value seized exceeds value repaid x (1 + max(fee,5%)) under both price readings", shape)));
    }
    if ended_healthy && !small_account_any {
        return Err(("bracket:ended-healthy".into(), format!("shape {:?}: account ends with maintenance health >= {} > 0", shape, q_str(&h1.lo))));
    }
    if stats.samples.len() < 3 {
        stats.samples.push(json!({"committed_bracket": shape, "w_amt": p.w_amt, "r_amt": p.r_amt}));
    }
    Ok(())
}

fn check_c11(p: &Prep, shape: &[&str], stats: &mut Stats) -> Result<(), (String, String)> {
    let ixs: Vec<Instruction> = shape.iter().map(|s| build_ix(p, s)).collect();
    let (post, f) = run_tx(p, &ixs);
    stats.shapes += 1;
    let ua = p.u.accts[0];
    let pre_flags = read_macct(&p.w.vm, &ua).map(|a| a.account_flags).unwrap_or(0);
    // facts about executed instructions hold even when the transaction later fails (they show
    // what the program accepted), but only a COMMIT can violate the property; however
    // "start succeeded => well-formed" and "liquidation of a flagged account never succeeds" are
    // per-instruction claims, so they are checked on every executed prefix.
    let mut flag_before = pre_flags;
    for (i, fl) in f.flags_after.iter().enumerate() {
        let sym = shape[i];
        let set_now = fl & ACCOUNT_IN_FLASHLOAN != 0 && flag_before & ACCOUNT_IN_FLASHLOAN == 0;
        if set_now {
            // a start succeeded at position i
            let Some(end_idx) = fs_index(sym).map(|x| x.min(usize::MAX as u64 / 2) as usize) else {
                return Err(("flash:flag-set-by-non-start".into(), format!("shape {:?}: instruction #{i} ({sym}) set the flash-loan flag", shape)));
            };
            let ok_shape = end_idx > i && end_idx < shape.len() && matches!(shape[end_idx], "feA" | "feA+" | "feA0" | "feA1");
            if !ok_shape {
                return Err(("flash:start-accepted-malformed".into(), format!("shape {:?}: start at #{i} naming index {end_idx} was accepted", shape)));
            }
            if flag_before & (ACCOUNT_DISABLED | ACCOUNT_FROZEN | ACCOUNT_IN_RECEIVERSHIP) != 0 {
                return Err(("flash:start-on-flagged-account".into(), format!("shape {:?}: flash loan started on an account with flags {:#x}", shape, flag_before)));
            }
        }
        if sym.starts_with("p:fs") && set_now {
            return Err(("flash:start-via-cpi".into(), format!("shape {:?}: start via CPI accepted", shape)));
        }
        if flag_before & ACCOUNT_IN_FLASHLOAN != 0 {
            if matches!(sym, "lqA" | "bkA" | "sA") {
                return Err(("flash:liquidation-during-flashloan".into(), format!("shape {:?}: {sym} succeeded while the account was in a flash loan", shape)));
            }
            if sym.starts_with("fs") && fl & ACCOUNT_IN_FLASHLOAN != 0 {
                return Err(("flash:nested-start".into(), format!("shape {:?}: nested start at #{i} accepted", shape)));
            }
        }
        if sym == "p:feA" && flag_before & ACCOUNT_IN_FLASHLOAN != 0 && fl & ACCOUNT_IN_FLASHLOAN == 0 {
            return Err(("flash:end-via-cpi".into(), format!("shape {:?}: end via CPI accepted", shape)));
        }
        flag_before = *fl;
    }
    if !f.ok {
        let cls = format!("fail@{}:{}", f.failed_at.unwrap_or(99).min(9), shape.get(f.failed_at.unwrap_or(0)).unwrap_or(&"?"));
        *stats.rejected_classes.entry(cls).or_insert(0) += 1;
        return Ok(());
    }
    stats.committed += 1;
    if let Some(k) = no_flags_left(&post, ACCOUNT_IN_FLASHLOAN) {
        return Err(("flash:flag-survives".into(), format!("shape {:?}: account {k} is still flagged in-flash-loan after commit", shape)));
    }
    if let Some(k) = no_flags_left(&post, ACCOUNT_IN_RECEIVERSHIP) {
        return Err(("flash:receivership-flag-survives".into(), format!("shape {:?}: account {k} flagged in receivership after commit", shape)));
    }
    // did some borrow/withdraw succeed without the risk gate holding at that point?
    let mut skipped_at: Option<usize> = None;
    for (i, st) in f.states.iter().enumerate() {
        // (a withdrawal by the liquidator strictly inside a receivership is C10's business: that bracket is closed by
        // end_liquidation's maintenance-health comparison, not by the initial-margin check)
        let in_receivership = f.flags_after.get(i).map(|fl| fl & ACCOUNT_IN_RECEIVERSHIP != 0).unwrap_or(false);
        if matches!(shape[i], "bBig" | "bSm" | "wBig" | "p:bBig") && !in_receivership {
            if let Some(a) = read_macct(st, &ua) {
                let h = health(st, &a, Req::Initial, st.now());
                if let Some(hh) = h.health() {
                    if (&hh.hi + &h.ignored).is_negative() {
                        skipped_at = Some(i);
                    }
                }
            }
        }
    }
    if let Some(i) = skipped_at {
        stats.skipped_health_checks += 1;
        // then an end for U by this program at top level appears later …
        let later_end = shape[i + 1..].iter().any(|s| matches!(*s, "feA" | "feA+" | "feA0" | "feA1"));
        if !later_end {
            return Err(("flash:unchecked-borrow-committed".into(), format!("shape {:?}: #{i} left the account initially unhealthy and no end instruction follows", shape)));
        }
        // … and the account is healthy at commit
        if let Some(a) = read_macct(&post, &ua) {
            let h = health(&post, &a, Req::Initial, post.now());
            if let Some(hh) = h.health() {
                if (&hh.hi + &h.ignored).is_negative() {
                    return Err(("flash:unhealthy-at-commit".into(), format!("shape {:?}: committed with reference initial health <= {}", shape, q_str(&hh.hi))));
                }
            }
        }
        if stats.samples.len() < 3 {
            stats.samples.push(json!({"committed_flashloan": shape, "borrow": p.big_borrow}));
        }
    } else if let Some(a) = read_macct(&post, &ua) {
        // any committed transaction that changed U's debt must leave it initially healthy
        let pre_a = read_macct(&p.w.vm, &ua).unwrap();
        let grew = a.lending_account.balances.iter().zip(pre_a.lending_account.balances.iter()).any(|(x, y)| bits(x.liability_shares) > bits(y.liability_shares));
        if grew {
            let h = health(&post, &a, Req::Initial, post.now());
            if let Some(hh) = h.health() {
                if (&hh.hi + &h.ignored).is_negative() {
                    return Err(("flash:unhealthy-at-commit".into(), format!("shape {:?}: debt grew and the account committed initially unhealthy", shape)));
                }
            }
        }
    }
    Ok(())
}

fn enumerate_shapes(n_syms: usize, max_len: usize, f: &mut dyn FnMut(&[u8]) -> Result<(), (String, String)>) -> Result<(), (String, String)> {
    let mut cur: Vec<u8> = vec![];
    fn rec(cur: &mut Vec<u8>, n: usize, max_len: usize, f: &mut dyn FnMut(&[u8]) -> Result<(), (String, String)>) -> Result<(), (String, String)> {
        if !cur.is_empty() {
            f(cur)?;
        }
        if cur.len() == max_len {
            return Ok(());
        }
        for s in 0..n {
            cur.push(s as u8);
            rec(cur, n, max_len, f)?;
            cur.pop();
        }
        Ok(())
    }
    rec(&mut cur, n_syms, max_len, f)
}

/// sweep withdraw / repay sizes across the premium frontier and the health-not-worse frontier
fn sweep_amounts(p: &Prep, c: &BrCase, stats: &mut Stats, shard: Option<(usize, usize)>) -> Result<(), (String, Vec<u8>, String)> {
    let base = (p.w_amt, p.r_amt);
    let mut x = c.extra_seed ^ 0x5555;
    let n_amt = if c.max_len == 0 { 400 } else { (c.extra_random / 20).max(200) };
    for k in 0..n_amt {
        if c.max_len != 0 {
            if let Some((i, n)) = shard {
                if (k as usize) % n != i {
                    continue;
                }
            }
        }
        x = splitmix(x);
        let fw = 500 + (x % 4500); // per-mille of the base withdraw
        x = splitmix(x);
        let fr = 200 + (x % 2500);
        let mut p2 = p.clone();
        p2.w_amt = ((base.0 as u128 * fw as u128) / 1000).max(1) as u64;
        p2.r_amt = ((base.1 as u128 * fr as u128) / 1000).max(1) as u64;
        let names = ["sA", "wA", "rA", "eA"];
        let before = stats.committed_with_control;
        check_c10(&p2, &names, c, stats).map_err(|(sig, msg)| (sig, vec![1u8, 5, 6, 3], format!("{msg} [w_amt={} r_amt={}]", p2.w_amt, p2.r_amt)))?;
        if stats.committed_with_control > before {
            stats.premium_frontier.0 += 1;
        } else {
            stats.premium_frontier.1 += 1;
        }
    }
    Ok(())
}

/// Directed probes in every prepared world (C10): brackets whose start / end are presented with a foreign oracle in the
/// collateral bank's slot, on the world as it is and on a copy where the admin has set the collateral bank reduce-only
/// (its deposits "still count for liquidation purposes"). Whatever commits is judged by the same clauses as any shape.
fn hostile_oracle_probes(p: &Prep, c: &BrCase, stats: &mut Stats) -> Result<(), (String, Vec<u8>, String)> {
    let idx = |name: &str| C10_SYMS.iter().position(|s| *s == name).unwrap_or(0) as u8;
    let shapes: [&[&'static str]; 7] = [&["sA3", "eA3"], &["sA3", "wA", "eA3"], &["sA3", "wA", "rA", "eA3"], &["sA3", "rA", "eA3"], &["sA3", "wA", "rA", "eA"], &["sA", "wA", "rA", "eA3"], &["sA3", "wBig", "eA3"]];
    for reduce_only in [false, true] {
        let mut p2 = p.clone();
        if reduce_only {
            let mut o = marginfi_type_crate::types::BankConfigOpt::default();
            o.operational_state = Some(marginfi_type_crate::types::BankOperationalState::ReduceOnly);
            let ix = p2.w.ix_configure_bank(0, o, p2.w.roles.admin);
            if p2.w.vm.exec(&ix).is_err() {
                continue;
            }
        }
        for sh in shapes.iter() {
            stats.hostile_oracle_probes += 1;
            // replay encoding: a trailing 255 = "the admin sets the collateral bank reduce-only first"
            check_c10(&p2, sh, c, stats).map_err(|(sig, msg)| {
                let mut v = sh.iter().map(|s| idx(s)).collect::<Vec<u8>>();
                if reduce_only {
                    v.push(255);
                }
                (sig, v, format!("{msg} [collateral bank reduce-only: {reduce_only}]"))
            })?;
        }
    }
    Ok(())
}

pub fn run_case(c: &BrCase, c10: bool, stats: &mut Stats, shard: Option<(usize, usize)>) -> Result<(), (String, Vec<u8>, String)> {
    let Some(p) = prepare(c, c10) else { return Ok(()) };
    stats.prepared = true;
    if p.cap_active {
        stats.cap_active_worlds += 1;
    }
    if c10 && c.shapes.is_empty() && shard.map(|(i, _)| i == 0).unwrap_or(true) {
        hostile_oracle_probes(&p, c, stats)?;
    }
    if c.max_len == 0 {
        // sweep-only world: just the amount sweep inside the well-formed bracket
        return sweep_amounts(&p, c, stats, shard);
    }
    let alpha: &[&'static str] = if c10 { C10_SYMS } else { C11_SYMS };
    let mut check = |s: &[u8], stats: &mut Stats| -> Result<(), (String, Vec<u8>, String)> {
        let names = shape_strs(alpha, s);
        let r = if c10 { check_c10(&p, &names, c, stats) } else { check_c11(&p, &names, stats) };
        r.map_err(|(sig, msg)| (sig, s.to_vec(), msg))
    };
    if !c.shapes.is_empty() {
        for s in &c.shapes {
            if c10 && s.last() == Some(&255) {
                let mut p2 = p.clone();
                let mut o = marginfi_type_crate::types::BankConfigOpt::default();
                o.operational_state = Some(marginfi_type_crate::types::BankOperationalState::ReduceOnly);
                let ix = p2.w.ix_configure_bank(0, o, p2.w.roles.admin);
                let _ = p2.w.vm.exec(&ix);
                let names = shape_strs(alpha, &s[..s.len() - 1]);
                check_c10(&p2, &names, c, stats).map_err(|(sig, msg)| (sig, s.to_vec(), msg))?;
                continue;
            }
            check(s, stats)?;
        }
        return Ok(());
    }
    let mut counter = 0usize;
    let mut err: Option<(String, Vec<u8>, String)> = None;
    let _ = enumerate_shapes(alpha.len(), c.max_len as usize, &mut |s| {
        counter += 1;
        if let Some((i, n)) = shard {
            if counter % n != i {
                return Ok(());
            }
        }
        match check(s, stats) {
            Ok(()) => Ok(()),
            Err(e) => {
                err = Some(e);
                Err(("stop".into(), "stop".into()))
            }
        }
    });
    if let Some(e) = err {
        return Err(e);
    }
    // (b) amounts inside the well-formed bracket
    if c10 {
        sweep_amounts(&p, c, stats, shard)?;
    }
    if false {
        let base = (p.w_amt, p.r_amt);
        let mut x = c.extra_seed ^ 0x5555;
        let n_amt = (c.extra_random / 20).max(200);
        for k in 0..n_amt {
            if let Some((i, n)) = shard {
                if (k as usize) % n != i {
                    continue;
                }
            }
            x = splitmix(x);
            let fw = 500 + (x % 1500); // per-mille of the base withdraw
            x = splitmix(x);
            let fr = 200 + (x % 2500);
            let mut p2 = p.clone();
            p2.w_amt = ((base.0 as u128 * fw as u128) / 1000).max(1) as u64;
            p2.r_amt = ((base.1 as u128 * fr as u128) / 1000).max(1) as u64;
            let names = ["sA", "wA", "rA", "eA"];
            let before = stats.committed_with_control;
            check_c10(&p2, &names, c, stats).map_err(|(sig, msg)| (format!("{sig}"), vec![1u8, 5, 6, 3], format!("{msg} [w_amt={} r_amt={}]", p2.w_amt, p2.r_amt)))?;
            if stats.committed_with_control > before {
                stats.premium_frontier.0 += 1;
            } else {
                stats.premium_frontier.1 += 1;
            }
        }
    }
    // longer random shapes, biased toward well-formed brackets with noise
    let mut x = c.extra_seed | 1;
    for k in 0..c.extra_random {
        if let Some((i, n)) = shard {
            if (k as usize) % n != i {
                continue;
            }
        }
        let len = c.max_len as usize + 1 + (k as usize % 2);
        let mut s: Vec<u8> = vec![];
        for _ in 0..len {
            x = splitmix(x);
            s.push((x % alpha.len() as u64) as u8);
        }
        // half of them: force a bracket skeleton
        if k % 2 == 0 {
            let (st, en) = if c10 { (1u8, 3u8) } else { (((len - 1).min(4)) as u8, 6u8) };
            s[0] = st;
            let l = s.len();
            s[l - 1] = en;
        }
        check(&s, stats)?;
    }
    Ok(())
}

const RULE_C10: &str = "per generated world (2 banks; generated decimals, token programs, weights, oracles; a borrower steered to a generated maintenance health, mostly liquidatable, sometimes healthy; in a third of the worlds the limit admin then tightens the collateral bank's collateral-value cap to a third of what the bank holds - an active initial-weight discount that the bracket's maintenance and equity measures must not feel; liquidation records created): EXHAUSTIVE enumeration of all transaction shapes up to the stated length over the 31-symbol alphabet (incl. trailing-byte variants of start/end, a start whose observation accounts lack the collateral bank an end without observation accounts, and a deleverage start / end run by the risk admin of an unrelated group) {compute-budget, start(U), start(V), end(U), end(V), withdraw(U) by third party, big withdraw, repay(U), borrow(U), deposit(U), init-record, kamino-refresh (whitelisted), allowed-program swap, short-data ix, unknown-program ix, flash start/end, and start/end/withdraw/repay via CPI from an allow-listed proxy program} plus random longer shapes; every shape executed as one atomic transaction through the real entry point. Commit-time oracle: no receivership flag / receiver survives; if a third party controlled the account then the shape is in the language written from the statement (start first after compute/whitelisted, end last, only withdraw/repay/record-init between, allowed programs, no CPI), the account was not healthy, health not worse, not ended healthy and premium <= max(fee,5%) unless equity < $5 (definite breaches on enclosures, under both price readings). Non-trivial = committed transactions in which a third party controlled the account; distinct by (shape, world hash).";
const RULE_C11: &str = "per generated world (account normal / frozen / disabled-by-transfer): EXHAUSTIVE enumeration of all transaction shapes up to the stated length over the 31-symbol alphabet (incl. an end for another account that merely lists U, a trailing-byte end, and ends whose observation accounts are missing or lack the borrowed bank) {flash start naming end index 0,1,2,3,4,9 and 65536+0, 65536+1, 2^32+1 (aliases of 0 / 1 under 16- / 32-bit narrowing); end(U); end(V); big borrow (unhealthy); small borrow; big withdraw; deposit; repay_all; classic liquidate(U); bankruptcy(U); start_liquidation(U); end_liquidation(U); transfer(U); close(U); start/end/borrow via CPI; compute-budget} plus random longer shapes, each executed atomically. Oracle: per executed instruction — a start that set the flag named a later end(U) of this program, was top-level, on an unflagged account, not nested; liquidation/bankruptcy/start_liquidation never succeed on a flagged account; at commit — no flash-loan flag survives, and if an action inside left the account initially unhealthy (reference model) then an end(U) follows and the account is not unhealthy at commit. Non-trivial = committed transactions containing a borrow/withdraw that skipped the health check.";

pub fn run(ctx: &Ctx, c10: bool) -> Report {
    let worlds: u32 = if c10 { ctx.tier.pick(4, 10) } else { ctx.tier.pick(6, 12) };
    let max_len: u8 = if c10 { ctx.tier.pick(4, 5) } else { ctx.tier.pick(4, 5) };
    let extra: u32 = ctx.tier.pick(200_000, 1_000_000);
    let rule = if c10 { RULE_C10 } else { RULE_C11 };
    // worlds are generated once (same for all workers); the shape space is sharded over workers
    let strat = case_strategy(c10, max_len, extra);
    let mut cases: Vec<BrCase> = vec![];
    {
        use proptest::strategy::ValueTree;
        use proptest::test_runner::{Config, RngAlgorithm, TestRng, TestRunner};
        let mut runner = TestRunner::new_with_rng(Config { failure_persistence: None, ..Config::default() }, TestRng::from_seed(RngAlgorithm::ChaCha, &ctx.seed_bytes(if c10 { "c10" } else { "c11" }, 0)));
        let mut tries = 0;
        while (cases.len() as u32) < worlds && tries < 400 {
            tries += 1;
            if let Ok(t) = strat.new_tree(&mut runner) {
                let c = t.current();
                if prepare(&c, c10).is_some() {
                    cases.push(c);
                }
            }
        }
    }
    // extra sweep-only worlds (C10): many portfolios, amount sweep only
    let mut sweep_cases: Vec<BrCase> = vec![];
    if c10 {
        use proptest::strategy::ValueTree;
        use proptest::test_runner::{Config, RngAlgorithm, TestRng, TestRunner};
        let want = ctx.tier.pick(160usize, 3200usize);
        let sstrat = case_strategy(true, 0, 0);
        let mut runner = TestRunner::new_with_rng(Config { failure_persistence: None, ..Config::default() }, TestRng::from_seed(RngAlgorithm::ChaCha, &ctx.seed_bytes("c10-sweep", 0)));
        let mut tries = 0;
        while sweep_cases.len() < want && tries < want * 20 {
            tries += 1;
            if let Ok(t) = sstrat.new_tree(&mut runner) {
                sweep_cases.push(t.current());
            }
        }
    }
    let n = ctx.threads;
    let mut rep = par_workers(n, |wi| {
        let mut rep = Report::new(rule);
        for (si, c) in sweep_cases.iter().enumerate() {
            if si % n != wi {
                continue;
            }
            let mut st = Stats::default();
            let r = run_case(c, c10, &mut st, None);
            rep.evaluations += st.shapes;
            rep.add_extra("sweep_worlds", st.prepared as u64);
            rep.add_extra("worlds_with_an_active_collateral_value_cap", st.cap_active_worlds);
            rep.add_extra("hostile_oracle_bracket_probes", st.hostile_oracle_probes);
            rep.add_extra("amount_sweep_committed", st.premium_frontier.0);
            rep.add_extra("amount_sweep_rejected", st.premium_frontier.1);
            rep.add_extra("committed_with_third_party_control", st.committed_with_control);
            for j in 0..st.committed_with_control.min(1000) {
                rep.nontrivial_hash(fnv(format!("s{si}/{j}").as_bytes()));
            }
            if let Err((sig, shape, msg)) = r {
                let mut cc = c.clone();
                cc.shapes = vec![shape];
                rep.violation(&sig, msg, serde_json::to_value(&cc).unwrap());
                return rep;
            }
        }
        for (ci, c) in cases.iter().enumerate() {
            let mut st = Stats::default();
            let r = run_case(c, c10, &mut st, Some((wi, n)));
            rep.evaluations += st.shapes;
            rep.add_extra("committed", st.committed);
            if wi == 0 {
                rep.add_extra("worlds_with_an_active_collateral_value_cap", st.cap_active_worlds);
            }
            rep.add_extra("committed_with_third_party_control", st.committed_with_control);
            rep.add_extra("in_language", st.in_language);
            rep.add_extra("hostile_oracle_bracket_probes", st.hostile_oracle_probes);
            rep.add_extra("committed_with_inner_withdraw_or_repay_via_cpi(counted,not asserted)", st.cpi_inner);
            rep.add_extra("skipped_health_checks_committed", st.skipped_health_checks);
            rep.add_extra("amount_sweep_committed", st.premium_frontier.0);
            rep.add_extra("amount_sweep_rejected", st.premium_frontier.1);
            for (k, v) in &st.rejected_classes {
                rep.label_n(k, *v);
            }
            let nt = if c10 { st.committed_with_control } else { st.skipped_health_checks };
            for j in 0..nt.min(200_000) {
                rep.nontrivial_hash(fnv(format!("{ci}/{wi}/{j}").as_bytes()));
            }
            for s in st.samples {
                rep.sample(s);
            }
            if let Err((sig, shape, msg)) = r {
                let mut cc = c.clone();
                cc.shapes = vec![shape];
                rep.violation(&sig, msg, serde_json::to_value(&cc).unwrap());
                break;
            }
        }
        rep
    });
    rep.add_extra("worlds", cases.len() as u64);
    rep.extra.insert("max_len_exhaustive".into(), json!(max_len));
    rep.nontrivial_floor = 10;
    if cases.is_empty() {
        rep.engine_errors.push("no world could be prepared".into());
    }
    rep
}

pub fn replay(_ctx: &Ctx, case: &Value, c10: bool) -> Report {
    let mut rep = Report::new(if c10 { RULE_C10 } else { RULE_C11 });
    rep.nontrivial_floor = 0;
    match serde_json::from_value::<BrCase>(case.clone()) {
        Ok(c) => {
            let mut st = Stats::default();
            rep.eval();
            if let Err((sig, _shape, msg)) = run_case(&c, c10, &mut st, None) {
                rep.violation(&sig, msg, case.clone());
            }
            outln!("replay stats: shapes={} committed={} control={} lang={}", st.shapes, st.committed, st.committed_with_control, st.in_language);
        }
        Err(e) => rep.engine_errors.push(format!("bad replay: {e}")),
    }
    rep
}

#[allow(dead_code)]
fn _unused(_: AccountMeta) {}
