//! C03 (second half) — round trips: exhaustive enumeration of all op sequences of bounded length
//! over {deposit(a), withdraw(a), withdraw_all, borrow(a), repay(a), repay_all} x 3 amounts at a
//! frozen clock and frozen prices, from generated bank states; tokens + net position value of the
//! user never increases beyond n*u.
use crate::common::*;
use crate::num::*;
use crate::props::c04::c04_bank_strategy_pub;
use crate::snap::bits;
use crate::svm::Vm;
use crate::world::*;
use proptest::prelude::*;
use serde::{Deserialize, Serialize};
use serde_json::{json, Value};

#[derive(Clone, Debug, Serialize, Deserialize)]
pub struct RtCase {
    pub spec: WorldSpec,
    pub lender_deposit: u64,
    pub borrower_frac: u32,
    pub wait: u32,
    pub subject_collateral: u64,
    pub amounts: [u64; 3],
    pub max_len: u8,
    /// replay: explicit sequence of symbols
    pub seq: Vec<u8>,
}

pub fn case_strategy(max_len: u8) -> impl Strategy<Value = RtCase> {
    (
        prop::collection::vec(c04_bank_strategy_pub(), 2..=2),
        prop_oneof![1000u64..1_000_000, 1_000_000u64..1_000_000_000_000],
        1000u32..60_000,
        prop_oneof![Just(0u32), 1u32..100_000, 100_000u32..200_000_000],
        1_000_000u64..1_000_000_000_000_000,
        prop::array::uniform3(prop_oneof![2 => 1u64..10, 3 => 10u64..100_000, 3 => 100_000u64..10_000_000_000]),
        (any::<u32>(), any::<u32>(), any::<u32>()),
    )
        .prop_map(move |(mut banks, lender_deposit, borrower_frac, wait, subject_collateral, amounts, (z, h, f))| {
            for (i, b) in banks.iter_mut().enumerate() {
                b.init_limit = 0;
                b.emode_tag = 0;
                b.emode_entries.clear();
                b.isolated = false;
                if b.aw_i < 100_000 {
                    b.aw_i += 300_000;
                }
                if b.aw_m < b.aw_i {
                    b.aw_m = b.aw_i;
                }
                if i == 1 {
                    // interest-bearing so that share values move away from 1
                    b.curve.zero = z % 200_000_000;
                    b.curve.hundred = b.curve.zero + 1 + h % 2_000_000_000;
                    b.curve.ins_fixed = f % 100_000;
                    b.curve.prot_ir = (f >> 8) % 200_000;
                }
            }
            RtCase { spec: WorldSpec { banks, n_users: 3, program_fees_enabled: false, ..WorldSpec::default() }, lender_deposit, borrower_frac, wait, subject_collateral, amounts, max_len, seq: vec![] }
        })
}

const N_SYMS: usize = 14;
fn sym_name(s: u8) -> String {
    match s {
        0..=2 => format!("dep[{}]", s),
        3..=5 => format!("wd[{}]", s - 3),
        6 => "wd_all".into(),
        7..=9 => format!("bor[{}]", s - 7),
        10..=12 => format!("rep[{}]", s - 10),
        _ => "rep_all".into(),
    }
}

struct Ctx3 {
    w: World,
    subj: UserInfo,
    bank: usize,
}

fn apply(c: &Ctx3, vm: &mut Vm, s: u8, amounts: &[u64; 3]) -> bool {
    let (acct, auth, tok) = (c.subj.accts[0], c.subj.auth, c.subj.tokens[c.bank]);
    // instruction constructors read the store for remaining accounts: point a temporary world at vm
    let mut w = c.w.clone();
    w.vm = vm.clone();
    let ix = match s {
        0..=2 => w.ix_deposit(acct, auth, c.bank, tok, amounts[s as usize], None),
        3..=5 => w.ix_withdraw(acct, auth, c.bank, tok, amounts[(s - 3) as usize], None),
        6 => w.ix_withdraw(acct, auth, c.bank, tok, 0, Some(true)),
        7..=9 => w.ix_borrow(acct, auth, c.bank, tok, amounts[(s - 7) as usize]),
        10..=12 => w.ix_repay(acct, auth, c.bank, tok, amounts[(s - 10) as usize], None),
        _ => w.ix_repay(acct, auth, c.bank, tok, 0, Some(true)),
    };
    vm.exec(&ix).is_ok()
}

fn wealth(c: &Ctx3, vm: &Vm) -> Q {
    let key = c.w.banks[c.bank].key;
    let b = read_bank(vm, &key);
    let (a, l) = read_macct(vm, &c.subj.accts[0])
        .and_then(|m| m.lending_account.balances.iter().find(|x| x.active != 0 && x.bank_pk == key).map(|x| (bits(x.asset_shares), bits(x.liability_shares))))
        .unwrap_or((0, 0));
    q_int(token_amount(vm.data(&c.subj.tokens[c.bank]))) + q_bits(a) * q_w(b.asset_share_value) - q_bits(l) * q_w(b.liability_share_value)
}

#[derive(Default)]
pub struct Stats {
    pub prepared: bool,
    pub nodes: u64,
    pub ok_nodes: u64,
    pub with_close: u64,
    pub sv_not_one: bool,
    pub max_gain_ulps: f64,
}

pub fn run_case(c: &RtCase, stats: &mut Stats) -> Result<(), (String, Vec<u8>, String)> {
    let Ok(mut w) = World::build(&c.spec) else { return Ok(()) };
    let (cb, bb) = (0usize, 1usize);
    let lender = w.users[0].clone();
    let borrower = w.users[1].clone();
    let subj = w.users[2].clone();
    let ix = w.ix_deposit(lender.accts[0], lender.auth, bb, lender.tokens[bb], c.lender_deposit, None);
    if w.vm.exec(&ix).is_err() {
        return Ok(());
    }
    // a borrower with ample collateral creates utilisation
    let ix = w.ix_deposit(borrower.accts[0], borrower.auth, cb, borrower.tokens[cb], 1_000_000_000_000_000, None);
    let _ = w.vm.exec(&ix);
    let amt = ((c.lender_deposit as u128 * c.borrower_frac as u128) >> 16) as u64;
    if amt > 0 {
        let ix = w.ix_borrow(borrower.accts[0], borrower.auth, bb, borrower.tokens[bb], amt);
        let _ = w.vm.exec(&ix);
    }
    w.vm.advance(c.wait as i64);
    w.refresh_oracles();
    let _ = w.vm.exec(&w.ix_accrue(bb));
    // subject: collateral elsewhere so that it can borrow from the bank under test
    let ix = w.ix_deposit(subj.accts[0], subj.auth, cb, subj.tokens[cb], c.subject_collateral, None);
    let _ = w.vm.exec(&ix);
    let b = w.bank(bb);
    stats.sv_not_one = q_w(b.asset_share_value) != q_one() || q_w(b.liability_share_value) != q_one();
    stats.prepared = true;
    let u = q_int(8) * ulp() * (q_one() + q_w(b.asset_share_value) + q_w(b.liability_share_value));
    let ctx3 = Ctx3 { w: w.clone(), subj, bank: bb };
    let root = wealth(&ctx3, &w.vm);
    // explicit replay
    if !c.seq.is_empty() {
        let mut vm = w.vm.clone();
        let mut n = 0u64;
        for s in &c.seq {
            if apply(&ctx3, &mut vm, *s, &c.amounts) {
                n += 1;
            }
            let gain = wealth(&ctx3, &vm) - &root;
            if gain > q_int(n.max(1)) * &u {
                return Err(("value:round-trip-gain".into(), c.seq.clone(), format!("sequence {:?} leaves the user {} richer (tokens + net position value)", c.seq.iter().map(|s| sym_name(*s)).collect::<Vec<_>>(), q_str(&gain))));
            }
        }
        return Ok(());
    }
    // DFS with prefix sharing
    fn rec(ctx3: &Ctx3, vm: &Vm, seq: &mut Vec<u8>, n_ok: u64, closed: bool, root: &Q, u: &Q, c: &RtCase, stats: &mut Stats) -> Result<(), (String, Vec<u8>, String)> {
        if seq.len() == c.max_len as usize {
            return Ok(());
        }
        for s in 0..N_SYMS as u8 {
            let mut v = vm.clone();
            stats.nodes += 1;
            if !apply(ctx3, &mut v, s, &c.amounts) {
                continue;
            }
            stats.ok_nodes += 1;
            seq.push(s);
            let closed2 = closed || s == 6 || s == 13;
            if closed2 {
                stats.with_close += 1;
            }
            let gain = wealth(ctx3, &v) - root;
            let allowed = q_int(n_ok + 1) * u;
            if gain > allowed {
                let names: Vec<String> = seq.iter().map(|x| sym_name(*x)).collect();
                return Err(("value:round-trip-gain".into(), seq.clone(), format!("sequence {:?} with amounts {:?} leaves the user {} richer (tokens + net position value), allowance {}", names, c.amounts, q_str(&gain), q_str(&allowed))));
            }
            if num_traits::Signed::is_positive(&gain) {
                stats.max_gain_ulps = stats.max_gain_ulps.max(q_f64(&(gain / ulp())));
            }
            rec(ctx3, &v, seq, n_ok + 1, closed2, root, u, c, stats)?;
            seq.pop();
        }
        Ok(())
    }
    let mut seq = vec![];
    rec(&ctx3, &w.vm, &mut seq, 0, false, &root, &u, c, stats)
}

pub const RULE: &str = "round trips: per generated bank state (share values moved away from 1 by real accrual with generated curves/fees/time; SPL / Token-2022 / transfer-fee mints; decimals 0-12) EXHAUSTIVE enumeration (DFS with shared prefixes) of all sequences up to the stated length over {deposit(a), withdraw(a), withdraw_all, borrow(a), repay(a), repay_all} x 3 generated amounts at a frozen clock and frozen prices; after every successful prefix: user tokens + exact net position value <= start + n*u. Non-trivial = state with share values != 1; sequences containing a full close are counted.";

pub fn run(ctx: &Ctx) -> Report {
    let cases: u32 = ctx.tier.pick(12, 120);
    let max_len: u8 = ctx.tier.pick(4, 5);
    par_workers(ctx.threads, |wi| {
        let mut rep = Report::new(RULE);
        let strat = case_strategy(max_len);
        let outcome = run_prop(ctx.seed_bytes("c03rt", wi as u64), cases, &strat, |c, counting| {
            let mut st = Stats::default();
            let r = run_case(c, &mut st);
            if counting {
                rep.evaluations += st.ok_nodes.max(1);
                rep.add_extra("roundtrip_states", st.prepared as u64);
                rep.add_extra("roundtrip_nodes_tried", st.nodes);
                rep.add_extra("roundtrip_sequences_with_full_close", st.with_close);
                rep.set_max("roundtrip_max_gain_ulps", st.max_gain_ulps);
                if st.prepared && st.sv_not_one {
                    rep.nontrivial_case(&json!({"a": c.amounts, "d": c.lender_deposit, "w": c.wait, "f": c.borrower_frac}));
                    if rep.samples.len() < 2 {
                        rep.sample(json!({"roundtrip_state": {"amounts": c.amounts, "wait": c.wait, "token": c.spec.banks[1].token, "decimals": c.spec.banks[1].decimals}, "sequences_tried": st.nodes}));
                    }
                }
            }
            r.map_err(|(s, seq, m)| format!("{s}|{m}|{}", serde_json::to_string(&seq).unwrap()))
        });
        if let Some((c, msg)) = outcome.failure {
            let parts: Vec<&str> = msg.splitn(3, '|').collect();
            let mut cc = c.clone();
            if parts.len() == 3 {
                cc.seq = serde_json::from_str(parts[2]).unwrap_or_default();
            }
            rep.violation(parts[0], parts.get(1).unwrap_or(&"").to_string(), serde_json::to_value(&cc).unwrap());
        }
        rep
    })
}

pub fn replay(_ctx: &Ctx, case: &Value) -> Report {
    let mut rep = Report::new(RULE);
    rep.nontrivial_floor = 0;
    match serde_json::from_value::<RtCase>(case.clone()) {
        Ok(c) => {
            let mut st = Stats::default();
            rep.eval();
            if let Err((sig, _s, msg)) = run_case(&c, &mut st) {
                rep.violation(&sig, msg, case.clone());
            }
        }
        Err(e) => rep.engine_errors.push(format!("bad replay: {e}")),
    }
    rep
}
