//! Stateful property-based campaign over VENUE banks (Kamino / Solend / Drift backed banks whose instructions run for
//! real through `marginfi::entry` and the fake venue programs of `venue_{kamino,solend,drift}.rs`).
//!
//! One campaign, nine clause families (C02 ledger, C03 no free value, C04 risk gate, C08 authorization, C09 staleness,
//! C10 receivership, C14 gating, C16 structure, C17 caps). `run(ctx, pid, rep)` executes the campaign for property
//! `pid`: findings of that property's family are violations, findings of the other families are counted as
//! `cross:<PID>:<clause>` labels. Everything asserted is success / failure and exact-rational arithmetic on raw account
//! bytes; no error code is asserted (the converse of C04 is triggered by the risk engine's rejection code, as in c04.rs).
//!
//! The two permissionless harvest instructions (`kamino_harvest_reward` through the fake FARMS program of `venue_farms.rs`,
//! `drift_harvest_reward` through the fake DRIFT's `withdraw(reduce_only)`) run as op `Harvest` (see `op_harvest`):
//! C08 - hostile destinations / substitutions never commit and a committed harvest pays nobody but the global fee
//! wallet's canonical ATA; C03 - it takes nothing from any bank vault, venue vault or user and leaves a Drift bank's own
//! spot position alone; C02 / C03 frame through `after_commit`.
use crate::common::*;
use crate::model::*;
use crate::num::*;
use crate::svm::{err_code, Vm};
use crate::world::*;
use crate::{venue_drift as vd, venue_farms as vf, venue_kamino as vk, venue_solend as vs};
use marginfi_type_crate::types::{BankConfigOpt, BankOperationalState, ACCOUNT_DISABLED, ACCOUNT_FROZEN, ACCOUNT_IN_RECEIVERSHIP};
use num_traits::{Signed, ToPrimitive, Zero};
use proptest::prelude::*;
use serde::{Deserialize, Serialize};
use serde_json::{json, Value};
use solana_program::instruction::{AccountMeta, Instruction};
use solana_program::pubkey::Pubkey;
use std::collections::BTreeMap;

pub const KINDS: [&str; 3] = ["drift", "kamino", "solend"];
pub const PIDS: [&str; 9] = ["C02", "C03", "C04", "C08", "C09", "C10", "C14", "C16", "C17"];

pub fn fam_of(pid: &str) -> &'static str {
    match pid {
        "C02" => "c02",
        "C03" => "c03",
        "C04" => "c04",
        "C08" => "c08",
        "C09" | "C20" => "c09",
        "C10" => "c10",
        "C14" => "c14",
        "C16" => "c16",
        "C17" => "c17",
        _ => "none",
    }
}
fn pid_of(fam: &str) -> &'static str {
    match fam {
        "c02" => "C02",
        "c03" => "C03",
        "c04" => "C04",
        "c08" => "C08",
        "c09" => "C09",
        "c10" => "C10",
        "c14" => "C14",
        "c16" => "C16",
        "c17" => "C17",
        _ => "C??",
    }
}

// ------------------------------------------------------------------------------------------
// case = world + op sequence (serde: this is the replay file)
// ------------------------------------------------------------------------------------------
#[derive(Clone, Debug, Serialize, Deserialize, PartialEq)]
pub struct FeedSpec {
    /// 0 fixed (ordinary banks only), 1 Pyth push, 2 Switchboard pull
    pub kind: u8,
    pub mant: i64,
    pub expo: i32,
    pub conf_bps: u16,
    /// EMA = mant * ema_pm / 1000 (Pyth only)
    pub ema_pm: u16,
}
impl FeedSpec {
    fn oracle(&self, mant: i64, conf_bps: u16) -> OracleSpec {
        let mant = mant.max(1);
        if self.kind == 0 {
            return OracleSpec::fixed(mant, self.expo);
        }
        let conf = (mant as u128 * conf_bps as u128 / 10_000) as u64;
        let ema = if self.kind == 1 { ((mant as i128 * self.ema_pm as i128) / 1000).max(1) as i64 } else { mant };
        let ema_conf = (ema as u128 * conf_bps as u128 / 10_000) as u64;
        OracleSpec { kind: self.kind, mant, expo: self.expo, conf, ema_mant: ema, ema_conf, max_age: 100, max_conf: 0 }
    }
}

#[derive(Clone, Debug, Serialize, Deserialize, PartialEq)]
pub struct OrdSpec {
    pub decimals: u8,
    pub token: u8,
    pub feed: FeedSpec,
    pub aw_i: u32,
    pub aw_m: u32,
    pub lw_i: u32,
    pub lw_m: u32,
    /// e-mode entries of this (liability) bank: (collateral tag 1..3, fraction of the largest admissible initial weight,
    /// of the largest admissible maintenance weight, both in millionths) - they boost venue banks that carry the tag
    #[serde(default)]
    pub emode: Vec<(u16, u32, u32)>,
}

#[derive(Clone, Debug, Serialize, Deserialize, PartialEq)]
pub struct VSpec {
    /// 0 drift, 1 kamino, 2 solend
    pub kind: u8,
    pub decimals: u8,
    /// 0 SPL Token, 1 Token-2022 (no extensions)
    pub token: u8,
    pub feed: FeedSpec,
    /// initial venue exchange rate = 1 + rate_ppm / 10^6 (Drift: cumulative deposit interest)
    pub rate_ppm: u32,
    /// third-party collateral supply of the reserve ~ 10^scale_exp native units (Kamino / Solend)
    pub scale_exp: u8,
    pub ragged: u32,
    pub aw_i: u32,
    pub aw_m: u32,
    pub limit: u64,
    /// millionths of the venue's borrowed liquidity (Drift: of the cumulative deposit interest) written off before the
    /// campaign starts: a reserve that socialised a loss may be worth LESS than one underlying token per collateral unit
    #[serde(default)]
    pub haircut_ppm: u32,
    /// e-mode tag of the venue bank (0 = none; 1..3 may be boosted by an entry of the bank the account borrows from)
    #[serde(default)]
    pub emode_tag: u16,
    /// collateral-value cap (total_asset_value_init_limit, dollars; 0 = none): discounts the INITIAL weight only
    #[serde(default)]
    pub init_limit: u64,
}

#[derive(Clone, Debug, Serialize, Deserialize, PartialEq)]
pub enum VOp {
    /// signer: 0 authority, 1 another user, 2 stranger, 3 authority's key without the signature bit, 4 group admin
    VDeposit { u: u16, vb: u16, amt: u64, rel: u8, refresh: bool, signer: u8 },
    /// dest: 0 the signer's token account, 1 the authority's
    VWithdraw { u: u16, vb: u16, amt: u64, rel: u8, all: bool, refresh: bool, signer: u8, dest: u8 },
    Borrow { u: u16, amt: u64, rel: u8, refresh: bool },
    Repay { u: u16, amt: u64, rel: u8, all: bool, refresh: bool },
    OrdDeposit { u: u16, b: u16, amt: u64 },
    AccrueVenue { vb: u16, ppm: u32 },
    /// the venue writes off ppm millionths of its borrowers' debt (the exchange rate FALLS, possibly below par)
    VenueLoss { vb: u16, ppm: u32 },
    /// substitution probe on a copy of the world: a well-formed venue deposit / withdraw of user u on venue bank vb
    /// (positive control: it must commit), then the same instruction with every account slot that marginfi itself binds to
    /// the bank (bank, liquidity vault, vault authority, mint, the three integration accounts) replaced - one at a time
    /// and all at once - by the corresponding account of ANOTHER bank of the same venue kind: a foreign group's, and
    /// another bank of the home group's. Nothing of it may commit.
    Subst { u: u16, vb: u16, withdraw: bool, amt: u64 },
    Wait { secs: u32 },
    RefreshVenue { vb: u16, direct: bool },
    Price { b: u16, num: u16, conf_bps: u16 },
    /// 0 paused, 1 operational, 2 reduce-only
    BankState { vb: u16, state: u8 },
    Killed { vb: u16 },
    GlobalPause { on: bool, propagate: bool },
    Limit { vb: u16, amt: u64, rel: u8 },
    Liquidate { le: u16, vb: u16, amt: u64, rel: u8, refresh: bool },
    /// seize collateral worth prem_pm / 1000 of the value repaid; repay rfrac / 65536 of the debt
    Bracket { le: u16, vb: u16, prem_pm: u16, rfrac: u16, refresh: bool },
    Freeze { u: u16, on: bool },
    /// steer maintenance health to -depth / 1000 of the liabilities (negative depth = slightly healthy)
    Distress { le: u16, depth: i16 },
    Disable { u: u16 },
    Bankrupt { u: u16, refresh: bool, crash: bool },
    /// the permissionless `kamino_harvest_reward` / `drift_harvest_reward` on venue bank `vb` (Solend has none).
    /// signer (who sends it; the instruction itself has no signer account): 0 user 0, 1 user 1, 2 the stranger.
    /// dest: 0 the fee wallet's canonical ATA of the reward mint, 1 the sender's ATA, 2 the group admin's ATA, 3 a
    /// non-canonical token account owned by the fee wallet. variant: 0 none, else one hostile substitution (see
    /// `KAMINO_VARIANTS` / `DRIFT_VARIANTS`). amount: the pending reward (Kamino) / the admin deposit (Drift) the outside
    /// world puts there first. flavour bits: 1 Kamino reward 1 (the bank's own mint) instead of reward 0 (a new mint), 2
    /// new reward mint is Token-2022, 4|8|16 reward decimals / Drift position slot, 32 dust waits in the intermediary
    /// account, 64 (Drift variant 4) only the user stats are substituted
    Harvest { vb: u16, signer: u8, dest: u8, variant: u8, amount: u64, flavour: u8 },
}
pub const KAMINO_VARIANTS: [&str; 7] = ["none", "ata-is-liquidity-vault", "ata-of-other-bank", "bank-mint-as-reward", "vault-authority-of-other-bank", "bank-substituted", "fee-state-copy"];
pub const DRIFT_VARIANTS: [&str; 8] = ["none", "own-market", "same-mint-market", "position-in-slot-0-1", "user-of-other-bank", "intermediary-not-ata", "vault-authority-of-other-bank", "fee-state-copy"];
impl VOp {
    pub fn name(&self) -> &'static str {
        match self {
            VOp::VDeposit { .. } => "vdeposit",
            VOp::VWithdraw { all: true, .. } => "vwithdraw_all",
            VOp::VWithdraw { .. } => "vwithdraw",
            VOp::Borrow { .. } => "borrow",
            VOp::Repay { .. } => "repay",
            VOp::OrdDeposit { .. } => "ord_deposit",
            VOp::AccrueVenue { .. } => "accrue_venue",
            VOp::VenueLoss { .. } => "venue_loss",
            VOp::Subst { .. } => "subst",
            VOp::Wait { .. } => "wait",
            VOp::RefreshVenue { .. } => "refresh_venue",
            VOp::Price { .. } => "price",
            VOp::BankState { .. } => "bank_state",
            VOp::Killed { .. } => "killed",
            VOp::GlobalPause { .. } => "global_pause",
            VOp::Limit { .. } => "limit",
            VOp::Liquidate { .. } => "liquidate",
            VOp::Bracket { .. } => "bracket",
            VOp::Freeze { .. } => "freeze",
            VOp::Distress { .. } => "distress",
            VOp::Disable { .. } => "disable",
            VOp::Bankrupt { .. } => "bankrupt",
            VOp::Harvest { .. } => "harvest",
        }
    }
}

#[derive(Clone, Debug, Serialize, Deserialize, PartialEq)]
pub struct VCase {
    pub ord: Vec<OrdSpec>,
    pub venues: Vec<VSpec>,
    /// millionths
    pub liq_max_fee: u32,
    /// venue math: false = the conversions of the mocks crates (I80F48), true = exact floor arithmetic
    /// (Kamino: per-market flag of the fake; Solend: the fake's process-wide `MathMode::Wad`)
    pub exact: bool,
    pub ops: Vec<VOp>,
    /// a second ("foreign") group exists - creating a group is permissionless - with one venue bank of every venue kind
    /// the home group uses (own mint, own vaults, own venue accounts, all consistent with each other): the substitution
    /// probes (`VOp::Subst`) use its banks as substitutes
    #[serde(default)]
    pub foreign: bool,
}

// ------------------------------------------------------------------------------------------
// strategies
// ------------------------------------------------------------------------------------------
fn feed_strategy(allow_fixed: bool) -> impl Strategy<Value = FeedSpec> {
    (
        if allow_fixed { (0u8..3).boxed() } else { (1u8..3).boxed() },
        prop_oneof![3 => 100_000i64..5_000_000, 2 => 5_000_000i64..300_000_000, 1 => 20_000i64..100_000],
        prop_oneof![4 => Just(-6i32), 2 => Just(-8i32), 1 => Just(-5i32)],
        prop_oneof![2 => Just(0u16), 3 => 1u16..100, 2 => 100u16..300],
        prop_oneof![2 => Just(1000u16), 3 => 950u16..1050],
    )
        .prop_map(|(kind, mant, expo, conf_bps, ema_pm)| FeedSpec { kind, mant, expo, conf_bps, ema_pm })
}

fn decimals_strategy() -> impl Strategy<Value = u8> {
    prop_oneof![4 => Just(6u8), 3 => Just(9u8), 1 => Just(8u8)]
}
/// venue mints: the usual 6 / 8 / 9 plus a labelled minority of unusual decimals (0-5, 7, 10-12). For Drift banks a mint
/// with more than 9 decimals means one booked (9-decimal scaled) unit is worth 10^(d-9) native units, i.e. the region in
/// which whole-unit rounding of the conversion is coarser than the token itself and the deposit limit must be scaled DOWN.
fn venue_decimals_strategy() -> impl Strategy<Value = u8> {
    prop_oneof![8 => Just(6u8), 6 => Just(9u8), 2 => Just(8u8), 1 => 0u8..=5, 1 => Just(7u8), 3 => 10u8..=12]
}

fn ord_strategy() -> impl Strategy<Value = OrdSpec> {
    (decimals_strategy(), 0u8..2, feed_strategy(true), 0u32..=1_000_000, 0u32..=400_000, 0u32..500_000, 0u32..500_000, prop_oneof![3 => Just(vec![]), 2 => prop::collection::vec((1u16..4, 0u32..=1_000_000, 0u32..=1_000_000), 1..3)]).prop_map(|(decimals, token, feed, aw_i, gap, lx, lgap, emode)| {
        let lw_m = 1_000_000 + lx;
        OrdSpec { decimals, token, feed, aw_i, aw_m: aw_i + gap, lw_i: lw_m + lgap, lw_m, emode }
    })
}

fn venue_strategy() -> impl Strategy<Value = VSpec> {
    (
        (0u8..3, venue_decimals_strategy(), 0u8..2, feed_strategy(false)),
        (prop_oneof![1 => Just(0u32), 5 => 0u32..=600_000], 7u8..=15, any::<u32>()),
        (prop_oneof![1 => Just(0u32), 6 => 100_000u32..=1_000_000], 0u32..=400_000),
        // deposit limit: none / whole tokens / tight native amounts
        prop_oneof![5 => Just((0u8, 0u64)), 3 => (Just(1u8), 1u64..2_000_000), 2 => (Just(2u8), 1u64..100_000)],
        prop_oneof![6 => Just(0u32), 1 => 1u32..1000, 2 => 1000u32..=1_000_000],
        (prop_oneof![2 => Just(0u16), 3 => 1u16..4], prop_oneof![4 => Just(0u64), 1 => 1u64..50, 2 => 50u64..50_000]),
    )
        .prop_map(|((kind, decimals, token, feed), (rate_ppm, scale_exp, ragged), (aw_i, gap), (lk, lx), haircut_ppm, (emode_tag, init_limit))| {
            let limit = match lk {
                0 => u64::MAX,
                1 => lx.saturating_mul(10u64.pow(decimals as u32)),
                _ => lx,
            };
            VSpec { kind, decimals, token, feed, rate_ppm, scale_exp, ragged, aw_i, aw_m: aw_i + gap, limit, haircut_ppm, emode_tag, init_limit }
        })
}

fn abs_amount() -> impl Strategy<Value = u64> {
    prop_oneof![
        2 => 0u64..=3,
        3 => 1u64..1000,
        6 => 1000u64..10_000_000,
        8 => 10_000_000u64..1_000_000_000_000,
        1 => 1_000_000_000_000u64..(1u64 << 52),
        1 => Just(u64::MAX),
    ]
}
/// (amount, rel): rel 0 = absolute, 1 = amt / 65536 of the op's reference quantity, 2 = reference quantity + (amt % 7) - 3
fn amt_rel() -> impl Strategy<Value = (u64, u8)> {
    prop_oneof![
        4 => abs_amount().prop_map(|a| (a, 0u8)),
        6 => (0u64..=65_536).prop_map(|a| (a, 1u8)),
        3 => (0u64..7).prop_map(|a| (a, 2u8)),
    ]
}
fn signer_strategy(hostile: u32) -> impl Strategy<Value = u8> {
    prop_oneof![20 => Just(0u8), hostile => Just(1u8), hostile => Just(2u8), hostile => Just(3u8), hostile => Just(4u8)]
}

/// op weights; `fam` favours the ops its clauses need. `level` (development aid, env MFV_VC_LEVEL): 0 = the minimal op
/// set, 9 = everything.
pub fn op_strategy(fam: &'static str, level: u8) -> BoxedStrategy<VOp> {
    let i = || any::<u16>();
    let w = |base: u32, boost_for: &[&str], min_level: u8| -> u32 {
        if level < min_level {
            0
        } else if boost_for.contains(&fam) {
            base * 3
        } else {
            base
        }
    };
    let hostile = if fam == "c08" { 6 } else { 1 };
    let refresh = || prop::bool::weighted(if fam == "c09" { 0.6 } else { 0.85 });
    let mut v: Vec<(u32, BoxedStrategy<VOp>)> = vec![
        (22, (i(), i(), amt_rel(), refresh(), signer_strategy(hostile)).prop_map(|(u, vb, (amt, rel), refresh, signer)| VOp::VDeposit { u, vb, amt, rel, refresh, signer }).boxed()),
        (
            w(16, &["c03", "c04"], 0),
            (i(), i(), amt_rel(), prop::bool::weighted(0.2), refresh(), signer_strategy(hostile), 0u8..2).prop_map(|(u, vb, (amt, rel), all, refresh, signer, dest)| VOp::VWithdraw { u, vb, amt, rel, all, refresh, signer, dest }).boxed(),
        ),
        (w(12, &["c04", "c09", "c10"], 0), (i(), amt_rel(), refresh()).prop_map(|(u, (amt, rel), refresh)| VOp::Borrow { u, amt, rel, refresh }).boxed()),
        (w(6, &[], 0), prop_oneof![2 => Just(0u32), 2 => 1u32..3, 3 => 3u32..100, 2 => 100u32..2000, 1 => 1790u32..1810, 1 => 2000u32..90_000].prop_map(|secs| VOp::Wait { secs }).boxed()),
        (w(5, &[], 0), (i(), any::<bool>()).prop_map(|(vb, direct)| VOp::RefreshVenue { vb, direct }).boxed()),
        (w(4, &["c03"], 0), (i(), prop_oneof![1 => Just(0u32), 3 => 1u32..1000, 3 => 1000u32..100_000, 1 => 100_000u32..400_000]).prop_map(|(vb, ppm)| VOp::AccrueVenue { vb, ppm }).boxed()),
        (w(4, &["c04"], 0), (i(), prop_oneof![3 => 500u16..1000, 1 => Just(1000u16), 3 => 1000u16..2000, 1 => 10u16..500], prop_oneof![2 => Just(0u16), 3 => 1u16..100, 2 => 100u16..300]).prop_map(|(b, num, conf_bps)| VOp::Price { b, num, conf_bps }).boxed()),
    ];
    v.push((w(2, &["c03", "c04"], 1), (i(), prop_oneof![2 => 1u32..1000, 3 => 1000u32..100_000, 3 => 100_000u32..=1_000_000]).prop_map(|(vb, ppm)| VOp::VenueLoss { vb, ppm }).boxed()));
    v.push((w(2, &["c08"], 4), (i(), i(), any::<bool>(), 1u64..1_000_000).prop_map(|(u, vb, withdraw, amt)| VOp::Subst { u, vb, withdraw, amt }).boxed()));
    v.push((w(4, &[], 1), (i(), amt_rel(), prop::bool::weighted(0.3), refresh()).prop_map(|(u, (amt, rel), all, refresh)| VOp::Repay { u, amt, rel, all, refresh }).boxed()));
    v.push((w(3, &[], 1), (i(), i(), abs_amount()).prop_map(|(u, b, amt)| VOp::OrdDeposit { u, b, amt }).boxed()));
    v.push((w(3, &["c17"], 2), (i(), amt_rel()).prop_map(|(vb, (amt, rel))| VOp::Limit { vb, amt, rel }).boxed()));
    v.push((w(3, &["c14"], 3), (i(), prop_oneof![2 => Just(0u8), 2 => Just(1u8), 2 => Just(2u8)]).prop_map(|(vb, state)| VOp::BankState { vb, state }).boxed()));
    v.push((w(1, &["c14"], 3), i().prop_map(|vb| VOp::Killed { vb }).boxed()));
    v.push((w(2, &["c14"], 3), (any::<bool>(), any::<bool>()).prop_map(|(on, propagate)| VOp::GlobalPause { on, propagate }).boxed()));
    v.push((w(2, &["c08"], 4), (i(), prop::bool::weighted(0.7)).prop_map(|(u, on)| VOp::Freeze { u, on }).boxed()));
    v.push((w(4, &["c10", "c09"], 5), (i(), prop_oneof![3 => 1i16..40, 2 => 40i16..300, 2 => -30i16..0]).prop_map(|(le, depth)| VOp::Distress { le, depth }).boxed()));
    v.push((w(3, &["c09", "c14"], 5), (i(), i(), amt_rel(), refresh()).prop_map(|(le, vb, (amt, rel), refresh)| VOp::Liquidate { le, vb, amt, rel, refresh }).boxed()));
    v.push((
        w(5, &["c10", "c09"], 6),
        (i(), i(), prop_oneof![2 => 900u16..1000, 4 => 1000u16..1050, 3 => 1050u16..1200, 1 => 1200u16..3000], 1u16..=65_535, refresh()).prop_map(|(le, vb, prem_pm, rfrac, refresh)| VOp::Bracket { le, vb, prem_pm, rfrac, refresh }).boxed(),
    ));
    v.push((w(1, &["c16"], 7), i().prop_map(|u| VOp::Disable { u }).boxed()));
    v.push((w(1, &["c09", "c16"], 7), (i(), refresh(), prop::bool::weighted(0.7)).prop_map(|(u, refresh, crash)| VOp::Bankrupt { u, refresh, crash }).boxed()));
    // harvest: (dest, variant) mostly one hostile element at a time; the legitimate form is the positive control
    let shape = prop_oneof![9 => Just((0u8, 0u8)), 5 => (1u8..=3).prop_map(|d| (d, 0u8)), 7 => (1u8..=7).prop_map(|x| (0u8, x)), 1 => (1u8..=3, 1u8..=7)];
    let pending = prop_oneof![1 => Just(0u64), 1 => Just(1u64), 3 => 1u64..1000, 6 => 1000u64..10_000_000, 6 => 10_000_000u64..1_000_000_000_000, 1 => 1_000_000_000_000u64..(1u64 << 50)];
    v.push((w(3, &["c08", "c03"], 4), (i(), 0u8..3, shape, pending, any::<u8>()).prop_map(|(vb, signer, (dest, variant), amount, flavour)| VOp::Harvest { vb, signer, dest, variant, amount, flavour }).boxed()));
    let v: Vec<(u32, BoxedStrategy<VOp>)> = v.into_iter().filter(|x| x.0 > 0).collect();
    proptest::strategy::Union::new_weighted(v).boxed()
}

/// a constructed opening (construction over rejection): user 0 deposits into a venue bank and borrows a generated
/// fraction of the reference borrowing power; for the liquidation families the account is then steered to a generated
/// maintenance health and a bracket / classic liquidation follows
fn head_strategy(fam: &'static str, level: u8) -> BoxedStrategy<Vec<VOp>> {
    let p_head = match fam {
        "c10" | "c09" => 0.75,
        "c04" | "c14" => 0.4,
        _ => 0.25,
    };
    let base = (any::<u16>(), 20_000u64..=65_536, 26_000u64..=51_000, any::<bool>()).prop_map(|(vb, dep, bor, second)| {
        let mut v = vec![VOp::VDeposit { u: 0, vb: vb & !3, amt: dep, rel: 1, refresh: true, signer: 0 }];
        if second {
            v.push(VOp::VDeposit { u: 0, vb: (vb ^ 0x5554) & !3, amt: dep / 2, rel: 1, refresh: true, signer: 0 });
        }
        v.push(VOp::Borrow { u: 0, amt: bor, rel: 1, refresh: true });
        v
    });
    let liq = matches!(fam, "c10" | "c09") && level >= 6;
    let tail = (prop_oneof![4 => 1i16..40, 2 => 40i16..200, 2 => -30i16..0], any::<u16>(), prop_oneof![2 => 900u16..1000, 4 => 1000u16..1050, 3 => 1050u16..1200], 1u16..=65_535, prop::bool::weighted(if fam == "c09" { 0.5 } else { 0.9 }), any::<bool>()).prop_map(move |(depth, vb, prem_pm, rfrac, refresh, classic)| {
        if !liq {
            return vec![];
        }
        let mut v = vec![VOp::Distress { le: 0, depth }];
        if classic {
            v.push(VOp::Liquidate { le: 0, vb, amt: (rfrac as u64) / 4, rel: 1, refresh });
        }
        v.push(VOp::Bracket { le: 0, vb, prem_pm, rfrac, refresh });
        v
    });
    (prop::bool::weighted(p_head), base, tail)
        .prop_map(|(on, mut b, t)| {
            if !on {
                return vec![];
            }
            b.extend(t);
            b
        })
        .boxed()
}

pub fn case_strategy(fam: &'static str, exact: bool, level: u8) -> impl Strategy<Value = VCase> {
    let n_venues = if fam == "c16" { prop_oneof![5 => 1usize..=3, 3 => 9usize..=10].boxed() } else { prop_oneof![9 => 1usize..=3, 1 => 9usize..=10].boxed() };
    (
        prop::collection::vec(ord_strategy(), 1..=2),
        n_venues.prop_flat_map(|n| prop::collection::vec(venue_strategy(), n)),
        prop_oneof![Just(25_000u32), Just(50_000u32), Just(80_000u32)],
        head_strategy(fam, level),
        prop::collection::vec(op_strategy(fam, level), 8..=40),
        prop::bool::weighted(if fam == "c08" { 0.6 } else { 0.15 }),
    )
        .prop_map(move |(ord, venues, liq_max_fee, head, ops, foreign)| {
            let mut all = head;
            all.extend(ops);
            all.truncate(40);
            let foreign = foreign && venues.len() <= 3 && level >= 4;
            VCase { ord, venues, liq_max_fee, exact, ops: all, foreign }
        })
}

// ------------------------------------------------------------------------------------------
// runner
// ------------------------------------------------------------------------------------------
#[derive(Clone, Debug)]
pub struct Finding {
    pub fam: &'static str,
    pub clause: String,
    pub msg: String,
}

#[derive(Default, Debug)]
pub struct Stats {
    pub labels: BTreeMap<String, u64>,
    /// clause evaluations per family
    pub evals: BTreeMap<&'static str, u64>,
    pub samples: Vec<Value>,
    pub built: bool,
    pub witnesses: Vec<String>,
    /// committed harvest transactions (reported separately so that the evidence always shows some)
    pub harvest_samples: Vec<Value>,
}
impl Stats {
    fn label(&mut self, l: &str) {
        *self.labels.entry(l.to_string()).or_insert(0) += 1;
    }
    fn eval(&mut self, fam: &'static str) {
        *self.evals.entry(fam).or_insert(0) += 1;
    }
    fn witness(&mut self, w: &str) {
        if !self.witnesses.iter().any(|x| x == w) {
            self.witnesses.push(w.to_string());
        }
    }
}

#[derive(Clone, Debug, PartialEq)]
struct SlotS {
    bank: Pubkey,
    active: bool,
    a: i128,
    l: i128,
    tag: u8,
}
#[derive(Clone, Debug)]
struct AcctS {
    flags: u64,
    slots: Vec<SlotS>,
}
#[derive(Clone, Debug)]
struct BankS {
    total_a: i128,
    total_l: i128,
    backing: u128,
}
#[derive(Clone, Debug)]
struct Snap {
    banks: Vec<BankS>,
    accts: Vec<(Pubkey, AcctS)>,
}

pub struct Runner {
    pub w: World,
    /// bank indices of the venue banks and their kinds (0 drift, 1 kamino, 2 solend), by bank index
    pub venues: Vec<usize>,
    pub kind: Vec<Option<u8>>,
    pub n_ord: usize,
    /// current marginfi account of each user (0..3 actors, 3 liquidator, 4 lender)
    pub acct: Vec<Pubkey>,
    pub all_accts: Vec<Pubkey>,
    pub stranger_tok: Vec<Pubkey>,
    pub admin_tok: Vec<Pubkey>,
    /// base oracle mantissa per bank (Price scales this, so prices do not drift to zero)
    pub base_mant: Vec<i64>,
    pub feeds: Vec<FeedSpec>,
    /// tracked operational state per bank: 0 paused, 1 operational, 2 reduce-only, 3 killed
    pub state: Vec<u8>,
    /// tracked protocol pause: when the global pause started, and the start time the GROUP learned (None = it knows of no pause)
    pub pause_start: Option<i64>,
    pub group_knows: Option<i64>,
    pub step: usize,
    pub findings: Vec<Finding>,
    /// banks of the home group (ordinary + venue); bank indices >= n_home belong to the foreign group
    pub n_home: usize,
    /// bank indices of the foreign group's venue banks
    pub foreign: Vec<usize>,
    snap: Snap,
}

const N_ACTORS: usize = 3;
const LQ: usize = 3;
const LENDER: usize = 4;
const PAUSE_SECS: i64 = 30 * 60;

fn ord_bank_spec(o: &OrdSpec) -> BankSpec {
    let mut b = BankSpec::default();
    b.decimals = o.decimals;
    b.token = o.token;
    b.aw_i = o.aw_i;
    b.aw_m = o.aw_m;
    b.lw_i = o.lw_i;
    b.lw_m = o.lw_m;
    b.oracle = o.feed.oracle(o.feed.mant, o.feed.conf_bps);
    // e-mode entries valid against this bank's liability weights and the default group caps (as in c04.rs)
    let cap_i = (o.lw_i as u64 * 14 / 15).min(o.lw_m as u64 * 19 / 20) as u32;
    let cap_m = (o.lw_m as u64 * 19 / 20) as u32;
    let mut seen: Vec<u16> = vec![];
    for (tag, fi, fm) in &o.emode {
        if seen.contains(tag) {
            continue;
        }
        seen.push(*tag);
        let init = ((cap_i as u64 * *fi as u64) / 1_000_000) as u32;
        let maint = init.max(((cap_m as u64 * *fm as u64) / 1_000_000) as u32).min(cap_m.saturating_sub(1));
        let init = init.min(maint);
        b.emode_entries.push(EmodeEntrySpec { tag: *tag, flags: 0, init, maint });
    }
    b.emode_entries.sort_by_key(|e| e.tag);
    b
}
fn venue_bank_spec(v: &VSpec) -> BankSpec {
    let mut b = BankSpec::default();
    b.decimals = v.decimals;
    b.token = v.token;
    b.aw_i = v.aw_i;
    b.aw_m = v.aw_m;
    b.deposit_limit = v.limit;
    b.oracle = v.feed.oracle(v.feed.mant, v.feed.conf_bps);
    b.emode_tag = v.emode_tag;
    b.init_limit = v.init_limit;
    b
}

fn pos_of(a: &marginfi_type_crate::types::MarginfiAccount, bank: &Pubkey) -> (i128, i128, bool) {
    for b in a.lending_account.balances.iter() {
        if b.active != 0 && b.bank_pk == *bank {
            return (crate::snap::bits(b.asset_shares), crate::snap::bits(b.liability_shares), true);
        }
    }
    (0, 0, false)
}

impl Runner {
    pub fn build(case: &VCase) -> Result<Runner, String> {
        vs::set_math_mode(if case.exact { vs::MathMode::Wad } else { vs::MathMode::Mocks });
        vd::set_follow_mocks(!case.exact);
        let mut spec = WorldSpec::default();
        spec.banks = case.ord.iter().map(ord_bank_spec).collect();
        spec.n_users = 5;
        spec.user_tokens = 1u64 << 50;
        spec.liq_max_fee = case.liq_max_fee;
        let mut w = World::build(&spec)?;
        let n_ord = case.ord.len();
        let mut kind: Vec<Option<u8>> = vec![None; n_ord];
        let mut venues = vec![];
        for v in &case.venues {
            let bi = Self::add_venue_bank(&mut w, v, case.exact)?;
            while kind.len() < bi {
                kind.push(None);
            }
            kind.push(Some(v.kind));
            venues.push(bi);
        }
        let n_home = w.banks.len();
        let mut foreign = vec![];
        if case.foreign {
            // the foreign group: same admin key (any key may create a group and is then its admin), one bank per venue kind
            let home = w.group;
            let g2 = kp("vc_foreign_group", 0);
            let ix = mfi_ix(
                anchor_lang::ToAccountMetas::to_account_metas(&marginfi::accounts::MarginfiGroupInitialize { marginfi_group: g2, admin: w.roles.admin, fee_state: w.fee_state, system_program: solana_program::system_program::ID }, Some(true)),
                anchor_lang::InstructionData::data(&marginfi::instruction::MarginfiGroupInitialize {}),
            );
            w.vm.exec(&ix).map_err(|e| format!("foreign group init: {e:?}"))?;
            w.group = g2;
            let mut seen = [false; 3];
            let mut r: Result<(), String> = Ok(());
            for v in &case.venues {
                if seen[v.kind as usize % 3] {
                    continue;
                }
                seen[v.kind as usize % 3] = true;
                match Self::add_venue_bank(&mut w, v, case.exact) {
                    Ok(bi) => {
                        while kind.len() < bi {
                            kind.push(None);
                        }
                        kind.push(Some(v.kind));
                        foreign.push(bi);
                    }
                    Err(e) => {
                        r = Err(format!("foreign bank: {e}"));
                        break;
                    }
                }
            }
            w.group = home;
            r?;
        }
        let nb = w.banks.len();
        let mut stranger_tok = vec![];
        let mut admin_tok = vec![];
        for bi in 0..nb {
            let info = w.banks[bi].clone();
            let k = kp("vc_stranger_ta", bi as u64);
            let a = w.make_token_acct(&info, w.roles.stranger, 1u64 << 48);
            w.vm.set(k, a);
            stranger_tok.push(k);
            let k = kp("vc_admin_ta", bi as u64);
            let a = w.make_token_acct(&info, w.roles.admin, 1u64 << 48);
            w.vm.set(k, a);
            admin_tok.push(k);
        }
        // the lender funds bank 0; the liquidator holds collateral there too (classic liquidation needs its health)
        let lender = w.users[LENDER].clone();
        let ix = w.ix_deposit(lender.accts[0], lender.auth, 0, lender.tokens[0], 1u64 << 49, None);
        w.vm.exec(&ix).map_err(|e| format!("lender deposit: {e:?}"))?;
        let lq = w.users[LQ].clone();
        let ix = w.ix_deposit(lq.accts[0], lq.auth, 0, lq.tokens[0], 1u64 << 47, None);
        w.vm.exec(&ix).map_err(|e| format!("liquidator deposit: {e:?}"))?;
        let acct: Vec<Pubkey> = w.users.iter().map(|u| u.accts[0]).collect();
        let mut base_mant = vec![];
        let mut feeds = vec![];
        for o in &case.ord {
            base_mant.push(o.feed.mant);
            feeds.push(o.feed.clone());
        }
        for v in &case.venues {
            base_mant.push(v.feed.mant);
            feeds.push(v.feed.clone());
        }
        let mut r = Runner {
            w,
            venues,
            kind,
            n_ord,
            all_accts: acct.clone(),
            acct,
            stranger_tok,
            admin_tok,
            base_mant,
            feeds,
            state: vec![1; nb],
            pause_start: None,
            group_knows: None,
            step: 0,
            findings: vec![],
            n_home,
            foreign,
            snap: Snap { banks: vec![], accts: vec![] },
        };
        r.snap = r.take_snap();
        Ok(r)
    }

    /// one venue bank of the CURRENT `w.group` from its spec (real `lending_pool_add_bank_<venue>` + `<venue>_init_*`)
    fn add_venue_bank(w: &mut World, v: &VSpec, exact: bool) -> Result<usize, String> {
            let bs = venue_bank_spec(v);
            let c0: u64 = 10u64.pow(v.scale_exp as u32) + (v.ragged % 1_000_003) as u64;
            let l_total: u128 = c0 as u128 * (1_000_000 + v.rate_ppm as u128) / 1_000_000 + (v.ragged % 977) as u128;
            let avail = (l_total * 3 / 5) as u64;
            let borrowed = (l_total - avail as u128) as u64;
            let init_amount = 10 + (v.ragged % 991) as u64;
            let bi = match v.kind {
                1 => {
                    let vsp = vk::VenueSpec { other_available: avail, other_borrowed: borrowed, other_collateral: c0, init_amount, lenient_refresh: false, exact_math: exact };
                    let bi = vk::add_bank_with(w, &bs, &vsp)?;
                    // ragged fractional bits in borrowed_amount_sf
                    let vb = vk::venue_bank(w, bi);
                    vk::accrue(&mut w.vm, &vb, (v.ragged % 1009) as u64);
                    bi
                }
                2 => {
                    let seed = vs::ReserveSeed {
                        available: avail,
                        borrowed_wads: borrowed as u128 * vs::WAD + (v.ragged as u128 * 1_000_003) % vs::WAD,
                        fees_wads: (v.ragged % 1013) as u128 * vs::WAD / 7,
                        ctoken_supply: c0,
                        init_amount,
                    };
                    vs::add_bank_with(w, &bs, &seed)?
                }
                _ => {
                    let ci = vd::CUM_INTEREST_ONE * (1_000_000 + v.rate_ppm as u128) / 1_000_000 + (v.ragged % 1_000_003) as u128;
                    let opts = vd::DriftOpts { cumulative_deposit_interest: ci, init_amount, ..Default::default() };
                    vd::add_bank_ext(w, &bs, &opts)?
                }
            };
            if v.haircut_ppm > 0 {
                match v.kind {
                    1 => {
                        let vb = vk::venue_bank(w, bi);
                        vk::loss(&mut w.vm, &vb, v.haircut_ppm as u64)
                    }
                    2 => {
                        let vb = vs::venue(w, bi);
                        vs::loss(&mut w.vm, &vb, v.haircut_ppm as u64)
                    }
                    _ => {
                        let vb = vd::venue(w, bi);
                        vd::loss(&mut w.vm, &vb, v.haircut_ppm as u64)
                    }
                }
            }
            Ok(bi)
    }

    fn kind_name(&self, bi: usize) -> &'static str {
        KINDS[self.kind[bi].unwrap_or(0) as usize]
    }

    // ---------------- venue dispatch ----------------
    fn ix_vdeposit(&self, bi: usize, acct: &Pubkey, signer: Pubkey, src: Pubkey, amount: u64) -> Instruction {
        match self.kind[bi] {
            Some(1) => vk::ix_deposit_with(&self.w, acct, signer, src, bi, amount),
            Some(2) => vs::ix_deposit_from(&self.w, acct, bi, amount, signer, src),
            _ => vd::ix_deposit_with(&self.w, acct, bi, amount, signer, src),
        }
    }
    fn ix_vwithdraw(&self, bi: usize, acct: &Pubkey, amount: u64, all: bool, signer: Pubkey, dest: Pubkey, risk: Vec<AccountMeta>) -> Instruction {
        match self.kind[bi] {
            Some(1) => vk::ix_withdraw_with(&self.w, acct, bi, amount, all, signer, dest, risk),
            Some(2) => vs::ix_withdraw_with(&self.w, acct, bi, amount, all, signer, dest, risk),
            _ => vd::ix_withdraw_with(&self.w, acct, bi, amount, all, signer, dest, risk),
        }
    }
    fn refresh_ixs_of(w: &World, kind: u8, bi: usize) -> Vec<Instruction> {
        match kind {
            1 => vk::refresh_ixs(w, bi),
            2 => vs::refresh_ixs(w, bi),
            _ => vd::refresh_ixs(w, bi),
        }
    }
    fn refresh_ixs(&self, bi: usize) -> Vec<Instruction> {
        Self::refresh_ixs_of(&self.w, self.kind[bi].unwrap(), bi)
    }
    fn refresh_direct_on(w: &mut World, kind: u8, bi: usize) {
        match kind {
            1 => vk::refresh_direct(w, bi),
            2 => vs::refresh_direct(w, bi),
            _ => vd::refresh_direct(w, bi),
        }
    }
    /// venue bank indices in which `acct` has an active balance
    fn venues_held(&self, vm: &Vm, acct: &Pubkey) -> Vec<usize> {
        let Some(a) = read_macct(vm, acct) else { return vec![] };
        self.venues.iter().copied().filter(|bi| a.lending_account.balances.iter().any(|b| b.active != 0 && b.bank_pk == self.w.banks[*bi].key)).collect()
    }
    /// refresh instructions of every venue bank held by the accounts (+ `extra`), deduplicated
    fn refresh_for(&self, accts: &[Pubkey], extra: Option<usize>) -> Vec<Instruction> {
        let mut set: Vec<usize> = vec![];
        for a in accts {
            for bi in self.venues_held(&self.w.vm, a) {
                if !set.contains(&bi) {
                    set.push(bi);
                }
            }
        }
        if let Some(bi) = extra {
            if self.kind[bi].is_some() && !set.contains(&bi) {
                set.push(bi);
            }
        }
        set.sort();
        set.into_iter().flat_map(|bi| self.refresh_ixs(bi)).collect()
    }
    /// the reference's reading of venue staleness and exact rate (tokens of the underlying per booked share)
    fn venue_stale(&self, vm: &Vm, bi: usize) -> bool {
        let b = read_bank(vm, &self.w.banks[bi].key);
        matches!(venue_rate(vm, &b, vm.now()), Err("venue-stale"))
    }
    /// exact native tokens per booked share, and the derived allowance factors of the program's / mocks' own
    /// fixed-point rate: (rate, rel_up, rel_down) with rho_hi = rate (1 + rel_up), rho_lo = rate (1 - rel_down)
    fn share_rate(&self, vm: &Vm, bi: usize) -> (Q, Q, Q) {
        let info = &self.w.banks[bi];
        match self.kind[bi] {
            Some(1) | Some(2) => {
                let (n, d) = if self.kind[bi] == Some(1) { vk::exact_rate(vm, info) } else { vs::exact_rate(vm, info) };
                let rate = Q::new(n, d);
                // the enclosure of the I80F48 ratio, freshness ignored (clock-independent): evaluate at the venue's own stamp
                let b = read_bank(vm, &info.key);
                match venue_rate_at(vm, &b, 0, 0) {
                    Ok(vr) if vr.rate.is_positive() => {
                        let mut up = (&vr.rho_hi - &vr.rate) / &vr.rate;
                        let down = (&vr.rate - &vr.rho_lo) / &vr.rate;
                        if self.kind[bi] == Some(2) {
                            // Solend's own exchange rate is an 18-decimal fixed-point number, collateral per liquidity,
                            // rounded DOWN (Rate = floor(S / L * 10^18)); a redemption pays floor(c / Rate), i.e. up to
                            // c * rate * (10^-18 rate) / (1 - 10^-18 rate) above c * rate: two units of that resolution
                            up += q_int(2) * q_max(vr.rate.clone(), q_one()) / pow10(18);
                        }
                        (rate, up, down)
                    }
                    _ => (rate, q_zero(), q_zero()),
                }
            }
            _ => {
                let (n, d) = vd::exact_rate(vm, info);
                (Q::new(n, d), q_zero(), q_zero())
            }
        }
    }
    /// collateral units the venue holds for the bank (Kamino / Solend: the obligation's deposit; Drift: the scaled balance)
    fn backing(&self, bi: usize) -> u128 {
        match self.kind[bi] {
            Some(1) => vk::obligation_collateral(&self.w, bi) as u128,
            Some(2) => {
                let v = vs::venue(&self.w, bi);
                vs::obligation_deposit(&self.w.vm, &v.obligation, &v.reserve) as u128
            }
            _ => {
                let v = vd::venue(&self.w, bi);
                vd::venue_state(&self.w.vm, &v).position_scaled_balance as u128
            }
        }
    }
    /// the venue's own token vault of the bank's mint
    fn venue_vault(&self, bi: usize) -> Pubkey {
        match self.kind[bi] {
            Some(1) => vk::venue_bank(&self.w, bi).liquidity_supply,
            Some(2) => vs::venue(&self.w, bi).liquidity_supply,
            _ => vd::venue(&self.w, bi).vault,
        }
    }
    fn accrue_venue(&mut self, bi: usize, ppm: u64) {
        match self.kind[bi] {
            Some(1) => {
                let v = vk::venue_bank(&self.w, bi);
                vk::accrue(&mut self.w.vm, &v, ppm)
            }
            Some(2) => {
                let v = vs::venue(&self.w, bi);
                vs::accrue(&mut self.w.vm, &v, ppm)
            }
            _ => {
                let v = vd::venue(&self.w, bi);
                vd::accrue(&mut self.w.vm, &v, ppm);
            }
        }
    }
    fn loss_venue(&mut self, bi: usize, ppm: u64) {
        match self.kind[bi] {
            Some(1) => {
                let v = vk::venue_bank(&self.w, bi);
                vk::loss(&mut self.w.vm, &v, ppm)
            }
            Some(2) => {
                let v = vs::venue(&self.w, bi);
                vs::loss(&mut self.w.vm, &v, ppm)
            }
            _ => {
                let v = vd::venue(&self.w, bi);
                vd::loss(&mut self.w.vm, &v, ppm)
            }
        }
    }
    /// deposit limit in the unit the bank books (Drift: 9-decimal scaled units), None = unlimited
    fn eff_limit(&self, vm: &Vm, bi: usize) -> Option<Q> {
        let b = read_bank(vm, &self.w.banks[bi].key);
        if b.config.deposit_limit == u64::MAX {
            return None;
        }
        Some(if self.kind[bi] == Some(0) { q_int(b.config.deposit_limit) * pow10(9) / pow10(b.mint_decimals as u32) } else { q_int(b.config.deposit_limit) })
    }

    fn take_snap(&self) -> Snap {
        let banks = self
            .venues
            .iter()
            .map(|bi| {
                let b = self.w.bank(*bi);
                BankS { total_a: crate::snap::bits(b.total_asset_shares), total_l: crate::snap::bits(b.total_liability_shares), backing: self.backing(*bi) }
            })
            .collect();
        let accts = self
            .all_accts
            .iter()
            .filter_map(|k| {
                let a = read_macct(&self.w.vm, k)?;
                let slots = a.lending_account.balances.iter().map(|b| SlotS { bank: b.bank_pk, active: b.active != 0, a: crate::snap::bits(b.asset_shares), l: crate::snap::bits(b.liability_shares), tag: b.bank_asset_tag }).collect();
                Some((*k, AcctS { flags: a.account_flags, slots }))
            })
            .collect();
        Snap { banks, accts }
    }

    fn find(&mut self, fam: &'static str, clause: &str, msg: String) {
        self.findings.push(Finding { fam, clause: clause.to_string(), msg: format!("op#{}: {}", self.step, msg) });
    }

    fn exec(&mut self, ixs: &[Instruction]) -> (bool, Option<(usize, u64)>) {
        let o = self.w.vm.exec_tx(ixs);
        (o.ok, o.err.map(|(i, e)| (i, err_code(&e))))
    }

    /// is the protocol-wide pause in force for the group, by the tracked history (statement reading: the group was told
    /// of a pause that has not yet expired)
    fn pause_in_force(&self) -> bool {
        match self.group_knows {
            Some(s) => {
                let now = self.w.vm.now();
                now >= s && now - s < PAUSE_SECS
            }
            None => false,
        }
    }
    fn pause_expired_unpropagated(&self) -> bool {
        match self.group_knows {
            Some(s) => self.w.vm.now() - s >= PAUSE_SECS,
            None => false,
        }
    }
}

// ------------------------------------------------------------------------------------------
// monitors evaluated after every committed transaction
// ------------------------------------------------------------------------------------------
const DUST_BITS: i128 = (1i128 << 48) / 10_000; // 0.0001 units

impl Runner {
    /// C02 ledger, C03 venue backing, C16 structure: compare the snapshot before the transaction with the store now.
    /// `what` describes the transaction for messages. Replaces the stored snapshot.
    fn after_commit(&mut self, what: &str, st: &mut Stats) {
        let pre = self.snap.clone();
        let post = self.take_snap();
        // ---- C02: per venue bank, d(total asset shares) == sum over all accounts d(asset shares), bit-exactly
        for (vi, bi) in self.venues.clone().iter().enumerate() {
            let key = self.w.banks[*bi].key;
            let sum = |s: &Snap| -> (i128, i128) {
                let mut a = 0i128;
                let mut l = 0i128;
                for (_, acc) in &s.accts {
                    for sl in &acc.slots {
                        if sl.active && sl.bank == key {
                            a += sl.a;
                            l += sl.l;
                        }
                    }
                }
                (a, l)
            };
            let (a0, _) = sum(&pre);
            let (a1, l1) = sum(&post);
            let d_total = post.banks[vi].total_a - pre.banks[vi].total_a;
            let d_pos = a1 - a0;
            st.eval("c02");
            if d_total != d_pos {
                // a closure may abandon < 0.0001 units: the total then stays ABOVE the sum by that dust
                let closed = pre.accts.iter().any(|(k, acc)| {
                    acc.slots.iter().any(|sl| sl.active && sl.bank == key && !post.accts.iter().any(|(k2, a2)| k2 == k && a2.slots.iter().any(|s2| s2.active && s2.bank == key)))
                });
                let excess = d_total - d_pos;
                if !(closed && excess > 0 && excess < DUST_BITS) {
                    self.find("c02", &format!("delta-mismatch:{}", self.kind_name(*bi)), format!("{what}: bank #{bi} total_asset_shares moved by {d_total} bits, the positions of all accounts by {d_pos} bits"));
                } else {
                    st.label("c02:closure-dust");
                }
            }
            if post.banks[vi].total_l != 0 || l1 != 0 {
                self.find("c02", &format!("venue-liability:{}", self.kind_name(*bi)), format!("{what}: venue bank #{bi} has liability shares (total {} bits, positions {} bits)", post.banks[vi].total_l, l1));
            }
            // running form: total == sum of positions (no closure dust can arise: shares of venue banks are integers)
            if post.banks[vi].total_a < a1 {
                self.find("c02", &format!("total-below-positions:{}", self.kind_name(*bi)), format!("{what}: bank #{bi} total_asset_shares {} bits < sum of positions {} bits", post.banks[vi].total_a, a1));
            }
            // ---- C03 (backing): what the venue holds for the bank minus what the bank books never decreases
            st.eval("c03");
            let slack0 = pre.banks[vi].backing as i128 * (1i128 << 48) - pre.banks[vi].total_a;
            let slack1 = post.banks[vi].backing as i128 * (1i128 << 48) - post.banks[vi].total_a;
            if slack1 < slack0 {
                self.find(
                    "c03",
                    &format!("venue-backing:{}", self.kind_name(*bi)),
                    format!("{what}: bank #{bi} books moved by {} bits but the venue position by {} units: backing minus books fell by {} bits", d_total, post.banks[vi].backing as i128 - pre.banks[vi].backing as i128, slack0 - slack1),
                );
            }
        }
        // ---- C16: structure of every account
        for (k, acc) in &post.accts.clone() {
            st.eval("c16");
            let active: Vec<&SlotS> = acc.slots.iter().filter(|s| s.active).collect();
            let n_int = active.iter().filter(|s| matches!(s.tag, 3 | 4 | 5)).count();
            if n_int > 8 {
                self.find("c16", "integration-count", format!("{what}: account {k} holds {n_int} integration positions"));
            }
            if active.len() > 16 {
                self.find("c16", "count", format!("{what}: account {k} holds {} positions", active.len()));
            }
            // sorted as the program sorts (`sort_balances`: by bank key, descending): consecutive ACTIVE slots strictly descending
            let changed = pre.accts.iter().find(|(k2, _)| k2 == k).map(|(_, a0)| a0.slots != acc.slots).unwrap_or(true);
            if changed {
                for wnd in active.windows(2) {
                    if wnd[0].bank <= wnd[1].bank {
                        self.find("c16", "unsorted", format!("{what}: account {k} has active positions out of descending bank-key order (or a duplicate bank)"));
                        break;
                    }
                }
            }
            let staked = active.iter().any(|s| s.tag == 2);
            let default_like = active.iter().any(|s| matches!(s.tag, 0 | 3 | 4 | 5));
            if staked && default_like {
                self.find("c16", "tag-mix", format!("{what}: account {k} mixes staked and default-class positions"));
            }
            for s in &active {
                if let Some(bi) = self.w.bank_index(&s.bank) {
                    let tag = self.w.bank(bi).config.asset_tag;
                    let was_open = pre.accts.iter().find(|(k2, _)| k2 == k).map(|(_, a0)| a0.slots.iter().any(|s0| s0.active && s0.bank == s.bank)).unwrap_or(false);
                    if !was_open && s.tag != tag {
                        self.find("c16", "tag-at-open", format!("{what}: account {k} opened a position in bank #{bi} (tag {tag}) recorded with tag {}", s.tag));
                    }
                    if was_open {
                        let t0 = pre.accts.iter().find(|(k2, _)| k2 == k).and_then(|(_, a0)| a0.slots.iter().find(|s0| s0.active && s0.bank == s.bank).map(|s0| s0.tag));
                        if t0 != Some(s.tag) {
                            self.find("c16", "tag-changed", format!("{what}: account {k}: tag of the position in bank #{bi} changed from {:?} to {}", t0, s.tag));
                        }
                    }
                }
            }
            if n_int >= 8 {
                st.witness("c16:eight-integration-positions");
            }
        }
        self.snap = post;
    }

    /// reference initial health of `acct` on `vm`
    fn init_health(&self, vm: &Vm, acct: &Pubkey) -> Option<Health> {
        let a = read_macct(vm, acct)?;
        Some(health(vm, &a, Req::Initial, vm.now()))
    }
    fn maint_health(&self, vm: &Vm, acct: &Pubkey) -> Option<Health> {
        let a = read_macct(vm, acct)?;
        Some(health(vm, &a, Req::Maintenance, vm.now()))
    }

    /// C04 success side (+ the C09 reading of it): after a successful borrow / venue withdraw outside a bracket
    fn check_gate_success(&mut self, what: &str, acct: &Pubkey, st: &mut Stats) {
        let Some(h) = self.init_health(&self.w.vm, acct) else { return };
        st.eval("c04");
        let stale_venue: Vec<usize> = self.venues_held(&self.w.vm, acct).into_iter().filter(|bi| self.venue_stale(&self.w.vm, *bi)).collect();
        if !stale_venue.is_empty() {
            st.eval("c09");
            st.label("c09:success-with-stale-venue-held(counted-zero)");
        }
        match h.health() {
            None => {
                if h.n_liabs > 0 {
                    self.find("c04", "success-undefined-health", format!("{what} succeeded although a debt of the account cannot be valued by the reference"));
                }
            }
            Some(hh) => {
                if h.n_liabs > 0 {
                    st.witness("c04:success-with-debt");
                    if h.conf_active {
                        st.witness("c04:conf");
                    }
                }
                if hh.hi < q_zero() {
                    let worthless_stale = h.stale_collateral && !stale_venue.is_empty();
                    self.find(
                        "c04",
                        if worthless_stale { "success-but-unhealthy:stale-venue" } else { "success-but-unhealthy" },
                        format!("{what} succeeded; reference initial health is at most {} (assets <= {}, liabilities >= {}){}", q_str(&hh.hi), q_str(&h.assets.as_ref().unwrap().hi), q_str(&h.liabs.as_ref().unwrap().lo), if worthless_stale { "; a stale venue position counts as worthless" } else { "" }),
                    );
                    if worthless_stale {
                        self.find("c09", "stale-venue-collateral-used", format!("{what} succeeded although it is only covered if the venue collateral of bank(s) {:?}, not refreshed in the current slot / second, is counted", stale_venue));
                    }
                }
            }
        }
    }
}

// ------------------------------------------------------------------------------------------
// ops
// ------------------------------------------------------------------------------------------
struct Who {
    key: Pubkey,
    tok: Pubkey,
    clear_sig: bool,
}

fn err_risk_engine() -> u64 {
    u32::from(marginfi::errors::MarginfiError::RiskEngineInitRejected) as u64
}
fn q_to_u64_sat(x: &Q) -> u64 {
    if x.is_negative() {
        return 0;
    }
    q_floor(x).to_u64().unwrap_or(u64::MAX)
}
fn apply_rel(amt: u64, rel: u8, reference: u64) -> u64 {
    match rel {
        0 => amt,
        1 => ((reference as u128 * amt as u128) >> 16) as u64,
        _ => (reference as i128 + (amt % 7) as i128 - 3).clamp(0, u64::MAX as i128) as u64,
    }
}
/// integer part and fractional part (for messages that must show single units of 10^14-scale amounts)
fn q_exact(x: &Q) -> String {
    let f = q_floor(x);
    let frac = x - Q::from_integer(f.clone());
    format!("{}+{:.6}", f, q_f64(&frac))
}
fn state_name(s: u8) -> &'static str {
    match s {
        0 => "paused",
        2 => "reduce-only",
        3 => "killed",
        _ => "operational",
    }
}

impl Runner {
    fn who(&self, ui: usize, signer: u8, bi: usize) -> Who {
        let usr = &self.w.users[ui];
        match signer {
            1 => {
                let o = &self.w.users[(ui + 1) % N_ACTORS];
                Who { key: o.auth, tok: o.tokens[bi], clear_sig: false }
            }
            2 => Who { key: self.w.roles.stranger, tok: self.stranger_tok[bi], clear_sig: false },
            3 => Who { key: usr.auth, tok: usr.tokens[bi], clear_sig: true },
            4 => Who { key: self.w.roles.admin, tok: self.admin_tok[bi], clear_sig: false },
            _ => Who { key: usr.auth, tok: usr.tokens[bi], clear_sig: false },
        }
    }
    fn flags(&self, acct: &Pubkey) -> u64 {
        read_macct(&self.w.vm, acct).map(|a| a.account_flags).unwrap_or(0)
    }
    fn shares(&self, vm: &Vm, acct: &Pubkey, bi: usize) -> (i128, i128, bool) {
        match read_macct(vm, acct) {
            Some(a) => pos_of(&a, &self.w.banks[bi].key),
            None => (0, 0, false),
        }
    }
    fn has_debt(&self, vm: &Vm, acct: &Pubkey) -> bool {
        read_macct(vm, acct).map(|a| a.lending_account.balances.iter().any(|b| b.active != 0 && crate::snap::bits(b.liability_shares) > 0)).unwrap_or(false)
    }
    /// a copy of the world in which every venue bank held by the accounts is refreshed (what a refresh prefix achieves)
    fn refreshed_clone(&self, accts: &[Pubkey]) -> World {
        let mut c = self.w.clone();
        for a in accts {
            for bi in self.venues_held(&self.w.vm, a) {
                Self::refresh_direct_on(&mut c, self.kind[bi].unwrap(), bi);
            }
        }
        c
    }
    /// native units of bank 0 the account could still borrow by the reference (lower bound)
    fn borrow_power(&self, vm: &Vm, acct: &Pubkey) -> u64 {
        let Some(h) = self.init_health(vm, acct) else { return 0 };
        let Some(hh) = h.health() else { return 0 };
        if !hh.lo.is_positive() {
            return 0;
        }
        let b0 = read_bank(vm, &self.w.banks[0].key);
        let ov = oracle_view(vm, &b0, vm.now());
        let Some(p) = ov.high(PriceKind::Ema) else { return 0 };
        if !p.hi.is_positive() {
            return 0;
        }
        let lw = q_w(b0.config.liability_weight_init);
        q_to_u64_sat(&(hh.lo / (lw * p.hi) * pow10(b0.mint_decimals as u32)))
    }

    /// Converse of C04: `op_ix` (preceded by `prefix`) was refused with the risk engine's code. The state it would have
    /// produced is observed inside a flash-loan bracket (health checks are skipped there); if the reference initial
    /// health of that state is positive beyond the enclosure, the refusal was spurious.
    fn converse(&mut self, what: &str, prefix: Vec<Instruction>, op_ix: Instruction, acct: Pubkey, auth: Pubkey, st: &mut Stats) {
        let n = prefix.len();
        let mut ixs = prefix;
        ixs.push(self.w.ix_start_flashloan(acct, auth, (n + 2) as u64));
        ixs.push(op_ix);
        ixs.push(self.w.ix_end_flashloan(acct, auth, self.w.risk_metas(&acct, None, None)));
        let mut vm = self.w.vm.clone();
        let mut hyp: Option<Vm> = None;
        let _ = vm.exec_tx_observe(&ixs, |i, v| {
            if i == n + 1 {
                hyp = Some(v.clone());
            }
        });
        let Some(hv) = hyp else {
            st.label("c04:converse-hypothetical-unavailable");
            return;
        };
        let Some(h) = self.init_health(&hv, &acct) else { return };
        let Some(hh) = h.health() else { return };
        st.eval("c04");
        st.witness("c04:converse-checked");
        let margin = &h.ignored + q_int(64) * ulp();
        let tiers_ok = !(h.isolated_liab && h.n_liabs > 1);
        if tiers_ok && &hh.lo - &margin > q_zero() {
            self.find("c04", "spurious-rejection", format!("{what} was refused for health although the state it produces has reference initial health at least {} (assets >= {}, liabilities <= {})", q_str(&hh.lo), q_str(&h.assets.as_ref().unwrap().lo), q_str(&h.liabs.as_ref().unwrap().hi)));
        }
    }

    /// label suffix for the unusual mint decimals (the usual 6 / 8 / 9 get none)
    fn dec_class(&self, bi: usize) -> &'static str {
        match self.w.banks[bi].decimals {
            0..=5 => ":dec<6",
            7 => ":dec7",
            10.. => ":dec>9",
            _ => "",
        }
    }

    fn op_vdeposit(&mut self, u: u16, vb: u16, amt: u64, rel: u8, refresh: bool, signer: u8, st: &mut Stats) {
        // worlds with 9-10 venue banks exist for the integration-position cap: there, half of the deposits go to user 0
        // and three quarters of the deposits open the first venue bank the account does not hold yet
        let many = self.venues.len() >= 9;
        let ui = if many && u % 2 == 0 { 0 } else { idx(u, N_ACTORS) };
        let acct = self.acct[ui];
        let mut bi = self.venues[idx(vb, self.venues.len())];
        if many && vb % 4 != 0 {
            let held = self.venues_held(&self.w.vm, &acct);
            if let Some(nb) = self.venues.iter().find(|b| !held.contains(b)) {
                bi = *nb;
            }
        }
        let kn = self.kind_name(bi);
        let who = self.who(ui, signer, bi);
        let (rate, _up, down) = self.share_rate(&self.w.vm, bi);
        let unit = 10u64.pow(self.w.banks[bi].decimals as u32);
        let total0 = q_bits(self.snap.banks[self.venues.iter().position(|x| *x == bi).unwrap()].total_a);
        let lim = self.eff_limit(&self.w.vm, bi);
        let cap_tokens: Option<u64> = lim.as_ref().map(|l| q_to_u64_sat(&((q_max(q_zero(), l - &total0)) * &rate).ceil()));
        let reference = cap_tokens.unwrap_or(100_000 * unit).min(1_000_000 * unit);
        let amount = match rel {
            2 if cap_tokens.is_none() => amt % 7,
            _ => apply_rel(amt, rel, reference),
        };
        let mut ixs = if refresh { self.refresh_ixs(bi) } else { vec![] };
        let mut ix = self.ix_vdeposit(bi, &acct, who.key, who.tok, amount);
        if who.clear_sig {
            for m in ix.accounts.iter_mut() {
                if m.pubkey == who.key {
                    m.is_signer = false;
                }
            }
        }
        ixs.push(ix);
        let fl = self.flags(&acct);
        let frozen = fl & ACCOUNT_FROZEN != 0;
        let disabled = fl & ACCOUNT_DISABLED != 0;
        let tok0 = self.w.tok(&who.tok);
        let (s0, _, _) = self.shares(&self.w.vm, &acct, bi);
        let tracked = self.state[bi];
        let paused = self.pause_in_force();
        let expired = self.pause_expired_unpropagated();
        let pre_w = if expired { Some(self.w.clone()) } else { None };
        let what = format!("{kn}_deposit({amount}) into bank #{bi} signed by {}", ["the authority", "another user", "a stranger", "nobody (authority key, signature bit cleared)", "the group admin"][signer.min(4) as usize]);
        let (ok, err) = self.exec(&ixs);
        st.label(&format!("{}:vdeposit:{kn}{}", if ok { "ok" } else { "fail" }, self.dec_class(bi)));
        // ---- C08
        let unauthorized = matches!(signer, 1 | 2 | 3) || (signer == 4 && !frozen) || (signer == 0 && frozen);
        if signer != 0 || frozen {
            st.eval("c08");
            st.label(&format!("c08:deposit:signer{signer}:{}:{}", if frozen { "frozen" } else { "normal" }, if ok { "accepted" } else { "refused" }));
            if ok && unauthorized {
                self.find("c08", &format!("deposit-unauthorized:signer{signer}:{kn}"), format!("{what} was accepted (account {}frozen)", if frozen { "" } else { "not " }));
            }
            if ok && signer == 4 && frozen {
                st.witness("c08:admin-acted-on-frozen");
            }
            if !ok && unauthorized {
                st.witness("c08:refused");
            }
        }
        // ---- C14
        if tracked != 1 || paused {
            st.eval("c14");
            if ok {
                let why = if paused { "protocol-paused" } else { state_name(tracked) };
                self.find("c14", &format!("deposit-while-{why}:{kn}"), format!("{what} was accepted while the bank / protocol is {why}"));
            } else {
                st.witness("c14:deposit-refused-gated");
            }
        }
        if !ok && expired && !paused && signer == 0 && !frozen && tracked == 1 {
            self.expired_pause_probe(&what, pre_w.as_ref().unwrap(), &ixs, "deposit", kn, st);
        }
        // ---- C16
        if disabled {
            st.eval("c16");
            if ok {
                self.find("c16", &format!("disabled-deposit:{kn}"), format!("{what} was accepted on a disabled account"));
            }
        }
        if !ok {
            if let Some((_, code)) = err {
                if code == u32::from(marginfi::errors::MarginfiError::BankAssetCapacityExceeded) as u64 {
                    st.witness("c17:capacity-refusal");
                }
                if code == u32::from(marginfi::errors::MarginfiError::IntegrationPositionLimitExceeded) as u64 {
                    st.witness("c16:integration-cap-refusal");
                }
            }
            return;
        }
        self.after_commit(&what, st);
        // ---- C03: tokens paid == amount; value credited <= tokens paid
        let paid = tok0 as i128 - self.w.tok(&who.tok) as i128;
        let (s1, _, _) = self.shares(&self.w.vm, &acct, bi);
        let credited = q_bits(s1 - s0);
        st.eval("c03");
        if paid != amount as i128 {
            self.find("c03", &format!("deposit-paid-differs:{kn}"), format!("{what}: the source token account moved by {paid}"));
        }
        // the venue's (mocks) conversion may use a rate below the exact one by the derived factor `down`
        let allowed = q_int(amount) / (q_one() - &down) + q_int(4) * ulp();
        let value = &credited * &rate;
        if value > allowed {
            self.find("c03", &format!("deposit-overcredit:{kn}"), format!("{what}: {} shares credited, worth {} tokens at the exact venue rate {}, for {amount} tokens paid", q_str(&credited), q_str(&value), q_str(&rate)));
        }
        if amount > 0 && rate != q_one() {
            st.witness(&format!("c03:deposit:{kn}"));
        }
        // ---- C17: total deposits below the limit
        if let Some(l) = lim {
            st.eval("c17");
            let total1 = q_bits(crate::snap::bits(self.w.bank(bi).total_asset_shares)) * q_w(self.w.bank(bi).asset_share_value);
            if total1 > total0 && total1 >= l {
                self.find("c17", &format!("deposit-limit:{kn}"), format!("{what} succeeded and left total deposits {} >= limit {} (booked units)", q_str(&total1), q_str(&l)));
            }
            if rel == 2 {
                st.witness("c17:accepted-at-frontier");
            }
        }
        if st.samples.len() < 2 {
            st.samples.push(json!({"venue_deposit": {"kind": kn, "bank": bi, "amount": amount.to_string(), "shares_credited": q_f64(&credited), "exact_rate": q_f64(&rate)}}));
        }
    }

    fn op_vwithdraw(&mut self, u: u16, vb: u16, amt: u64, rel: u8, all: bool, refresh: bool, signer: u8, dest: u8, st: &mut Stats) {
        let ui = idx(u, N_ACTORS);
        let acct = self.acct[ui];
        // prefer a venue bank the account holds
        let held = self.venues_held(&self.w.vm, &acct);
        let bi = if held.is_empty() || vb % 8 == 7 { self.venues[idx(vb, self.venues.len())] } else { held[idx(vb, held.len())] };
        let kn = self.kind_name(bi);
        let who = self.who(ui, signer, bi);
        let auth_tok = self.w.users[ui].tokens[bi];
        let dest_tok = if dest == 1 { auth_tok } else { who.tok };
        let (rate, up, _down) = self.share_rate(&self.w.vm, bi);
        let (s0, _, _) = self.shares(&self.w.vm, &acct, bi);
        let pos_units: u64 = if self.kind[bi] == Some(0) { q_to_u64_sat(&(q_bits(s0) * &rate)) } else { q_to_u64_sat(&q_bits(s0)) };
        let amount = apply_rel(amt, rel, pos_units);
        let risk = self.w.risk_metas(&acct, None, if all { Some(self.w.banks[bi].key) } else { None });
        let prefix = if refresh { self.refresh_for(&[acct], Some(bi)) } else { vec![] };
        let mut ix = self.ix_vwithdraw(bi, &acct, amount, all, who.key, dest_tok, risk);
        if who.clear_sig {
            for m in ix.accounts.iter_mut() {
                if m.pubkey == who.key {
                    m.is_signer = false;
                }
            }
        }
        let mut ixs = prefix.clone();
        ixs.push(ix.clone());
        let fl = self.flags(&acct);
        let frozen = fl & ACCOUNT_FROZEN != 0;
        let disabled = fl & ACCOUNT_DISABLED != 0;
        let tok0 = self.w.tok(&dest_tok);
        let vault = self.venue_vault(bi);
        let vault0 = self.w.tok(&vault);
        let tracked = self.state[bi];
        let paused = self.pause_in_force();
        let expired = self.pause_expired_unpropagated();
        let debt = self.has_debt(&self.w.vm, &acct);
        let pre_w = if expired || tracked == 2 { Some(self.w.clone()) } else { None };
        let what = format!("{kn}_withdraw({}) from bank #{bi} signed by {}", if all { "all".to_string() } else { amount.to_string() }, ["the authority", "another user", "a stranger", "nobody (authority key, signature bit cleared)", "the group admin"][signer.min(4) as usize]);
        let (ok, err) = self.exec(&ixs);
        st.label(&format!("{}:vwithdraw{}:{kn}{}", if ok { "ok" } else { "fail" }, if all { "_all" } else { "" }, self.dec_class(bi)));
        // ---- C08
        let unauthorized = matches!(signer, 1 | 2 | 3) || (signer == 4 && !frozen) || (signer == 0 && frozen);
        if signer != 0 || frozen {
            st.eval("c08");
            st.label(&format!("c08:withdraw:signer{signer}:{}:{}", if frozen { "frozen" } else { "normal" }, if ok { "accepted" } else { "refused" }));
            if ok && unauthorized {
                self.find("c08", &format!("withdraw-unauthorized:signer{signer}:{kn}"), format!("{what} was accepted (account {}frozen)", if frozen { "" } else { "not " }));
            }
            if ok && signer == 4 && frozen {
                st.witness("c08:admin-acted-on-frozen");
            }
            if !ok && unauthorized && s0 > 0 {
                st.witness("c08:refused");
            }
        }
        // ---- C14
        if matches!(tracked, 0 | 3) || paused {
            st.eval("c14");
            if ok {
                let why = if paused { "protocol-paused" } else { state_name(tracked) };
                self.find("c14", &format!("withdraw-while-{why}:{kn}"), format!("{what} was accepted while the bank / protocol is {why}"));
            } else if s0 > 0 {
                st.witness("c14:withdraw-refused-gated");
            }
        }
        if !ok && signer == 0 && !frozen && !paused {
            if tracked == 2 && !debt {
                self.reduce_only_probe(&what, pre_w.as_ref().unwrap(), bi, &ixs, kn, st);
            } else if expired && tracked == 1 {
                self.expired_pause_probe(&what, pre_w.as_ref().unwrap(), &ixs, "withdraw", kn, st);
            }
        }
        if tracked == 2 && ok {
            st.witness("c14:reduce-only-withdraw-ok");
        }
        // ---- C16
        if disabled {
            st.eval("c16");
            if ok {
                self.find("c16", &format!("disabled-withdraw:{kn}"), format!("{what} was accepted on a disabled account"));
            }
        }
        if !ok {
            if let Some((_, code)) = err {
                if code == err_risk_engine() && signer == 0 && !frozen {
                    st.label("c04:withdraw-refused-for-health");
                    self.converse(&what, prefix, ix, acct, self.w.users[ui].auth, st);
                }
            }
            return;
        }
        self.after_commit(&what, st);
        // ---- C03: tokens received <= shares removed x exact rate
        let received = self.w.tok(&dest_tok) as i128 - tok0 as i128;
        let (s1, _, _) = self.shares(&self.w.vm, &acct, bi);
        let removed = q_bits(s0 - s1);
        st.eval("c03");
        let allowed = &removed * &rate * (q_one() + &up) + q_int(4) * ulp();
        // (A Drift withdrawal of `amount` tokens with amount * 10^(19-dec) < cumulative_deposit_interest burns no scaled
        // balance at all — Drift's `get_spot_balance(.., round_up)` adds its +1 only to a NON-ZERO quotient. The program
        // used to pay such dust out of the bank's pooled position: genuine finding of this check, repaired in /repo
        // ("fix: drift_withdraw refuses a token amount that burns no scaled balance"), recorded as fixed in
        // KNOWN_FINDINGS.jsonl; nothing is excluded here, so the violation is reported again if it ever returns.)
        if q_int(received) > allowed {
            self.find("c03", &format!("withdraw-overpays:{kn}"), format!("{what}: {received} tokens received for {} shares removed, worth {} at the exact venue rate {} (allowed {})", q_exact(&removed), q_exact(&(&removed * &rate)), q_str(&rate), q_exact(&allowed)));
        }
        let vault_out = vault0 as i128 - self.w.tok(&vault) as i128;
        if vault_out != received {
            st.label("c03:venue-vault-outflow-differs-from-received");
        }
        if received > 0 && rate != q_one() {
            st.witness(&format!("c03:withdraw{}:{kn}", if all { "_all" } else { "" }));
        }
        // ---- C04 / C09
        self.check_gate_success(&what, &acct, st);
        if st.samples.len() < 4 {
            st.samples.push(json!({"venue_withdraw": {"kind": kn, "bank": bi, "all": all, "amount": amount.to_string(), "received": received.to_string(), "shares_removed": q_f64(&removed), "exact_rate": q_f64(&rate), "had_debt": debt}}));
        }
    }

    fn op_borrow(&mut self, u: u16, amt: u64, rel: u8, refresh: bool, st: &mut Stats) {
        let ui = idx(u, N_ACTORS);
        let acct = self.acct[ui];
        let usr = self.w.users[ui].clone();
        let power = if rel == 0 {
            0
        } else if refresh {
            let c = self.refreshed_clone(&[acct]);
            self.borrow_power(&c.vm, &acct)
        } else {
            self.borrow_power(&self.w.vm, &acct)
        };
        let amount = match rel {
            0 => amt,
            1 => ((power as u128 * amt as u128) / 52_428).min(u64::MAX as u128) as u64,
            _ => apply_rel(amt, 2, power),
        };
        let prefix = if refresh { self.refresh_for(&[acct], None) } else { vec![] };
        let ix = self.w.ix_borrow(acct, usr.auth, 0, usr.tokens[0], amount);
        let mut ixs = prefix.clone();
        ixs.push(ix.clone());
        let fl = self.flags(&acct);
        let frozen = fl & ACCOUNT_FROZEN != 0;
        let paused = self.pause_in_force();
        let holds_venue = !self.venues_held(&self.w.vm, &acct).is_empty();
        let what = format!("borrow({amount}) from bank #0 by user {ui}{}", if refresh { " (venue refresh prepended)" } else { "" });
        let (ok, err) = self.exec(&ixs);
        st.label(&format!("{}:borrow{}", if ok { "ok" } else { "fail" }, if holds_venue { ":venue-collateral" } else { "" }));
        if paused {
            st.eval("c14");
            if ok {
                self.find("c14", "borrow-while-protocol-paused", format!("{what} was accepted while the protocol pause is in force"));
            }
        }
        if !ok {
            if let Some((_, code)) = err {
                if code == err_risk_engine() && !frozen {
                    st.label("c04:borrow-refused-for-health");
                    if holds_venue {
                        self.converse(&what, prefix, ix, acct, usr.auth, st);
                    }
                }
            }
            return;
        }
        self.after_commit(&what, st);
        self.check_gate_success(&what, &acct, st);
        if rel == 2 && amount > 3 {
            st.witness("c04:borrow-accepted-at-frontier");
        }
    }
}

impl Runner {
    /// C14 reduce-only: a venue withdraw by a debt-free account was refused while the bank is reduce-only. Differential:
    /// the same transaction on a clone whose only difference is that the admin set the bank operational.
    fn reduce_only_probe(&mut self, what: &str, pre: &World, bi: usize, ixs: &[Instruction], kn: &str, st: &mut Stats) {
        let mut c = pre.clone();
        let mut opt = BankConfigOpt::default();
        opt.operational_state = Some(BankOperationalState::Operational);
        let ix = c.ix_configure_bank(bi, opt, c.roles.admin);
        if c.vm.exec(&ix).is_err() {
            return;
        }
        st.eval("c14");
        if c.vm.exec_tx(ixs).ok {
            self.find("c14", &format!("reduce-only-withdraw-refused:{kn}"), format!("{what} was refused while the bank is reduce-only (the account has no debt), but the same transaction is accepted on a copy with the bank operational"));
        } else {
            st.label("c14:reduce-only-withdraw-refused-also-when-operational");
        }
    }

    /// C14 expiry: the group was told of a pause that has expired (nobody propagated / unpaused since). An instruction that
    /// is refused now must also be refused on a copy whose group never heard of the pause (cached pause state cleared in
    /// the copy - a doctored copy, counted).
    fn expired_pause_probe(&mut self, what: &str, pre: &World, ixs: &[Instruction], opname: &str, kn: &str, st: &mut Stats) {
        let mut c = pre.clone();
        let mut g = c.group_state();
        g.panic_state_cache = Default::default();
        let key = c.group;
        c.vm.modify(&key, |a| a.data[8..8 + std::mem::size_of::<marginfi_type_crate::types::MarginfiGroup>()].copy_from_slice(bytemuck::bytes_of(&g)));
        st.eval("c14");
        st.label("doctored:never-paused-copy");
        if c.vm.exec_tx(ixs).ok {
            self.find("c14", &format!("expired-pause-still-blocks-{opname}:{kn}"), format!("{what} is refused after the pause expired, but accepted on a copy whose group never was paused"));
        }
    }

    fn op_wait(&mut self, secs: u32, st: &mut Stats) {
        self.w.vm.advance(secs as i64);
        self.w.refresh_oracles();
        st.label("ok:wait");
    }

    fn op_refresh(&mut self, vb: u16, direct: bool, st: &mut Stats) {
        let bi = self.venues[idx(vb, self.venues.len())];
        if direct {
            Self::refresh_direct_on(&mut self.w, self.kind[bi].unwrap(), bi);
            st.label("ok:refresh_venue:direct");
        } else {
            let ixs = self.refresh_ixs(bi);
            let (ok, _) = self.exec(&ixs);
            st.label(&format!("{}:refresh_venue:{}", if ok { "ok" } else { "fail" }, self.kind_name(bi)));
            if ok {
                self.after_commit("venue refresh", st);
            }
        }
    }

    fn op_accrue(&mut self, vb: u16, ppm: u32, st: &mut Stats) {
        let bi = self.venues[idx(vb, self.venues.len())];
        self.accrue_venue(bi, ppm as u64);
        st.label(&format!("ok:accrue_venue:{}", self.kind_name(bi)));
    }

    fn op_loss(&mut self, vb: u16, ppm: u32, st: &mut Stats) {
        let bi = self.venues[idx(vb, self.venues.len())];
        self.loss_venue(bi, ppm as u64);
        let (rate, _, _) = self.share_rate(&self.w.vm, bi);
        let par = if self.kind[bi] == Some(0) { pow10(self.w.banks[bi].decimals as u32) / pow10(9) } else { q_one() };
        st.label(&format!("ok:venue_loss:{}:{}", self.kind_name(bi), if rate < par { "below-par" } else { "at-or-above-par" }));
    }

    /// the account keys marginfi itself binds to a bank in the venue instructions, with a name each
    fn bank_bound_keys(&self, bi: usize) -> Vec<(&'static str, Pubkey)> {
        let info = &self.w.banks[bi];
        let b = read_bank(&self.w.vm, &info.key);
        vec![("bank", info.key), ("liquidity_vault", b.liquidity_vault), ("liquidity_vault_authority", info.lv_auth), ("mint", b.mint), ("integration_acc_1", b.integration_acc_1), ("integration_acc_2", b.integration_acc_2), ("integration_acc_3", b.integration_acc_3)]
    }

    fn op_subst(&mut self, u: u16, vb: u16, withdraw: bool, amt: u64, st: &mut Stats) {
        let ui = idx(u, N_ACTORS);
        let acct = self.acct[ui];
        let usr = self.w.users[ui].clone();
        let held = self.venues_held(&self.w.vm, &acct);
        let hb = if withdraw {
            if held.is_empty() {
                st.label("skip:subst:no-position");
                return;
            }
            held[idx(vb, held.len())]
        } else {
            self.venues[idx(vb, self.venues.len())]
        };
        let k = self.kind[hb];
        let kn = self.kind_name(hb);
        if self.flags(&acct) & (ACCOUNT_FROZEN | ACCOUNT_DISABLED) != 0 || self.state[hb] != 1 || self.pause_in_force() || self.pause_expired_unpropagated() {
            st.label("skip:subst:gated");
            return;
        }
        // substitutes: the foreign group's bank of this kind, another home bank of this kind
        let mut subs: Vec<(&'static str, usize)> = vec![];
        if let Some(fb) = self.foreign.iter().find(|b| self.kind[**b] == k) {
            subs.push(("foreign-group", *fb));
        }
        if let Some(ob) = self.venues.iter().find(|b| **b != hb && self.kind[**b] == k) {
            subs.push(("other-bank", *ob));
        }
        if subs.is_empty() {
            st.label("skip:subst:no-substitute");
            return;
        }
        let build = |s: &Runner, bi: usize| -> Instruction {
            if withdraw {
                s.ix_vwithdraw(bi, &acct, 1, false, usr.auth, usr.tokens[bi], s.w.risk_metas(&acct, None, None))
            } else {
                s.ix_vdeposit(bi, &acct, usr.auth, usr.tokens[bi], amt.max(1))
            }
        };
        let home_ix = build(self, hb);
        let mut prefix = self.refresh_for(&[acct], Some(hb));
        for (_, sb) in &subs {
            prefix.extend(self.refresh_ixs(*sb));
        }
        // positive control
        {
            let mut vm = self.w.vm.clone();
            let mut tx = prefix.clone();
            tx.push(home_ix.clone());
            if !vm.exec_tx(&tx).ok {
                st.label(&format!("skip:subst:baseline-failed:{kn}"));
                return;
            }
        }
        st.label(&format!("ok:subst-baseline:{}:{kn}", if withdraw { "withdraw" } else { "deposit" }));
        let bound = self.bank_bound_keys(hb);
        for (sname, sb) in subs {
            let sub_ix = build(self, sb);
            if sub_ix.accounts.len() != home_ix.accounts.len() && !withdraw {
                st.label("skip:subst:layout-differs");
                continue;
            }
            let n = home_ix.accounts.len().min(sub_ix.accounts.len());
            let mut variants: Vec<(String, Instruction)> = vec![];
            let mut cluster = home_ix.clone();
            let mut any = false;
            for p in 0..n {
                let hk = home_ix.accounts[p].pubkey;
                let Some((slot, _)) = bound.iter().find(|(_, key)| *key == hk) else { continue };
                if sub_ix.accounts[p].pubkey == hk {
                    continue;
                }
                let mut v = home_ix.clone();
                v.accounts[p].pubkey = sub_ix.accounts[p].pubkey;
                cluster.accounts[p].pubkey = sub_ix.accounts[p].pubkey;
                any = true;
                variants.push((format!("{slot}"), v));
            }
            if any {
                variants.push(("all-bank-bound-slots".into(), cluster));
            }
            // the substitute bank with ALL of its own consistent accounts (only group, marginfi account and authority are home)
            variants.push(("whole-bank".into(), sub_ix));
            for (slot, v) in variants {
                let mut vm = self.w.vm.clone();
                let mut tx = prefix.clone();
                tx.push(v);
                st.eval("c08");
                let ok = vm.exec_tx(&tx).ok;
                st.label(&format!("c08:subst:{sname}:{slot}:{}", if ok { "accepted" } else { "refused" }));
                if ok && (sname == "foreign-group" || slot != "whole-bank") {
                    // (the whole of ANOTHER HOME bank is simply a legitimate deposit into that bank)
                    self.find(
                        "c08",
                        &format!("substitution-accepted:{sname}:{slot}:{kn}"),
                        format!("{kn}_{} of user {ui} on bank #{hb} committed with {slot} replaced by the one of bank #{sb} ({sname})", if withdraw { "withdraw" } else { "deposit" }),
                    );
                } else if !ok {
                    st.witness("c08:substitution-refused");
                }
            }
        }
    }

    fn set_price_scaled(&mut self, bi: usize, num_pm: u64, conf_bps: u16) {
        let f = self.feeds[bi].clone();
        let mant = ((self.base_mant[bi] as i128 * num_pm as i128) / 1000).clamp(1, i64::MAX as i128 / 4) as i64;
        let o = f.oracle(mant, conf_bps);
        let _ = self.w.set_price(bi, o.mant, o.conf, o.ema_mant, o.ema_conf);
    }

    fn op_price(&mut self, b: u16, num: u16, conf_bps: u16, st: &mut Stats) {
        let bi = idx(b, self.n_home);
        self.set_price_scaled(bi, num as u64, conf_bps);
        st.label("ok:price");
    }

    fn op_repay(&mut self, u: u16, amt: u64, rel: u8, all: bool, refresh: bool, st: &mut Stats) {
        let ui = idx(u, N_ACTORS);
        let acct = self.acct[ui];
        let usr = self.w.users[ui].clone();
        let (_, l0, _) = self.shares(&self.w.vm, &acct, 0);
        let debt = q_to_u64_sat(&(q_bits(l0) * q_w(self.w.bank(0).liability_share_value)).ceil());
        let amount = apply_rel(amt, rel, debt);
        let mut ixs = if refresh { self.refresh_for(&[acct], None) } else { vec![] };
        ixs.push(self.w.ix_repay(acct, usr.auth, 0, usr.tokens[0], amount, if all { Some(true) } else { None }));
        let paused = self.pause_in_force();
        let (ok, _) = self.exec(&ixs);
        st.label(&format!("{}:repay{}", if ok { "ok" } else { "fail" }, if all { "_all" } else { "" }));
        if paused {
            st.eval("c14");
            if ok {
                self.find("c14", "repay-while-protocol-paused", format!("repay({amount}) by user {ui} was accepted while the protocol pause is in force"));
            }
        }
        if ok {
            self.after_commit("repay", st);
        }
    }

    fn op_ord_deposit(&mut self, u: u16, b: u16, amt: u64, st: &mut Stats) {
        let ui = idx(u, N_ACTORS);
        let bi = idx(b, self.n_ord);
        let acct = self.acct[ui];
        let usr = self.w.users[ui].clone();
        let amount = amt.min(1u64 << 44);
        let ix = self.w.ix_deposit(acct, usr.auth, bi, usr.tokens[bi], amount, None);
        let (ok, _) = self.exec(&[ix]);
        st.label(&format!("{}:ord_deposit", if ok { "ok" } else { "fail" }));
        if ok {
            self.after_commit("ordinary deposit", st);
        }
    }

    fn op_limit(&mut self, vb: u16, amt: u64, rel: u8, st: &mut Stats) {
        let bi = self.venues[idx(vb, self.venues.len())];
        let b = self.w.bank(bi);
        // current total in the mint's native units as the limit is written (Drift books 9-decimal units)
        let total = q_bits(crate::snap::bits(b.total_asset_shares));
        let total_native = if self.kind[bi] == Some(0) { total * pow10(b.mint_decimals as u32) / pow10(9) } else { total };
        let t = q_to_u64_sat(&total_native.ceil());
        let limit = match rel {
            0 => {
                if amt % 3 == 0 {
                    u64::MAX
                } else {
                    amt
                }
            }
            1 => t.saturating_add(((t.max(1000) as u128 * amt as u128) >> 16) as u64),
            _ => apply_rel(amt, 2, t),
        };
        let ix = self.w.ix_configure_limits_only(bi, Some(limit), None, None, self.w.roles.limit);
        let (ok, _) = self.exec(&[ix]);
        st.label(&format!("{}:limit", if ok { "ok" } else { "fail" }));
        if ok {
            self.after_commit("configure limits", st);
        }
    }

    fn op_bank_state(&mut self, vb: u16, state: u8, st: &mut Stats) {
        let bi = self.venues[idx(vb, self.venues.len())];
        let mut opt = BankConfigOpt::default();
        opt.operational_state = Some(op_state(state));
        let ix = self.w.ix_configure_bank(bi, opt, self.w.roles.admin);
        let (ok, _) = self.exec(&[ix]);
        st.label(&format!("{}:bank_state:{}", if ok { "ok" } else { "fail" }, state_name(state)));
        if ok {
            if self.state[bi] == 3 {
                self.find("c14", "killed-bank-revived", format!("configure_bank took venue bank #{bi} out of the killed state"));
            }
            self.state[bi] = state;
            self.after_commit("configure bank state", st);
        }
    }

    fn op_killed(&mut self, vb: u16, st: &mut Stats) {
        let bi = self.venues[idx(vb, self.venues.len())];
        let key = self.w.banks[bi].key;
        let mut b = self.w.bank(bi);
        b.config.operational_state = BankOperationalState::KilledByBankruptcy;
        self.w.vm.modify(&key, |a| a.data[8..8 + std::mem::size_of::<marginfi_type_crate::types::Bank>()].copy_from_slice(bytemuck::bytes_of(&b)));
        self.state[bi] = 3;
        st.label("doctored:killed-venue-bank");
    }

    fn op_global_pause(&mut self, on: bool, propagate: bool, st: &mut Stats) {
        let now = self.w.vm.now();
        let active = self.pause_start.map(|s| now - s < PAUSE_SECS).unwrap_or(false);
        if on {
            if active {
                // an extension moves the start into the future; keep the tracked history simple
                st.label("skip:pause-already-active");
                return;
            }
            let ix = self.w.ix_panic_pause(self.w.roles.fee_admin);
            let (ok, _) = self.exec(&[ix]);
            st.label(&format!("{}:panic_pause", if ok { "ok" } else { "fail" }));
            if !ok {
                return;
            }
            self.pause_start = Some(now);
        } else {
            if self.pause_start.is_none() {
                st.label("skip:not-paused");
                return;
            }
            let ix = self.w.ix_panic_unpause(self.w.roles.fee_admin);
            let (ok, _) = self.exec(&[ix]);
            st.label(&format!("{}:panic_unpause", if ok { "ok" } else { "fail" }));
            if !ok {
                return;
            }
            self.pause_start = None;
        }
        if propagate {
            let ix = self.w.ix_propagate_fee_state();
            let (ok, _) = self.exec(&[ix]);
            st.label(&format!("{}:propagate", if ok { "ok" } else { "fail" }));
            if ok {
                self.group_knows = self.pause_start;
            }
        }
    }

    fn op_freeze(&mut self, u: u16, on: bool, st: &mut Stats) {
        let ui = idx(u, N_ACTORS);
        let acct = self.acct[ui];
        let ix = self.w.ix_set_freeze(acct, self.w.roles.admin, on);
        let (ok, _) = self.exec(&[ix]);
        st.label(&format!("{}:freeze:{}", if ok { "ok" } else { "fail" }, on));
        if ok {
            self.after_commit("freeze", st);
        }
    }

    pub fn step(&mut self, op: &VOp, st: &mut Stats) {
        match op {
            VOp::VDeposit { u, vb, amt, rel, refresh, signer } => self.op_vdeposit(*u, *vb, *amt, *rel, *refresh, *signer, st),
            VOp::VWithdraw { u, vb, amt, rel, all, refresh, signer, dest } => self.op_vwithdraw(*u, *vb, *amt, *rel, *all, *refresh, *signer, *dest, st),
            VOp::Borrow { u, amt, rel, refresh } => self.op_borrow(*u, *amt, *rel, *refresh, st),
            VOp::Repay { u, amt, rel, all, refresh } => self.op_repay(*u, *amt, *rel, *all, *refresh, st),
            VOp::OrdDeposit { u, b, amt } => self.op_ord_deposit(*u, *b, *amt, st),
            VOp::AccrueVenue { vb, ppm } => self.op_accrue(*vb, *ppm, st),
            VOp::VenueLoss { vb, ppm } => self.op_loss(*vb, *ppm, st),
            VOp::Subst { u, vb, withdraw, amt } => self.op_subst(*u, *vb, *withdraw, *amt, st),
            VOp::Wait { secs } => self.op_wait(*secs, st),
            VOp::RefreshVenue { vb, direct } => self.op_refresh(*vb, *direct, st),
            VOp::Price { b, num, conf_bps } => self.op_price(*b, *num, *conf_bps, st),
            VOp::BankState { vb, state } => self.op_bank_state(*vb, *state, st),
            VOp::Killed { vb } => self.op_killed(*vb, st),
            VOp::GlobalPause { on, propagate } => self.op_global_pause(*on, *propagate, st),
            VOp::Limit { vb, amt, rel } => self.op_limit(*vb, *amt, *rel, st),
            VOp::Freeze { u, on } => self.op_freeze(*u, *on, st),
            VOp::Liquidate { le, vb, amt, rel, refresh } => self.op_liquidate(*le, *vb, *amt, *rel, *refresh, st),
            VOp::Bracket { le, vb, prem_pm, rfrac, refresh } => self.op_bracket(*le, *vb, *prem_pm, *rfrac, *refresh, st),
            VOp::Distress { le, depth } => self.op_distress(*le, *depth, st),
            VOp::Disable { u } => self.op_disable(*u, st),
            VOp::Bankrupt { u, refresh, crash } => self.op_bankrupt(*u, *refresh, *crash, st),
            VOp::Harvest { vb, signer, dest, variant, amount, flavour } => self.op_harvest(*vb, *signer, *dest, *variant, *amount, *flavour, st),
        }
        // world manipulations (accrue, price, clock) do not move shares; keep the snapshot's venue backing current
        self.step += 1;
    }
}

impl Runner {
    /// a user (0..3) with a debt of at least one share, searched from `start`; falls back to `start`
    fn pick_debtor(&self, start: u16) -> (usize, bool) {
        let s = idx(start, N_ACTORS);
        for k in 0..N_ACTORS {
            let ui = (s + k) % N_ACTORS;
            let (_, l, _) = self.shares(&self.w.vm, &self.acct[ui], 0);
            if l >= (1i128 << 48) {
                return (ui, true);
            }
        }
        (s, false)
    }
    /// venue banks in which the account holds at least one share and whose venue account is stale right now
    fn stale_holdings(&self, acct: &Pubkey) -> Vec<usize> {
        self.venues_held(&self.w.vm, acct).into_iter().filter(|bi| self.shares(&self.w.vm, acct, *bi).0 >= (1i128 << 48) && self.venue_stale(&self.w.vm, *bi)).collect()
    }

    fn op_distress(&mut self, le: u16, depth: i16, st: &mut Stats) {
        let (ui, has) = self.pick_debtor(le);
        if !has {
            st.label("skip:distress:no-debtor");
            return;
        }
        let acct = self.acct[ui];
        let c = self.refreshed_clone(&[acct]);
        let Some(h) = self.maint_health(&c.vm, &acct) else { return };
        if !h.defined() {
            st.label("skip:distress:undefined");
            return;
        }
        let assets: Vec<(usize, Q)> = h.positions.iter().filter(|p| !p.is_liab && p.price.is_some()).filter_map(|p| self.w.bank_index(&p.bank).filter(|bi| self.kind[*bi].is_some()).map(|bi| (bi, p.value.lo.clone()))).collect();
        let Some((bj, vj)) = assets.iter().max_by(|x, y| x.1.cmp(&y.1)).cloned() else {
            st.label("skip:distress:no-venue-asset");
            return;
        };
        let total_a = h.assets.as_ref().unwrap().lo.clone();
        let l = h.liabs.as_ref().unwrap().hi.clone();
        let target = -(q_ratio(depth as i64, 1000i64) * &l);
        let want = &l + &target - (&total_a - &vj);
        if !vj.is_positive() || !want.is_positive() {
            st.label("skip:distress:unreachable");
            return;
        }
        let f = want / &vj;
        // stay within three orders of magnitude of the generated price (feeds of absurd magnitude are another property's business)
        let o = self.w.banks[bj].spec.oracle.clone();
        let rel_to_base = &f * q_int(o.mant) / q_int(self.base_mant[bj].max(1));
        if rel_to_base > q_int(1000) || rel_to_base < q_ratio(1, 1000) {
            st.label("skip:distress:price-out-of-range");
            return;
        }
        let nm = q_floor(&(q_int(o.mant) * &f)).to_i64().unwrap_or(i64::MAX / 4).clamp(1, i64::MAX / 4);
        let conf = ((o.conf as u128).saturating_mul(nm as u128) / (o.mant.max(1) as u128)) as u64;
        let _ = self.w.set_price(bj, nm, conf, nm, conf);
        st.label(if depth > 0 { "ok:distress:below-zero" } else { "ok:distress:above-zero" });
    }

    fn op_liquidate(&mut self, le: u16, vb: u16, amt: u64, rel: u8, refresh: bool, st: &mut Stats) {
        let (ui, _) = self.pick_debtor(le);
        let le_acct = self.acct[ui];
        let lq = self.w.users[LQ].clone();
        let lq_acct = self.acct[LQ];
        let held = self.venues_held(&self.w.vm, &le_acct);
        let bi = if held.is_empty() { self.venues[idx(vb, self.venues.len())] } else { held[idx(vb, held.len())] };
        let kn = self.kind_name(bi);
        let (s0, _, _) = self.shares(&self.w.vm, &le_acct, bi);
        let amount = apply_rel(amt, rel, q_to_u64_sat(&q_bits(s0)));
        let mut ixs = if refresh { self.refresh_for(&[le_acct, lq_acct], Some(bi)) } else { vec![] };
        ixs.push(self.w.ix_liquidate(lq_acct, lq.auth, le_acct, bi, 0, amount));
        let stale = if refresh { vec![] } else { self.stale_holdings(&le_acct) };
        let tracked = self.state[bi];
        let paused = self.pause_in_force();
        let what = format!("classic liquidation of {amount} shares of {kn} bank #{bi} from user {ui}{}", if refresh { " (venue refresh prepended)" } else { "" });
        let (ok, _) = self.exec(&ixs);
        st.label(&format!("{}:liquidate:{kn}", if ok { "ok" } else { "fail" }));
        if !stale.is_empty() {
            st.eval("c09");
            st.witness("c09:liquidate-on-stale-holder");
            if ok {
                self.find("c09", &format!("liquidation-with-stale-venue:{kn}"), format!("{what} succeeded although the liquidatee holds venue positions in bank(s) {:?} whose venue account was not refreshed in the current slot / second", stale));
            }
        }
        if matches!(tracked, 0 | 3) || paused {
            st.eval("c14");
            if ok {
                let why = if paused { "protocol-paused" } else { state_name(tracked) };
                self.find("c14", &format!("liquidation-while-{why}:{kn}"), format!("{what} was accepted while the bank / protocol is {why}"));
            } else if s0 > 0 {
                st.witness("c14:liquidation-refused-gated");
            }
        }
        if ok {
            self.after_commit(&what, st);
        }
    }

    fn op_bracket(&mut self, le: u16, vb: u16, prem_pm: u16, rfrac: u16, refresh: bool, st: &mut Stats) {
        let (ui, has) = self.pick_debtor(le);
        if !has {
            st.label("skip:bracket:no-debtor");
            return;
        }
        let le_acct = self.acct[ui];
        let lq = self.w.users[LQ].clone();
        let held: Vec<usize> = self.venues_held(&self.w.vm, &le_acct).into_iter().filter(|bi| self.shares(&self.w.vm, &le_acct, *bi).0 >= (1i128 << 48)).collect();
        if held.is_empty() {
            st.label("skip:bracket:no-venue-position");
            return;
        }
        let bi = held[idx(vb, held.len())];
        let kn = self.kind_name(bi);
        let rec = World::liq_record_key(&le_acct);
        if self.w.vm.get(&rec).is_none() {
            let ix = self.w.ix_init_liq_record(le_acct, lq.auth);
            let _ = self.exec(&[ix]);
        }
        // amounts from the reference's unweighted spot values on a refreshed copy
        let c = self.refreshed_clone(&[le_acct]);
        let Some(a) = read_macct(&c.vm, &le_acct) else { return };
        let he = health_with_kind(&c.vm, &a, Req::Equity, c.vm.now(), Some(PriceKind::Spot));
        let key_a = self.w.banks[bi].key;
        let key_l = self.w.banks[0].key;
        let va = he.positions.iter().find(|p| !p.is_liab && p.bank == key_a && p.price.is_some()).map(|p| p.value.lo.clone());
        let vl = he.positions.iter().find(|p| p.is_liab && p.bank == key_l && p.price.is_some()).map(|p| p.value.hi.clone());
        let (Some(va), Some(vl)) = (va, vl) else {
            st.label("skip:bracket:unvalued");
            return;
        };
        let (s0, l0, _) = self.shares(&self.w.vm, &le_acct, bi);
        let (_, lb, _) = self.shares(&self.w.vm, &le_acct, 0);
        let _ = l0;
        let debt = q_bits(lb) * q_w(self.w.bank(0).liability_share_value);
        let shares = q_bits(s0);
        if !va.is_positive() || !vl.is_positive() || !debt.is_positive() {
            st.label("skip:bracket:zero-value");
            return;
        }
        let ra = q_to_u64_sat(&(&debt * q_ratio(rfrac as u64, 65_536u64))).max(1);
        let per_share = &va / &shares;
        let per_unit = &vl / &debt;
        let w_shares = q_int(ra) * &per_unit * q_ratio(prem_pm as u64, 1000u64) / &per_share;
        let (rate, _, _) = self.share_rate(&self.w.vm, bi);
        let wamt = if self.kind[bi] == Some(0) { q_to_u64_sat(&(&w_shares * &rate)) } else { q_to_u64_sat(&w_shares) }.max(1);
        let prefix = if refresh { self.refresh_for(&[le_acct], Some(bi)) } else { vec![] };
        let n_prefix = prefix.len();
        let risk = self.w.risk_metas(&le_acct, None, None);
        let mut ixs = prefix;
        ixs.push(self.w.ix_start_liquidation(le_acct, lq.auth));
        ixs.push(self.ix_vwithdraw(bi, &le_acct, wamt, false, lq.auth, lq.tokens[bi], risk.clone()));
        ixs.push(self.w.ix_repay(le_acct, lq.auth, 0, lq.tokens[0], ra, None));
        ixs.push(self.w.ix_end_liquidation(le_acct, lq.auth, risk));
        let stale = if refresh { vec![] } else { self.stale_holdings(&le_acct) };
        let tracked = self.state[bi];
        let paused = self.pause_in_force();
        let tok0 = self.w.tok(&lq.tokens[bi]);
        let vault = self.venue_vault(bi);
        let vault0 = self.w.tok(&vault);
        let what = format!("bracket [{}start, {kn}_withdraw({wamt}) from bank #{bi}, repay({ra}), end] on user {ui} by the liquidator", if refresh { "venue refresh.., " } else { "" });
        let pre_vm = self.w.vm.clone();
        let mut start_vm: Option<Vm> = if n_prefix == 0 { Some(pre_vm.clone()) } else { None };
        let o = self.w.vm.exec_tx_observe(&ixs, |i, v| {
            if n_prefix > 0 && i == n_prefix - 1 {
                start_vm = Some(v.clone());
            }
        });
        let ok = o.ok;
        st.label(&format!("{}:bracket:{kn}{}", if ok { "ok" } else { "fail" }, if ok { String::new() } else { format!(":ix{}", o.err.as_ref().map(|e| e.0 as i64 - n_prefix as i64).unwrap_or(-1)) }));
        if !stale.is_empty() {
            st.eval("c09");
            st.witness("c09:bracket-on-stale-holder");
            if ok {
                self.find("c09", &format!("receivership-with-stale-venue:{kn}"), format!("{what} committed although the account holds venue positions in bank(s) {:?} whose venue account was not refreshed in the current slot / second", stale));
            }
        }
        if matches!(tracked, 0 | 3) || paused {
            st.eval("c14");
            if ok {
                let why = if paused { "protocol-paused" } else { state_name(tracked) };
                self.find("c14", &format!("bracket-while-{why}:{kn}"), format!("{what} committed while the bank / protocol is {why}"));
            } else {
                st.witness("c14:bracket-refused-gated");
            }
        }
        if !ok {
            return;
        }
        // ---- C10 on the committed bracket
        st.eval("c10");
        st.witness(&format!("c10:committed:{kn}"));
        let start_vm = start_vm.unwrap_or(pre_vm);
        let post_flags = self.flags(&le_acct);
        if post_flags & ACCOUNT_IN_RECEIVERSHIP != 0 {
            self.find("c10", "receivership-flag-survives", format!("{what}: the account is still flagged in receivership after commit"));
        }
        if let Some(ra) = self.w.vm.get(&rec) {
            let recv = Pubkey::new_from_array(ra.data[8 + 96..8 + 128].try_into().unwrap());
            if recv != Pubkey::default() {
                self.find("c10", "receiver-survives", format!("{what}: the liquidation record still names receiver {recv}"));
            }
        }
        let got = self.w.tok(&lq.tokens[bi]) as i128 - tok0 as i128;
        let left = vault0 as i128 - self.w.tok(&vault) as i128;
        if got != left {
            self.find("c10", &format!("liquidator-received-differs:{kn}"), format!("{what}: {left} tokens left the venue's vault, the liquidator received {got}"));
        }
        let maint = |vm: &Vm| -> Option<Iv> {
            let a = read_macct(vm, &le_acct)?;
            let h = health(vm, &a, Req::Maintenance, vm.now());
            let x = h.health()?;
            Some(x.widen(&h.ignored))
        };
        let equity = |vm: &Vm, kind: PriceKind| -> Option<(Iv, Iv)> {
            let a = read_macct(vm, &le_acct)?;
            let h = health_with_kind(vm, &a, Req::Equity, vm.now(), Some(kind));
            Some((h.assets?, h.liabs?))
        };
        match (maint(&start_vm), maint(&self.w.vm)) {
            (Some(h0), Some(h1)) => {
                if h0.lo.is_positive() {
                    self.find("c10", &format!("healthy-account-seized:{kn}"), format!("{what} committed although the reference maintenance health at start was at least {}", q_str(&h0.lo)));
                }
                if h1.hi < h0.lo {
                    self.find("c10", &format!("health-worse:{kn}"), format!("{what}: maintenance health fell from >= {} to <= {}", q_str(&h0.lo), q_str(&h1.hi)));
                }
                let max_fee = q_max(q_ratio(self.w.spec.liq_max_fee as u64, 1_000_000u64), q_ratio(5, 100));
                let mut small = false;
                let mut breach_all = true;
                let mut any = false;
                for kind in [PriceKind::Ema, PriceKind::Spot] {
                    let (Some((a0, l0)), Some((a1, l1))) = (equity(&start_vm, kind), equity(&self.w.vm, kind)) else { continue };
                    any = true;
                    if a0.lo < q_int(5) {
                        small = true;
                    }
                    let seized_lo = &a0.lo - &a1.hi;
                    let repaid_hi = &l0.hi - &l1.lo;
                    let slack = q_int(256) * ulp() * (q_one() + a0.hi.abs() + l0.hi.abs()) + (&a0.hi - &a0.lo) + (&l0.hi - &l0.lo);
                    if !(seized_lo > &repaid_hi * (q_one() + &max_fee) + slack) {
                        breach_all = false;
                    }
                }
                if any && breach_all && !small {
                    self.find("c10", &format!("premium-exceeded:{kn}"), format!("{what}: value seized exceeds value repaid x (1 + max(fee, 5%)) under both price readings"));
                }
                if any && h1.lo.is_positive() && !small {
                    self.find("c10", &format!("ended-healthy:{kn}"), format!("{what}: the account ends with maintenance health >= {} > 0", q_str(&h1.lo)));
                }
                if small {
                    st.label("c10:small-account");
                }
            }
            _ => self.find("c10", &format!("undefined-health:{kn}"), format!("{what} committed although the reference maintenance health is undefined at start or end")),
        }
        self.after_commit(&what, st);
        if st.samples.len() < 6 {
            st.samples.push(json!({"committed_bracket": {"kind": kn, "bank": bi, "withdraw": wamt.to_string(), "repay": ra.to_string(), "premium_permille": prem_pm, "liquidator_received": got.to_string()}}));
        }
    }

    /// right after an account became disabled: its authority's venue deposit / withdraw must be refused (on copies)
    fn probe_disabled(&mut self, ui: usize, old: Pubkey, st: &mut Stats) {
        let usr = self.w.users[ui].clone();
        let mut banks: Vec<usize> = self.venues_held(&self.w.vm, &old);
        for bi in self.venues.iter().take(2) {
            if !banks.contains(bi) {
                banks.push(*bi);
            }
        }
        for bi in banks.into_iter().take(4) {
            let kn = self.kind_name(bi);
            let unit = 10u64.pow(self.w.banks[bi].decimals as u32);
            let mut dep = self.refresh_ixs(bi);
            dep.push(self.ix_vdeposit(bi, &old, usr.auth, usr.tokens[bi], unit));
            let mut wd = self.refresh_for(&[old], Some(bi));
            wd.push(self.ix_vwithdraw(bi, &old, 1, false, usr.auth, usr.tokens[bi], self.w.risk_metas(&old, None, None)));
            for (name, ixs) in [("deposit", dep), ("withdraw", wd)] {
                let mut vm = self.w.vm.clone();
                st.eval("c16");
                if vm.exec_tx(&ixs).ok {
                    self.find("c16", &format!("disabled-{name}:{kn}"), format!("right after account {old} was disabled its authority's {kn}_{name} on bank #{bi} was accepted"));
                }
            }
        }
        st.witness("c16:disabled-probed");
    }

    fn op_disable(&mut self, u: u16, st: &mut Stats) {
        let ui = idx(u, N_ACTORS);
        let usr = self.w.users[ui].clone();
        let old = self.acct[ui];
        let new = kp("vc_macct_new", self.step as u64);
        let mut ix = self.w.ix_transfer_account(old, new, usr.auth, usr.auth);
        for m in ix.accounts.iter_mut() {
            if m.pubkey == new {
                m.is_signer = true;
            }
        }
        let (ok, _) = self.exec(&[ix]);
        st.label(&format!("{}:disable:transfer", if ok { "ok" } else { "fail" }));
        if !ok {
            return;
        }
        self.acct[ui] = new;
        self.all_accts.push(new);
        self.after_commit("transfer_to_new_account", st);
        if self.flags(&old) & ACCOUNT_DISABLED != 0 {
            self.probe_disabled(ui, old, st);
        } else {
            self.find("c16", "transferred-account-not-disabled", format!("account {old} was transferred but is not disabled"));
        }
    }

    fn op_bankrupt(&mut self, u: u16, refresh: bool, crash: bool, st: &mut Stats) {
        let (ui, has) = self.pick_debtor(u);
        if !has {
            st.label("skip:bankrupt:no-debtor");
            return;
        }
        let acct = self.acct[ui];
        if crash {
            // every asset of the account becomes (almost) worthless
            if let Some(a) = read_macct(&self.w.vm, &acct) {
                for b in a.lending_account.balances.iter().filter(|b| b.active != 0 && crate::snap::bits(b.asset_shares) > 0) {
                    if let Some(bi) = self.w.bank_index(&b.bank_pk) {
                        if bi != 0 {
                            let _ = self.w.set_price(bi, 1, 0, 1, 0);
                        }
                    }
                }
            }
        }
        let stale = if refresh { vec![] } else { self.stale_holdings(&acct) };
        let mut ixs = if refresh { self.refresh_for(&[acct], None) } else { vec![] };
        ixs.push(self.w.ix_bankruptcy(0, acct, self.w.roles.risk));
        let was_disabled = self.flags(&acct) & ACCOUNT_DISABLED != 0;
        let what = format!("bankruptcy of user {ui}{}", if refresh { " (venue refresh prepended)" } else { "" });
        let (ok, _) = self.exec(&ixs);
        st.label(&format!("{}:bankrupt", if ok { "ok" } else { "fail" }));
        if !stale.is_empty() {
            st.eval("c09");
            st.witness("c09:bankruptcy-on-stale-holder");
            if ok {
                self.find("c09", "bankruptcy-with-stale-venue", format!("{what} succeeded although the account holds venue positions in bank(s) {:?} whose venue account was not refreshed in the current slot / second", stale));
            }
        }
        if ok {
            self.after_commit(&what, st);
            if !was_disabled && self.flags(&acct) & ACCOUNT_DISABLED != 0 {
                st.label("ok:disabled-by-bankruptcy");
                self.probe_disabled(ui, acct, st);
            }
        }
    }
}

// ------------------------------------------------------------------------------------------
// the two permissionless harvest instructions
// ------------------------------------------------------------------------------------------
/// one prepared harvest transaction
struct HarvestPlan {
    ix: Instruction,
    /// name of the hostile variant ("none" = no substitution)
    vname: &'static str,
    /// the statement demands that this form is refused (a destination other than the fee wallet's canonical ATA, or a
    /// substituted account that belongs to another bank / wallet / market)
    must_refuse: bool,
    /// something is there to be harvested
    pending: bool,
    /// the venue's reward source(s): the only token accounts that may lose tokens (besides dust waiting in the intermediary)
    sources: Vec<Pubkey>,
    detail: String,
}

fn is_token_account(a: &crate::svm::Acct) -> bool {
    (a.owner == spl_token::ID && a.data.len() == 165) || (a.owner == spl_token_2022::ID && (a.data.len() == 165 || (a.data.len() > 165 && a.data[165] == 2)))
}

impl Runner {
    fn harvest_sender(&self, signer: u8) -> (Pubkey, &'static str) {
        match signer % 3 {
            1 => (self.w.users[1].auth, "user 1"),
            2 => (self.w.roles.stranger, "a stranger"),
            _ => (self.w.users[0].auth, "user 0"),
        }
    }
    /// a bank other than `bi`, preferably of the same venue kind, else any other venue bank, else bank 0
    fn other_bank(&self, bi: usize) -> usize {
        let same = self.venues.iter().copied().find(|b| *b != bi && self.kind[*b] == self.kind[bi]);
        same.or_else(|| self.venues.iter().copied().find(|b| *b != bi)).unwrap_or(0)
    }
    /// hostile destination `dest` (1..3) for `mint`
    fn harvest_dest(&mut self, dest: u8, sender: Pubkey, mint: &Pubkey, bi: usize) -> Pubkey {
        match dest {
            1 => vf::ensure_ata(&mut self.w.vm, &sender, mint),
            2 => {
                let admin = self.w.roles.admin;
                vf::ensure_ata(&mut self.w.vm, &admin, mint)
            }
            _ => {
                // owned by the fee wallet, but not at the ATA address
                let k = kp("harv_feewallet_ta", bi as u64);
                let a = vf::token_acct_of(&self.w.vm, mint, self.w.fee_wallet, 0);
                self.w.vm.set(k, a);
                k
            }
        }
    }
    /// a byte-for-byte copy of the global fee state at another address whose fee wallet is `wallet` (doctored, counted)
    fn fee_state_copy(&mut self, wallet: Pubkey, st: &mut Stats) -> Pubkey {
        let k = kp("harv_fee_state_copy", 0);
        let mut a = self.w.vm.get(&self.w.fee_state).expect("fee state").clone();
        a.data[8..40].copy_from_slice(k.as_ref());
        a.data[8 + 64..8 + 96].copy_from_slice(wallet.as_ref());
        self.w.vm.set(k, a);
        st.label("doctored:harvest-fee-state-copy");
        k
    }
    fn add_tokens(&mut self, k: &Pubkey, n: u64) {
        let have = self.w.tok(k);
        self.w.vm.modify(k, |a| a.data[64..72].copy_from_slice(&have.saturating_add(n).to_le_bytes()));
    }

    fn plan_kamino(&mut self, bi: usize, sender: Pubkey, dest: u8, variant: u8, amount: u64, flavour: u8, st: &mut Stats) -> HarvestPlan {
        let variant = (variant % KAMINO_VARIANTS.len() as u8) as usize;
        let new_dec = [6u8, 9, 0, 8][((flavour >> 2) & 3) as usize];
        let farm = vf::setup_farm(&mut self.w, bi, new_dec, flavour & 2 != 0, 1u64 << 40);
        // reward 0 pays a new mint, reward 1 the bank's own mint
        let ridx = if variant == 3 { 0 } else { (flavour & 1) as usize };
        vf::set_pending(&mut self.w.vm, &farm, ridx, amount);
        st.label("doctored:farm-pending-reward");
        if flavour & 32 != 0 {
            let k = farm.rewards[ridx].user_reward_ata;
            self.add_tokens(&k, 1 + amount % 997);
            st.label("doctored:harvest-dust-in-intermediary");
        }
        let b = self.w.banks[bi].clone();
        let ob = self.w.banks[self.other_bank(bi)].clone();
        let mut k = vf::legit_keys(&self.w, &farm, ridx);
        let mut must_refuse = variant != 0;
        match variant {
            1 => {
                // the bank's own liquidity vault (owned by the same vault authority) as the account the venue pays into.
                // With the bank's own mint as the reward this is consistent for the venue AND for marginfi (the account is
                // unchecked): not a substitution the statement forbids, only its EFFECT is judged (the vault is pre-funded
                // so that a sweep would show); with the new reward mint the mints disagree and it must be refused.
                k.user_reward_ata = b.lv;
                self.add_tokens(&b.lv, 1_000 + amount / 2);
                st.label("doctored:harvest-prefund-liquidity-vault");
                must_refuse = ridx == 0;
            }
            2 => k.user_reward_ata = vf::ensure_ata(&mut self.w.vm, &ob.lv_auth, &farm.rewards[ridx].mint),
            3 => {
                // reward 0 (the new mint) is harvested, but marginfi is told the reward mint is the bank's own
                k.reward_mint = b.mint;
                k.token_program = b.token_program;
                k.user_reward_ata = b.lv;
                k.destination_token_account = farm.rewards[1].fee_ata;
                self.add_tokens(&b.lv, 1_000 + amount / 2);
                st.label("doctored:harvest-prefund-liquidity-vault");
            }
            4 => k.liquidity_vault_authority = ob.lv_auth,
            5 => {
                k.bank = ob.key;
                k.liquidity_vault_authority = ob.lv_auth;
            }
            6 => {
                k.fee_state = self.fee_state_copy(sender, st);
                k.destination_token_account = vf::ensure_ata(&mut self.w.vm, &sender, &k.reward_mint);
            }
            _ => {}
        }
        if dest != 0 {
            k.destination_token_account = self.harvest_dest(dest, sender, &k.reward_mint.clone(), bi);
            must_refuse = true;
        }
        HarvestPlan {
            ix: vf::ix_harvest(&k),
            vname: KAMINO_VARIANTS[variant],
            must_refuse,
            pending: amount > 0,
            sources: farm.rewards.iter().map(|r| r.rewards_vault).collect(),
            detail: format!("reward #{ridx} ({} mint, {} decimals), pending {amount}", if ridx == 1 { "the bank's own" } else { "a new" }, farm.rewards[ridx].decimals),
        }
    }

    fn plan_drift(&mut self, bi: usize, sender: Pubkey, dest: u8, variant: u8, amount: u64, flavour: u8, st: &mut Stats) -> HarvestPlan {
        let variant = (variant % DRIFT_VARIANTS.len() as u8) as usize;
        let n = bi as u64;
        let b = self.w.banks[bi].clone();
        let v = vd::venue(&self.w, bi);
        let ob_i = self.other_bank(bi);
        let ob = self.w.banks[ob_i].clone();
        let ci = vd::CUM_INTEREST_ONE + flavour as u128 * 39_062_501;
        let base = 50 + 3 * bi as u16;
        let mut slot = 2 + ((flavour >> 2) % 6) as usize;
        // the market that is harvested
        let m = match variant {
            1 => vd::HarvestMarket { market_index: v.market_index, spot_market: v.spot_market, vault: v.vault, mint: b.mint, token_program: b.token_program, decimals: b.decimals },
            2 => vd::add_reward_market(&mut self.w, base + 1, b.mint, ci),
            3 if v.market_index != 0 => {
                // DRIFT keeps slot 0 for the quote market 0: an admin deposit of the quote asset lands there
                let qm = kp("harv_quote_mint", 0);
                if self.w.vm.get(&qm).is_none() {
                    self.w.vm.set(qm, spl_mint_acct(6));
                }
                slot = 0;
                vd::add_reward_market(&mut self.w, 0, qm, ci)
            }
            _ => {
                let rm = kp("harv_mint", n);
                if self.w.vm.get(&rm).is_none() {
                    let dec = [6u8, 9, 5, 8][((flavour >> 2) & 3) as usize];
                    self.w.vm.set(rm, if flavour & 2 != 0 { t22_mint_acct(dec, None) } else { spl_mint_acct(dec) });
                }
                if variant == 3 {
                    slot = 1; // the bank's own market is the quote market (slot 0): slot 1 is the first free one
                }
                vd::add_reward_market(&mut self.w, base, rm, ci)
            }
        };
        // the outside world: DRIFT's admin deposits `amount` tokens of that market for the bank's DRIFT user
        let mut scaled = 0u64;
        if variant != 1 && amount > 0 {
            match vd::admin_deposit(&mut self.w.vm, &v.user, &m, slot, amount) {
                Ok(d) => {
                    scaled = d;
                    st.label(&format!("doctored:drift-admin-deposit:slot{slot}"));
                }
                Err(_) => st.label("skip:drift-admin-deposit:slot-in-use"),
            }
        }
        let mut k = vd::harvest_keys(&self.w, bi, &m);
        let lv_auth = b.lv_auth;
        let fee_wallet = self.w.fee_wallet;
        let inter = vf::ensure_ata(&mut self.w.vm, &lv_auth, &m.mint);
        vf::ensure_ata(&mut self.w.vm, &fee_wallet, &m.mint);
        if flavour & 32 != 0 {
            self.add_tokens(&inter, 1 + amount % 997);
            st.label("doctored:harvest-dust-in-intermediary");
        }
        match variant {
            4 => {
                // the DRIFT user / user stats of another DRIFT bank; without one, copies of the bank's own at other addresses
                let (u2, s2) = if self.kind[ob_i] == Some(0) && ob_i != bi {
                    let o = vd::venue(&self.w, ob_i);
                    (o.user, o.user_stats)
                } else {
                    let (u2, s2) = (kp("harv_user_copy", n), kp("harv_user_stats_copy", n));
                    let a = self.w.vm.get(&v.user).expect("drift user").clone();
                    self.w.vm.set(u2, a);
                    let a = self.w.vm.get(&v.user_stats).expect("drift user stats").clone();
                    self.w.vm.set(s2, a);
                    st.label("doctored:harvest-drift-user-copy");
                    (u2, s2)
                };
                if flavour & 64 == 0 {
                    k.integration_acc_2 = u2;
                }
                k.integration_acc_3 = s2;
            }
            5 => {
                let t = kp("harv_intermediary", n);
                let a = vf::token_acct_of(&self.w.vm, &m.mint, lv_auth, 0);
                self.w.vm.set(t, a);
                k.intermediary_token_account = t;
            }
            6 => k.liquidity_vault_authority = ob.lv_auth,
            7 => {
                k.fee_state = self.fee_state_copy(sender, st);
                k.destination_token_account = vf::ensure_ata(&mut self.w.vm, &sender, &m.mint);
            }
            _ => {}
        }
        if dest != 0 {
            k.destination_token_account = self.harvest_dest(dest, sender, &m.mint, bi);
        }
        HarvestPlan {
            ix: vd::ix_harvest(&k),
            vname: DRIFT_VARIANTS[variant],
            must_refuse: variant != 0 || dest != 0,
            pending: scaled > 0,
            sources: if m.vault != v.vault { vec![m.vault] } else { vec![] },
            detail: format!("market {} ({} decimals{}), admin deposit of {amount} tokens = {scaled} scaled units in slot {slot}", m.market_index, m.decimals, if m.mint == b.mint { ", the bank's own mint" } else { "" }),
        }
    }

    /// `kamino_harvest_reward` / `drift_harvest_reward`. The set-up (farm / reward market, pending reward / admin deposit,
    /// token accounts) is the outside world acting and is written into the store right before the attempt; if the
    /// transaction does not commit the whole world is put back as it was, so that a refused attempt leaves no admin
    /// deposit behind (two or more active DRIFT deposits would make every later `drift_withdraw` demand reward accounts).
    fn op_harvest(&mut self, vb: u16, signer: u8, dest: u8, variant: u8, amount: u64, flavour: u8, st: &mut Stats) {
        let mut bi = self.venues[idx(vb, self.venues.len())];
        if self.kind[bi] == Some(2) {
            let cands: Vec<usize> = self.venues.iter().copied().filter(|b| self.kind[*b] != Some(2)).collect();
            if cands.is_empty() || vb % 4 == 0 {
                st.label("skip:harvest:solend-has-none");
                return;
            }
            bi = cands[idx(vb / 4, cands.len())];
        }
        let kn = self.kind_name(bi);
        let dest = dest % 4;
        let (sender, sender_name) = self.harvest_sender(signer);
        let saved = self.w.clone();
        let plan = if self.kind[bi] == Some(1) { self.plan_kamino(bi, sender, dest, variant, amount, flavour, st) } else { self.plan_drift(bi, sender, dest, variant, amount, flavour, st) };
        let legit = plan.vname == "none" && dest == 0;
        let what = format!("{kn}_harvest_reward on bank #{bi} sent by {sender_name} [{}; destination: {}; substitution: {}]", plan.detail, ["the fee wallet's ATA", "the sender's ATA", "the group admin's ATA", "a non-canonical account of the fee wallet"][dest as usize], plan.vname);
        let pre = self.w.vm.accts.clone();
        let own0 = if self.kind[bi] == Some(0) { self.backing(bi) } else { 0 };
        let gated = self.state[bi] != 1 || self.pause_in_force();
        let (ok, _) = self.exec(&[plan.ix.clone()]);
        let res = if ok { "accepted" } else { "refused" };
        if legit {
            if plan.pending {
                // the positive control
                st.label(&format!("{}:harvest:{kn}", if ok { "ok" } else { "fail" }));
            } else {
                st.label(&format!("harvest:{kn}:nothing-pending:{res}"));
            }
            st.label(&format!("harvest:sender{}:{res}", signer % 3));
            if gated && ok {
                st.label("harvest:committed-while-bank-or-protocol-gated");
            }
        } else {
            if plan.vname != "none" {
                st.label(&format!("harvest:{kn}:{}:{res}", plan.vname));
            }
            if dest != 0 {
                st.label(&format!("harvest:{kn}:dest{dest}:{res}"));
            }
        }
        // ---- (b) substitutions must not commit
        if !legit {
            st.eval("c08");
            if ok && plan.must_refuse {
                let which = if plan.vname != "none" { plan.vname.to_string() } else { format!("dest{dest}") };
                self.find("c08", &format!("harvest:accepted-substitution:{which}:{kn}"), format!("{what} was accepted"));
            } else if !ok && plan.pending {
                st.witness("c08:harvest-substitution-refused");
            }
        }
        if !ok {
            self.w = saved;
            return;
        }
        // ---- (a) where did tokens move? Every token account of the store is compared.
        st.eval("c08");
        st.eval("c03");
        let b = self.w.banks[bi].clone();
        let mut depositors: Vec<Pubkey> = vec![];
        for (i, x) in self.w.banks.iter().enumerate() {
            depositors.extend([x.lv, x.iv, x.fv]);
            if self.kind[i].is_some() {
                depositors.push(self.venue_vault(i));
            }
        }
        for u in &self.w.users {
            depositors.extend(u.tokens.iter().copied());
        }
        depositors.extend(self.stranger_tok.iter().copied());
        depositors.extend(self.admin_tok.iter().copied());
        let mut deltas: Vec<(Pubkey, Pubkey, Pubkey, i128)> = vec![];
        for (k, a1) in self.w.vm.accts.iter() {
            let a0 = pre.get(k);
            if a0.map(|x| std::sync::Arc::ptr_eq(x, a1)).unwrap_or(false) || !is_token_account(a1) {
                continue;
            }
            let n0 = a0.filter(|x| is_token_account(x)).map(|x| token_amount(&x.data)).unwrap_or(0);
            let d = token_amount(&a1.data) as i128 - n0 as i128;
            if d != 0 {
                deltas.push((*k, Pubkey::new_from_array(a1.data[..32].try_into().unwrap()), a1.owner, d));
            }
        }
        for (k, a0) in pre.iter() {
            if !self.w.vm.accts.contains_key(k) && is_token_account(a0) && token_amount(&a0.data) > 0 {
                deltas.push((*k, Pubkey::new_from_array(a0.data[..32].try_into().unwrap()), a0.owner, -(token_amount(&a0.data) as i128)));
            }
        }
        let mut fee_gain: i128 = 0;
        for (k, mint, prog, d) in &deltas {
            let fee_ata = ata(&self.w.fee_wallet, mint, prog);
            let inter = ata(&b.lv_auth, mint, prog);
            if *d > 0 {
                if *k == fee_ata {
                    fee_gain += *d;
                } else if *k == inter {
                    st.label("harvest:tokens-left-in-the-intermediary");
                } else {
                    self.find("c08", &format!("harvest:paid-elsewhere:{kn}"), format!("{what}: token account {k} (mint {mint}) gained {d} tokens; it is neither the global fee wallet's canonical ATA of that mint ({fee_ata}) nor the vault authority's own ATA"));
                }
            } else if plan.sources.contains(k) {
                // the venue's reward source paid
            } else if *k == inter {
                st.label("harvest:dust-in-the-intermediary-swept");
            } else if depositors.contains(k) {
                let role = if *k == b.lv {
                    "the bank's liquidity vault"
                } else if *k == self.venue_vault(bi) {
                    "the venue's vault of the bank's own market / reserve"
                } else {
                    "a bank vault / venue vault / user token account"
                };
                self.find("c03", &format!("harvest:took-from-depositors:{kn}"), format!("{what}: {role} {k} lost {} tokens", -d));
            } else {
                self.find("c08", &format!("harvest:took-from-unrelated:{kn}"), format!("{what}: token account {k} (mint {mint}), which is not a reward source of the venue, lost {} tokens", -d));
            }
        }
        if legit && fee_gain > 0 {
            st.witness("c08:harvest-paid");
        }
        // ---- (d) Drift: the bank's own position is not touched
        if self.kind[bi] == Some(0) {
            let own1 = self.backing(bi);
            if own1 != own0 {
                self.find("c03", "harvest:touched-own-market:drift", format!("{what}: the scaled balance of the bank's own spot position moved from {own0} to {own1}"));
            }
        }
        // ---- (c) ledger bit-exact, venue backing never decreases
        self.after_commit(&what, st);
        if st.harvest_samples.len() < 2 {
            st.harvest_samples.push(json!({"harvest": {"kind": kn, "bank": bi, "sender": sender_name, "destination": dest, "substitution": plan.vname, "set_up": plan.detail, "fee_wallet_ata_gained": fee_gain.to_string(), "token_accounts_changed": deltas.len()}}));
        }
    }
}

// ------------------------------------------------------------------------------------------
// one case
// ------------------------------------------------------------------------------------------
/// Run one case. Err((signature, message)) = first finding of family `fam`; findings of other families become
/// `cross:<PID>:<clause>` labels.
pub fn run_case(case: &VCase, fam: &str, st: &mut Stats) -> Result<(), (String, String)> {
    let mut r = match Runner::build(case) {
        Ok(r) => r,
        Err(e) => {
            st.label(&format!("world-rejected:{}", e.split(':').next().unwrap_or("?")));
            return Ok(());
        }
    };
    st.built = true;
    for v in &case.venues {
        st.label(&format!("venue-bank:{}:{}:dec{}:{}", KINDS[v.kind as usize], if v.feed.kind == 1 { "pyth" } else { "swb" }, v.decimals, if v.token == 0 { "spl" } else { "t22" }));
    }
    if case.venues.len() >= 9 {
        st.label("world:nine-or-more-venue-banks");
    }
    st.label(if case.exact { "venue-math:exact" } else { "venue-math:mocks" });
    for op in &case.ops {
        r.step(op, st);
        let fs: Vec<Finding> = r.findings.drain(..).collect();
        let mut hit: Option<(String, String)> = None;
        for f in fs {
            if f.fam == fam {
                if hit.is_none() {
                    hit = Some((format!("venue:{}:{}", f.fam, f.clause), f.msg));
                }
            } else {
                st.label(&format!("cross:{}:{}", pid_of(f.fam), f.clause));
            }
        }
        if let Some(h) = hit {
            return Err(h);
        }
    }
    Ok(())
}

pub fn rule(pid: &str) -> String {
    let common = "venue campaign (stateful proptest): generated worlds of 1-2 ordinary banks (bank 0 borrowable, funded by a lender) and 1-3 (one tenth / for C16 three eighths: 9-10) venue banks of generated kinds Kamino / Solend / Drift (decimals mostly 6 / 8 / 9, one mint in eight with unusual decimals 0-5, 7, 10-12 - for a Drift bank more than 9 decimals means one booked unit is worth 10^(d-9) native units -, SPL / plain Token-2022, Pyth with EMA != spot or Switchboard, confidence 0-3 %, initial venue rate 1.0-1.6 with ragged fixed-point digits, in a third of the worlds lowered again by a write-off of 0-100 % of the venue's borrowed liquidity (a reserve that socialised a loss: possibly BELOW par), reserve sizes 1e7-1e15, generated weights and deposit limits incl. tight ones; three fifths of the venue banks carry an e-mode tag that two fifths of the borrowable banks boost with generated entries, three sevenths a collateral-value cap of 1-50 000 $), 3 users + liquidator + lender with distinct roles; sequences of 8-40 generated ops (venue deposit / withdraw with absolute, relative and boundary amounts, with or without the venue refresh instructions, signed by authority / other user / stranger / unsigned authority key / group admin; borrow / repay on bank 0 sized by the reference borrowing power; ordinary deposits; venue interest accrual; venue losses (the exchange rate falls, possibly below par); waiting (clock and slot advance, price feeds refreshed, venue accounts NOT); venue refresh; price and confidence moves; bank paused / reduce-only / operational; killed (doctored, counted); protocol pause with / without propagation; limits; classic liquidation; receivership brackets [refresh.., start, venue withdraw, repay, end]; freeze; distress (price solved for a maintenance health slightly below / above zero); disabling by transfer / bankruptcy; substitution probes on copies of the world (15 % of the worlds, 60 % for C08, have a second group - creating one is permissionless - with one venue bank of every kind in use); the two permissionless harvest instructions kamino_harvest_reward / drift_harvest_reward - Solend has none -: a fake Kamino farm whose user state of the bank's vault authority gets a generated pending reward of a new mint (SPL / Token-2022, 0-9 decimals) or of the bank's own mint, resp. a generated Drift `admin deposit` of a further spot market written into slot 2-7 of the bank's Drift user - both the outside world acting, doctored and counted -, sent by user 0 / user 1 / a stranger (the instructions have no signer account), paid to the fee wallet's canonical ATA or - hostile - the sender's ATA / the group admin's ATA / a non-canonical account of the fee wallet, optionally with ONE hostile substitution (Kamino: user_reward_ata = the bank's pre-funded liquidity vault / another bank's reward ATA, the bank's mint passed as reward mint, vault authority / bank of another bank, a copy of the fee state naming the sender as fee wallet; Drift: harvest of the bank's own market / of another market of the bank's mint / of a market whose position sits in slot 0-1, Drift user or user stats of another bank, a non-ATA intermediary, vault authority of another bank, fee-state copy), optionally with dust waiting in the intermediary account; an attempt that does not commit is rolled back together with its set-up) executed through marginfi::entry and the fake venue programs; three quarters of the cases with the venues converting as the mocks crates do (Kamino / Solend I80F48 rates; the Drift fake then calls drift_mocks' own get_scaled_balance_* helpers, i.e. it behaves exactly as marginfi's handlers predict), one quarter with exact floor arithmetic / Drift's own formulas. ";
    let own = match pid {
        "C02" => "C02 family: after every committed transaction, for every venue bank d(total_asset_shares) == sum over all accounts d(asset_shares) bit-exactly (a closure may leave the total above by < 0.0001 units), the total never below the sum, no liability shares in venue banks. Non-trivial = a case in which two accounts held the same venue bank and a venue withdraw succeeded.",
        "C03" => "C03 family: successful venue deposit: source token account moved by exactly `amount`, shares credited x EXACT venue rate <= amount (allowance: the derived bound of the mocks' I80F48 rate, ~1e-12 relative, + 4 ulp); successful venue withdraw (also `all`): tokens received <= shares removed x exact rate (same allowance; integer tokens, so `all` pays <= floor(value)); after every committed transaction - including every committed harvest - (venue position - booked shares) never decreases; a committed harvest leaves the balance of the bank's liquidity vault, of the venue's vault of the bank's own market / reserve, of every other bank / venue vault and of every user token account where it was (harvest:took-from-depositors) and does not move the scaled balance of a Drift bank's own spot position (harvest:touched-own-market). Non-trivial = a successful venue deposit or withdraw of a positive amount at a venue rate != 1.",
        "C04" => "C04 family: after every successful borrow and every successful venue withdraw outside a bracket the reference initial health (model.rs: feed view x exact venue rate with the derived slack, a venue not refreshed in the current slot / second worth nothing) is not definitely negative and defined; a venue withdraw / borrow refused with the risk engine's code is replayed inside a flash-loan bracket and the state it would have produced must not be healthy beyond the enclosure. Non-trivial = a success with debt and the converse evaluated in the same campaign case, or a success at the reference frontier.",
        "C08" => "C08 family: a venue deposit / withdraw signed by another user, a stranger, the group admin (account not frozen) or carrying the authority's key without the signature bit must fail; on a frozen account the authority must fail (the admin may act: counted). Substitution probes (on copies; positive control: the well-formed deposit / withdraw commits): the same instruction with every account slot that marginfi binds to the bank - bank, liquidity vault, vault authority, mint, integration accounts 1-3 - replaced, one at a time and all at once, by the corresponding account of another bank of the same venue kind (the foreign group's, another home bank's), and the foreign group's bank with ALL of its own consistent accounts (only group, marginfi account and authority are the caller's): nothing may commit (substitution-accepted). Harvest: a harvest with a destination other than the global fee wallet's canonical ATA of the reward mint, or with a substituted account that belongs to another bank / wallet / market (every hostile form above except `user_reward_ata = the bank's own liquidity vault` with the bank's own mint as reward, which is the same bank's account and is judged by its effect only), must not commit (harvest:accepted-substitution); after every committed harvest all token accounts of the store are compared: the only account that may have gained tokens is the fee wallet's canonical ATA of that mint (tokens left in the vault authority's own ATA are labelled) - else harvest:paid-elsewhere -, the only accounts that may have lost tokens are the venue's reward source (the farm's rewards vaults / the vault of the harvested, foreign Drift market) and dust in the vault authority's ATA - else harvest:took-from-unrelated, or C03's harvest:took-from-depositors; the legitimate form is the positive control (labels ok:/fail:harvest:<kind>). Non-trivial = a case with a refused unauthorised attempt on a funded position, an admin action on a frozen account, a refused substitution, a legitimate harvest that paid the fee wallet, or a refused hostile harvest of a pending reward.",
        "C09" => "C09 family: with a venue position (>= 1 share) whose venue account was not refreshed in the current slot (Kamino / Solend) / second (Drift): start_liquidation (bracket), classic liquidation and bankruptcy must fail; a borrow / venue withdraw that succeeds must be covered with the stale position counted as worthless. Non-trivial = a case in which such an instruction was attempted on a stale venue holder.",
        "C10" => "C10 family: a committed bracket [venue refresh.., start_liquidation, <venue>_withdraw, repay, end_liquidation] signed only by the liquidator => the reference maintenance health at start (after the refresh instructions) was not definitely positive, health at the end not definitely worse and not definitely positive, value seized <= value repaid x (1 + max(5 %, configured max fee)) under both price readings unless assets were worth < $5, receivership flag and receiver cleared, the liquidator received exactly the tokens that left the venue's vault. Non-trivial = a committed bracket.",
        "C14" => "C14 family (operational state tracked from the accepted admin instructions): paused / killed venue bank: no venue deposit, withdraw, classic liquidation or bracket touching it succeeds; reduce-only: deposit refused, a refused withdraw of a debt-free account must also be refused on a copy with the bank operational; protocol pause in force for the group (propagated, not expired): venue deposit / withdraw / borrow / repay refused; after expiry without propagation a refused venue deposit / withdraw must also be refused on a copy whose group never heard of the pause. Non-trivial = a gated refusal was observed.",
        "C16" => "C16 family: after every committed transaction every account: <= 8 integration positions, <= 16 positions, active slots strictly descending by bank key, tag recorded at open == bank tag and never changes, no staked / default mix; a disabled account cannot venue-deposit / withdraw (probed right after disabling). Non-trivial = an account reached 8 integration positions or a further one was refused at the cap, or a disabled account was probed.",
        "C17" => "C17 family: after a successful venue deposit that grew the total, total deposits in the unit the bank books (collateral units; Drift: 9-decimal scaled units against limit x 10^(9-decimals)) are below the deposit limit. Non-trivial = a case with a capacity refusal or an accepted deposit generated at the capacity frontier.",
        _ => "",
    };
    format!("{common}{own}")
}

fn nontrivial(fam: &str, st: &Stats) -> bool {
    let has = |p: &str| st.witnesses.iter().any(|w| w.starts_with(p));
    match fam {
        "c02" => st.labels.keys().any(|k| k.starts_with("ok:vwithdraw")) && st.labels.keys().any(|k| k.starts_with("ok:vdeposit")),
        "c03" => has("c03:"),
        "c04" => (has("c04:success-with-debt") && has("c04:converse-checked")) || has("c04:borrow-accepted-at-frontier"),
        "c08" => has("c08:"),
        "c09" => has("c09:"),
        "c10" => has("c10:"),
        "c14" => has("c14:"),
        "c16" => has("c16:"),
        "c17" => has("c17:"),
        _ => false,
    }
}

fn dev_level() -> u8 {
    std::env::var("MFV_VC_LEVEL").ok().and_then(|s| s.parse().ok()).unwrap_or(9)
}

/// The venue campaign as an additional half of property `pid`; merges into `rep` (which keeps its own rule / floor).
pub fn run(ctx: &Ctx, pid: &str, rep: &mut Report) {
    let fam = fam_of(pid);
    if fam == "none" {
        return;
    }
    let level = dev_level();
    // development aid: generate as for `pid` but report the findings of another family (to chase a `cross:` label)
    let target_s = std::env::var("MFV_VC_TARGET").unwrap_or_else(|_| fam.to_string());
    let target: &str = &target_s;
    let total: u32 = std::env::var("MFV_VC_CASES").ok().and_then(|s| s.parse().ok()).unwrap_or(ctx.tier.pick(2500, 25_000));
    let rule_text = rule(pid);
    // two phases because the Solend fake's math mode is process-wide: all workers run the same mode at the same time
    for (phase, exact, cases) in [(0u64, false, total - total / 4), (1u64, true, total / 4)] {
        vs::set_math_mode(if exact { vs::MathMode::Wad } else { vs::MathMode::Mocks });
        let part = par_workers(ctx.threads, |wi| {
            let mut rep = Report::new(&rule_text);
            let strat = case_strategy(fam, exact, level);
            let (mut n_generic, mut n_harvest) = (0usize, 0usize);
            let outcome = run_prop(ctx.seed_bytes(if phase == 0 { "venuecamp" } else { "venuecamp-exact" }, wi as u64), cases, &strat, |c, counting| {
                let mut st = Stats::default();
                let r = run_case(c, target, &mut st);
                if counting {
                    rep.eval();
                    rep.add_extra("venuecamp_ops", c.ops.len() as u64);
                    for (k, n) in &st.labels {
                        rep.label_n(&format!("venue:{k}"), *n);
                    }
                    for (k, n) in &st.evals {
                        rep.add_extra(&format!("venuecamp_clause_evaluations_{k}"), *n);
                    }
                    if nontrivial(fam, &st) {
                        let mut ws: Vec<&String> = st.witnesses.iter().filter(|w| w.starts_with(fam)).collect();
                        ws.sort();
                        rep.nontrivial_case(&json!({"half": "venuecamp", "w": ws, "v": c.venues.iter().map(|v| (v.kind, v.decimals, v.feed.kind)).collect::<Vec<_>>(), "n": c.ops.len(), "x": exact}));
                        if n_generic < 2 {
                            for s in st.samples.iter().take(2) {
                                rep.sample(s.clone());
                                n_generic += 1;
                            }
                        }
                    }
                    // one committed harvest per worker, whatever the family
                    if n_harvest < 1 {
                        if let Some(s) = st.harvest_samples.first() {
                            rep.sample(s.clone());
                            n_harvest += 1;
                        }
                    }
                }
                r.map_err(|(s, m)| format!("{s}|{m}"))
            });
            if let Some((c, msg)) = outcome.failure {
                let (sig, m) = msg.split_once('|').map(|(a, b)| (a.to_string(), b.to_string())).unwrap_or((msg.clone(), msg.clone()));
                let mut v = serde_json::to_value(&c).unwrap();
                v["half"] = json!("venuecamp");
                rep.violation(&sig, m, v);
            }
            rep
        });
        let floor = rep.nontrivial_floor;
        let rule_keep = rep.rule.clone();
        rep.merge(part);
        rep.nontrivial_floor = floor;
        rep.rule = rule_keep;
    }
    vs::set_math_mode(vs::MathMode::Mocks);
    if !rep.rule.contains("venue campaign") {
        rep.rule = format!("{} || SECOND HALF: {}", rep.rule, rule_text);
    }
}

pub fn replay(_ctx: &Ctx, pid: &str, case: &Value) -> Report {
    let mut rep = Report::new(&rule(pid));
    rep.nontrivial_floor = 0;
    let mut v = case.clone();
    if let Some(o) = v.as_object_mut() {
        o.remove("half");
    }
    match serde_json::from_value::<VCase>(v) {
        Ok(c) => {
            let mut st = Stats::default();
            rep.eval();
            if let Err((sig, msg)) = run_case(&c, fam_of(pid), &mut st) {
                rep.violation(&sig, msg, case.clone());
            }
            for (k, n) in &st.labels {
                rep.label_n(&format!("venue:{k}"), *n);
            }
            vs::set_math_mode(vs::MathMode::Mocks);
        }
        Err(e) => rep.engine_errors.push(format!("bad replay: {e}")),
    }
    rep
}
