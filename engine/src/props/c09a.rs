//! C09 (pure-function half): oracle safety of the public price adapter API
//! `marginfi::state::price::{OraclePriceFeedAdapter, PriceAdapter}`.
//!
//! The oracle is written from the property statement with exact rationals:
//!   usable  ==>  key == configured key  AND owner == expected program AND discriminator/layout ok
//!                AND (Pyth) verification Full AND now - publish_time <= max_age
//!                AND k*sigma <= price * max_conf/u32::MAX       (k = 2.12 Pyth, 1.96 Switchboard)
//!   low  = p - min(k*sigma, p/20),  high = p + min(k*sigma, p/20),  low <= p <= high
//! Only the "only if" direction is asserted (a rejection of an allowed feed is counted, not alarmed).
use crate::common::{self, Ctx, Report};
use crate::num::*;
use fixed::types::I80F48;
use marginfi::state::price::{OraclePriceFeedAdapter, OraclePriceType, PriceAdapter, PriceBias};
use marginfi_type_crate::types::{Bank, OracleSetup};
use num_bigint::BigInt;
use num_traits::{Signed, ToPrimitive, Zero};
use proptest::prelude::*;
use serde_json::{json, Value};
use solana_program::{account_info::AccountInfo, clock::Clock, program_stubs, pubkey::Pubkey};
use std::cell::RefCell;
use std::panic::{catch_unwind, AssertUnwindSafe};

// ------------------------------------------------------------------------------------------------
// Account fabrication (re-used by the instruction-level half)
// ------------------------------------------------------------------------------------------------
pub mod fab {
    use super::*;

    /// Raw account contents + owner program
    #[derive(Clone, Debug)]
    pub struct Fab {
        pub data: Vec<u8>,
        pub owner: Pubkey,
    }

    pub fn pyth_owner() -> Pubkey {
        pyth_solana_receiver_sdk::ID
    }
    pub fn switchboard_owner() -> Pubkey {
        marginfi::constants::SWITCHBOARD_PULL_ID
    }
    pub fn kamino_owner() -> Pubkey {
        kamino_mocks::ID
    }
    pub fn solend_owner() -> Pubkey {
        solend_mocks::ID
    }
    pub fn drift_owner() -> Pubkey {
        drift_mocks::ID
    }
    pub fn stake_owner() -> Pubkey {
        marginfi::constants::NATIVE_STAKE_ID
    }

    /// Pyth `PriceUpdateV2` (Anchor discriminator + borsh). `partial_sigs = None` means
    /// `VerificationLevel::Full`, `Some(n)` means `Partial { num_signatures: n }`.
    #[allow(clippy::too_many_arguments)]
    pub fn pyth_price_update(
        price: i64,
        conf: u64,
        ema_price: i64,
        ema_conf: u64,
        expo: i32,
        publish_time: i64,
        partial_sigs: Option<u8>,
        feed_id: [u8; 32],
    ) -> Fab {
        use anchor_lang::{AnchorSerialize, Discriminator};
        use pyth_solana_receiver_sdk::price_update::{PriceFeedMessage, PriceUpdateV2, VerificationLevel};
        let p = PriceUpdateV2 {
            write_authority: Pubkey::default(),
            verification_level: match partial_sigs {
                None => VerificationLevel::Full,
                Some(n) => VerificationLevel::Partial { num_signatures: n },
            },
            price_message: PriceFeedMessage {
                feed_id,
                price,
                conf,
                exponent: expo,
                publish_time,
                prev_publish_time: publish_time.saturating_sub(1),
                ema_price,
                ema_conf,
            },
            posted_slot: 1,
        };
        let mut d = PriceUpdateV2::DISCRIMINATOR.to_vec();
        p.serialize(&mut d).unwrap();
        Fab { data: d, owner: pyth_owner() }
    }

    /// Switchboard on-demand `PullFeedAccountData`; `value`/`std_dev` are scaled by 1e18.
    pub fn switchboard_pull_feed(value: i128, std_dev: i128, last_update_timestamp: i64) -> Fab {
        use switchboard_on_demand::{Discriminator as SwbDisc, PullFeedAccountData};
        let mut feed: PullFeedAccountData = bytemuck::Zeroable::zeroed();
        feed.result.value = value;
        feed.result.std_dev = std_dev;
        feed.result.mean = value;
        feed.result.min_value = value;
        feed.result.max_value = value;
        feed.result.num_samples = 1;
        feed.last_update_timestamp = last_update_timestamp;
        let mut d = <PullFeedAccountData as SwbDisc>::DISCRIMINATOR.to_vec();
        d.extend_from_slice(bytemuck::bytes_of(&feed));
        Fab { data: d, owner: switchboard_owner() }
    }

    /// Kamino `MinimalReserve`. `*_sf` are U68F60 bit patterns (value * 2^60), token amounts in
    /// native units. total liquidity = available + borrowed - protocol - referrer - pending.
    #[allow(clippy::too_many_arguments)]
    pub fn kamino_reserve(
        slot: u64,
        available_amount: u64,
        borrowed_amount_sf: u128,
        accumulated_protocol_fees_sf: u128,
        accumulated_referrer_fees_sf: u128,
        pending_referrer_fees_sf: u128,
        mint_total_supply: u64,
        mint_decimals: u64,
    ) -> Fab {
        let mut r: kamino_mocks::state::MinimalReserve = bytemuck::Zeroable::zeroed();
        r.version = 1;
        r.slot = slot;
        r.stale = 0;
        r.price_status = 63;
        r.available_amount = available_amount;
        r.borrowed_amount_sf = borrowed_amount_sf.to_le_bytes();
        r.accumulated_protocol_fees_sf = accumulated_protocol_fees_sf.to_le_bytes();
        r.accumulated_referrer_fees_sf = accumulated_referrer_fees_sf.to_le_bytes();
        r.pending_referrer_fees_sf = pending_referrer_fees_sf.to_le_bytes();
        r.mint_total_supply = mint_total_supply;
        r.mint_decimals = mint_decimals;
        let mut d = kamino_mocks::state::RESERVE_DISCRIMINATOR.to_vec();
        d.extend_from_slice(bytemuck::bytes_of(&r));
        Fab { data: d, owner: kamino_owner() }
    }

    /// Solend reserve (619 bytes, version byte 1 doubles as the discriminator). `*_wads` are
    /// value * 1e18. total liquidity = available + borrowed - protocol fees.
    pub fn solend_reserve(
        last_update_slot: u64,
        liquidity_available_amount: u64,
        liquidity_borrowed_amount_wads: u128,
        liquidity_accumulated_protocol_fees_wads: u128,
        collateral_mint_total_supply: u64,
        liquidity_mint_decimals: u8,
    ) -> Fab {
        let mut r: solend_mocks::state::SolendMinimalReserve = bytemuck::Zeroable::zeroed();
        r.last_update_slot = last_update_slot;
        r.last_update_stale = 0;
        r.liquidity_mint_decimals = liquidity_mint_decimals;
        r.liquidity_available_amount = liquidity_available_amount;
        r.liquidity_borrowed_amount_wads = liquidity_borrowed_amount_wads.to_le_bytes();
        r.liquidity_accumulated_protocol_fees_wads = liquidity_accumulated_protocol_fees_wads.to_le_bytes();
        r.collateral_mint_total_supply = collateral_mint_total_supply;
        let mut d = solend_mocks::state::RESERVE_DISCRIMINATOR.to_vec();
        d.extend_from_slice(bytemuck::bytes_of(&r));
        Fab { data: d, owner: solend_owner() }
    }

    /// Drift `MinimalSpotMarket`; exchange rate = cumulative_deposit_interest / 1e10.
    pub fn drift_spot_market(cumulative_deposit_interest: u128, last_interest_ts: u64, decimals: u32, market_index: u16) -> Fab {
        let mut m: drift_mocks::state::MinimalSpotMarket = bytemuck::Zeroable::zeroed();
        m.cumulative_deposit_interest = cumulative_deposit_interest.to_le_bytes();
        m.cumulative_borrow_interest = cumulative_deposit_interest.to_le_bytes();
        m.last_interest_ts = last_interest_ts;
        m.decimals = decimals;
        m.market_index = market_index;
        let mut d = drift_mocks::state::SPOT_MARKET_DISCRIMINATOR.to_vec();
        d.extend_from_slice(bytemuck::bytes_of(&m));
        Fab { data: d, owner: drift_owner() }
    }

    /// SPL-Token mint of the LST of a single-validator pool (9 decimals).
    pub fn lst_mint(supply: u64) -> Fab {
        use solana_program::program_option::COption;
        use solana_program::program_pack::Pack;
        let m = spl_token::state::Mint {
            mint_authority: COption::None,
            supply,
            decimals: 9,
            is_initialized: true,
            freeze_authority: COption::None,
        };
        let mut d = vec![0u8; spl_token::state::Mint::LEN];
        spl_token::state::Mint::pack(m, &mut d).unwrap();
        Fab { data: d, owner: spl_token::ID }
    }

    /// Native stake account in state `StakeStateV2::Stake` with `delegation.stake = delegated_stake`
    /// (bincode/borsh layout written by hand, 200 bytes like the real account).
    pub fn stake_account(delegated_stake: u64) -> Fab {
        let mut d = Vec::with_capacity(200);
        d.extend_from_slice(&2u32.to_le_bytes()); // StakeStateV2::Stake
        d.extend_from_slice(&2_282_880u64.to_le_bytes()); // meta.rent_exempt_reserve
        d.extend_from_slice(&[7u8; 32]); // authorized.staker
        d.extend_from_slice(&[8u8; 32]); // authorized.withdrawer
        d.extend_from_slice(&0i64.to_le_bytes()); // lockup.unix_timestamp
        d.extend_from_slice(&0u64.to_le_bytes()); // lockup.epoch
        d.extend_from_slice(&[0u8; 32]); // lockup.custodian
        d.extend_from_slice(&[9u8; 32]); // delegation.voter_pubkey
        d.extend_from_slice(&delegated_stake.to_le_bytes()); // delegation.stake
        d.extend_from_slice(&0u64.to_le_bytes()); // activation_epoch
        d.extend_from_slice(&u64::MAX.to_le_bytes()); // deactivation_epoch
        d.extend_from_slice(&0.25f64.to_le_bytes()); // warmup_cooldown_rate (deprecated)
        d.extend_from_slice(&0u64.to_le_bytes()); // credits_observed
        d.push(0); // stake flags
        d.resize(200, 0);
        Fab { data: d, owner: stake_owner() }
    }

    /// A zeroed `Bank` with only the oracle-related configuration filled in.
    pub fn pod_bank(setup: OracleSetup, keys: &[Pubkey], max_age: u16, max_conf: u32, fixed_price_bits: i128) -> Bank {
        let mut b: Bank = bytemuck::Zeroable::zeroed();
        b.config.oracle_setup = setup;
        for (i, k) in keys.iter().enumerate().take(b.config.oracle_keys.len()) {
            b.config.oracle_keys[i] = *k;
        }
        b.config.oracle_max_age = max_age;
        b.config.oracle_max_confidence = max_conf;
        b.config.fixed_price = I80F48::from_bits(fixed_price_bits).into();
        b.mint_decimals = 9;
        b
    }
}

// ------------------------------------------------------------------------------------------------
// syscall stubs: Solend's `is_stale()` reads `Clock::get()`
// ------------------------------------------------------------------------------------------------
thread_local! {
    static TL_CLOCK: RefCell<Clock> = RefCell::new(Clock::default());
}
struct Stubs;
impl program_stubs::SyscallStubs for Stubs {
    fn sol_log(&self, _m: &str) {}
    fn sol_log_data(&self, _f: &[&[u8]]) {}
    fn sol_get_clock_sysvar(&self, var_addr: *mut u8) -> u64 {
        TL_CLOCK.with(|c| unsafe { *(var_addr as *mut Clock) = c.borrow().clone() });
        0
    }
}

// ------------------------------------------------------------------------------------------------
// Case
// ------------------------------------------------------------------------------------------------
const K_NONE: u8 = 0;
const K_PYTH_LEGACY: u8 = 1;
const K_SWB_V2: u8 = 2;
const K_PYTH: u8 = 3;
const K_SWB: u8 = 4;
const K_STAKED: u8 = 5;
const K_KAMINO_PYTH: u8 = 6;
const K_KAMINO_SWB: u8 = 7;
const K_FIXED: u8 = 8;
const K_DRIFT_PYTH: u8 = 9;
const K_DRIFT_SWB: u8 = 10;
const K_SOLEND_PYTH: u8 = 11;
const K_SOLEND_SWB: u8 = 12;

fn kind_name(k: u8) -> &'static str {
    match k {
        K_NONE => "None",
        K_PYTH_LEGACY => "PythLegacy",
        K_SWB_V2 => "SwitchboardV2",
        K_PYTH => "PythPushOracle",
        K_SWB => "SwitchboardPull",
        K_STAKED => "StakedWithPythPush",
        K_KAMINO_PYTH => "KaminoPythPush",
        K_KAMINO_SWB => "KaminoSwitchboardPull",
        K_FIXED => "Fixed",
        K_DRIFT_PYTH => "DriftPythPull",
        K_DRIFT_SWB => "DriftSwitchboardPull",
        K_SOLEND_PYTH => "SolendPythPull",
        K_SOLEND_SWB => "SolendSwitchboardPull",
        _ => "?",
    }
}
fn setup_of(k: u8) -> OracleSetup {
    match k {
        K_NONE => OracleSetup::None,
        K_PYTH_LEGACY => OracleSetup::PythLegacy,
        K_SWB_V2 => OracleSetup::SwitchboardV2,
        K_PYTH => OracleSetup::PythPushOracle,
        K_SWB => OracleSetup::SwitchboardPull,
        K_STAKED => OracleSetup::StakedWithPythPush,
        K_KAMINO_PYTH => OracleSetup::KaminoPythPush,
        K_KAMINO_SWB => OracleSetup::KaminoSwitchboardPull,
        K_FIXED => OracleSetup::Fixed,
        K_DRIFT_PYTH => OracleSetup::DriftPythPull,
        K_DRIFT_SWB => OracleSetup::DriftSwitchboardPull,
        K_SOLEND_PYTH => OracleSetup::SolendPythPull,
        _ => OracleSetup::SolendSwitchboardPull,
    }
}
fn is_deprecated(k: u8) -> bool {
    matches!(k, K_NONE | K_PYTH_LEGACY | K_SWB_V2)
}
/// the price account is a Pyth PriceUpdateV2 (deprecated kinds are fed a Pyth/Switchboard account too)
fn is_pyth(k: u8) -> bool {
    matches!(k, K_PYTH | K_STAKED | K_KAMINO_PYTH | K_DRIFT_PYTH | K_SOLEND_PYTH | K_NONE | K_PYTH_LEGACY)
}
fn is_swb(k: u8) -> bool {
    matches!(k, K_SWB | K_KAMINO_SWB | K_DRIFT_SWB | K_SOLEND_SWB | K_SWB_V2)
}
#[derive(Clone, Copy, PartialEq, Eq, Debug)]
enum Aux {
    None,
    Kamino,
    Drift,
    Solend,
    Staked,
}
fn aux_of(k: u8) -> Aux {
    match k {
        K_KAMINO_PYTH | K_KAMINO_SWB => Aux::Kamino,
        K_DRIFT_PYTH | K_DRIFT_SWB => Aux::Drift,
        K_SOLEND_PYTH | K_SOLEND_SWB => Aux::Solend,
        K_STAKED => Aux::Staked,
        _ => Aux::None,
    }
}

// faults
const F_NONE: u8 = 0;
const F_KEY: u8 = 1; // an otherwise valid account at a key different from the configured one
const F_OWNER_ORACLE: u8 = 2; // price account owned by another program
const F_OWNER_AUX: u8 = 3; // reserve / spot market / LST mint owned by another program
const F_DISC: u8 = 4; // corrupted discriminator
const F_TRUNC: u8 = 5; // data shorter than the account layout
const F_COUNT: u8 = 6; // wrong number of accounts
const F_AUX_STALE: u8 = 7; // reserve / spot market not refreshed
const F_SWAP: u8 = 8; // accounts passed in the wrong order

fn fault_name(f: u8) -> &'static str {
    match f {
        F_NONE => "none",
        F_KEY => "key",
        F_OWNER_ORACLE => "owner",
        F_OWNER_AUX => "aux-owner",
        F_DISC => "discriminator",
        F_TRUNC => "truncated",
        F_COUNT => "account-count",
        F_AUX_STALE => "aux-stale",
        F_SWAP => "swapped",
        _ => "?",
    }
}

#[derive(Clone, Debug, PartialEq)]
pub struct Case {
    kind: u8,
    // Pyth message
    price: i64,
    conf: u64,
    ema_price: i64,
    ema_conf: u64,
    expo: i32,
    partial_sigs: Option<u8>,
    // Switchboard result (1e18 scaled)
    swb_value: i128,
    swb_std: i128,
    // Fixed
    fixed_bits: i128,
    // time
    now: i64,
    slot: u64,
    publish_time: i64,
    cfg_max_age: u16,
    explicit_max_age: Option<u64>,
    max_conf: u32,
    // fault
    fault: u8,
    fault_arg: u16,
    // exchange-rate state
    liq_available: u64,
    liq_borrowed: u128, // kamino: U68F60 bits, solend: wads
    liq_fees: u128,     // same unit
    col_supply: u64,
    decimals: u8,
    drift_cum: u128,
    stake: u64,
    lst_supply: u64,
    aux_off: i64, // freshness of the reserve/spot market relative to slot/now (negative = stale)
}

fn case_json(c: &Case) -> Value {
    json!({
        "half": "c09a",
        "kind": c.kind, "kind_name": kind_name(c.kind),
        "price": c.price, "conf": c.conf, "ema_price": c.ema_price, "ema_conf": c.ema_conf, "expo": c.expo,
        "partial_sigs": c.partial_sigs,
        "swb_value": c.swb_value.to_string(), "swb_std": c.swb_std.to_string(),
        "fixed_bits": c.fixed_bits.to_string(),
        "now": c.now, "slot": c.slot, "publish_time": c.publish_time,
        "cfg_max_age": c.cfg_max_age, "explicit_max_age": c.explicit_max_age, "max_conf": c.max_conf,
        "fault": c.fault, "fault_name": fault_name(c.fault), "fault_arg": c.fault_arg,
        "liq_available": c.liq_available, "liq_borrowed": c.liq_borrowed.to_string(), "liq_fees": c.liq_fees.to_string(),
        "col_supply": c.col_supply, "decimals": c.decimals, "drift_cum": c.drift_cum.to_string(),
        "stake": c.stake, "lst_supply": c.lst_supply, "aux_off": c.aux_off,
    })
}

fn case_from_json(v: &Value) -> Option<Case> {
    let s128 = |k: &str| -> Option<i128> { v.get(k)?.as_str()?.parse::<i128>().ok() };
    let u128s = |k: &str| -> Option<u128> { v.get(k)?.as_str()?.parse::<u128>().ok() };
    Some(Case {
        kind: v.get("kind")?.as_u64()? as u8,
        price: v.get("price")?.as_i64()?,
        conf: v.get("conf")?.as_u64()?,
        ema_price: v.get("ema_price")?.as_i64()?,
        ema_conf: v.get("ema_conf")?.as_u64()?,
        expo: v.get("expo")?.as_i64()? as i32,
        partial_sigs: v.get("partial_sigs").and_then(|x| x.as_u64()).map(|x| x as u8),
        swb_value: s128("swb_value")?,
        swb_std: s128("swb_std")?,
        fixed_bits: s128("fixed_bits")?,
        now: v.get("now")?.as_i64()?,
        slot: v.get("slot")?.as_u64()?,
        publish_time: v.get("publish_time")?.as_i64()?,
        cfg_max_age: v.get("cfg_max_age")?.as_u64()? as u16,
        explicit_max_age: v.get("explicit_max_age").and_then(|x| x.as_u64()),
        max_conf: v.get("max_conf")?.as_u64()? as u32,
        fault: v.get("fault")?.as_u64()? as u8,
        fault_arg: v.get("fault_arg")?.as_u64()? as u16,
        liq_available: v.get("liq_available")?.as_u64()?,
        liq_borrowed: u128s("liq_borrowed")?,
        liq_fees: u128s("liq_fees")?,
        col_supply: v.get("col_supply")?.as_u64()?,
        decimals: v.get("decimals")?.as_u64()? as u8,
        drift_cum: u128s("drift_cum")?,
        stake: v.get("stake")?.as_u64()?,
        lst_supply: v.get("lst_supply")?.as_u64()?,
        aux_off: v.get("aux_off")?.as_i64()?,
    })
}

// ------------------------------------------------------------------------------------------------
// Generator (construction from 16 selectors + 16 payload words; selector 0 = the plainest choice)
// ------------------------------------------------------------------------------------------------
type Raw = ([u16; 16], [u64; 16]);

/// weighted choice: index of the bucket that `sel` falls in
fn wpick(sel: u16, weights: &[u32]) -> usize {
    let total: u64 = weights.iter().map(|w| *w as u64).sum();
    let x = (sel as u64 * total) >> 16;
    let mut acc = 0u64;
    for (i, w) in weights.iter().enumerate() {
        acc += *w as u64;
        if x < acc {
            return i;
        }
    }
    weights.len() - 1
}
/// log-uniform unsigned integer with between min_bits and max_bits significant bits
fn lu(pay: u64, min_bits: u32, max_bits: u32) -> u128 {
    let e = min_bits + (pay % (max_bits - min_bits + 1) as u64) as u32;
    if e == 0 {
        return 0;
    }
    let r = (common::splitmix(pay) as u128) << 64 | common::splitmix(pay ^ 0xabcdef) as u128;
    let top = 1u128 << (e - 1);
    top | (r & (top - 1))
}
fn clamp_i64(x: i128) -> i64 {
    x.clamp(i64::MIN as i128, i64::MAX as i128) as i64
}
fn clamp_u64(x: &BigInt) -> u64 {
    if x.is_negative() {
        0
    } else {
        x.to_u64().unwrap_or(u64::MAX)
    }
}
fn clamp_i128(x: &BigInt) -> i128 {
    x.to_i128().unwrap_or(if x.is_negative() { i128::MIN } else { i128::MAX })
}

const U32MAX: u64 = 4_294_967_295;
const DEFAULT_MAX_CONF: u64 = 429_496_730; // documented default ("10 %", U32_MAX_DIV_10)

fn eff_max_conf(mc: u32) -> u64 {
    if mc == 0 {
        DEFAULT_MAX_CONF
    } else {
        mc as u64
    }
}

fn gen_price(sel: u16, pay: u64) -> i64 {
    match wpick(sel, &[40, 14, 12, 6, 6, 6, 4, 6, 3, 3]) {
        0 => lu(pay, 14, 44) as i64,             // typical mantissas
        1 => lu(pay, 1, 13) as i64,              // small
        2 => lu(pay, 45, 63) as i64,             // large
        3 => 0,
        4 => i64::MAX - (pay % 3) as i64,
        5 => -(lu(pay, 1, 44) as i64),
        6 => [-1i64, i64::MIN, i64::MIN + 1, -2][(pay % 4) as usize],
        7 => 10i64.pow((pay % 19) as u32),       // exact powers of ten
        8 => 1,
        _ => 2 + (pay % 8) as i64,
    }
}

/// confidence (in the same integer unit as `p`) for multiplier k = k100/100 and max-confidence
/// fraction mc/u32::MAX; `p` may be any integer
fn gen_conf(sel: u16, pay: u64, p: &BigInt, k100: u32, mc: u64) -> BigInt {
    let p = if p.is_negative() { -p.clone() } else { p.clone() };
    // boundary of the 5 % cap:  k*c = p/20        => c = p*100/(20*k100)
    let cap_c = (&p * 100u32) / (20u32 * k100);
    // boundary of max confidence: k*c = p*mc/U32MAX => c = p*mc*100/(U32MAX*k100)
    let max_c = (&p * mc * 100u32) / (BigInt::from(U32MAX) * k100);
    let d = BigInt::from((pay % 5) as i64 - 2);
    let r = common::splitmix(pay);
    match wpick(sel, &[18, 8, 14, 12, 22, 10, 6, 5, 5]) {
        0 => (&p * (r % 2000)) / 1_000_000u32, // up to 0.2 % of the price
        1 => BigInt::zero(),
        2 => &cap_c + d,                       // on the cap boundary
        3 => {
            // between the cap and the max-confidence bound (or below both when max < cap)
            let (lo, hi) = if cap_c <= max_c { (cap_c.clone(), max_c.clone()) } else { (max_c.clone(), cap_c.clone()) };
            &lo + ((&hi - &lo) * (r % 1001)) / 1000u32
        }
        4 => &max_c + d,                       // on the max-confidence boundary
        5 => {
            // relative neighbourhood 1e-7 .. 1e-5 of the max-confidence boundary
            let eps = (&max_c * (1 + r % 100)) / 10_000_000u32;
            if pay & 1 == 0 {
                &max_c + eps
            } else {
                &max_c - eps
            }
        }
        6 => (&max_c * (1010 + r % 100_000)) / 1000u32, // beyond the maximum
        7 => BigInt::from(lu(pay, 1, 64)),               // unrelated to the price
        _ => BigInt::from(u64::MAX - (pay % 2)),
    }
}

fn build(raw: &Raw) -> Case {
    let (s, p) = raw;
    const KINDS: [(u8, u32); 13] = [
        (K_PYTH, 22),
        (K_SWB, 18),
        (K_STAKED, 10),
        (K_KAMINO_PYTH, 8),
        (K_KAMINO_SWB, 7),
        (K_DRIFT_PYTH, 8),
        (K_DRIFT_SWB, 6),
        (K_SOLEND_PYTH, 7),
        (K_SOLEND_SWB, 6),
        (K_FIXED, 4),
        (K_NONE, 1),
        (K_PYTH_LEGACY, 2),
        (K_SWB_V2, 2),
    ];
    let kw: Vec<u32> = KINDS.iter().map(|k| k.1).collect();
    let kind = KINDS[wpick(s[0], &kw)].0;
    let aux = aux_of(kind);

    // --- exponent
    let expo: i32 = match wpick(s[1], &[70, 12, 14, 4]) {
        0 => -((p[1] % 13) as i32),          // [-12, 0]
        1 => -13 - (p[1] % 6) as i32,        // [-18, -13]
        2 => 1 + (p[1] % 12) as i32,         // [1, 12]
        _ => [-19, -23, -24, 23, 24, 13, -30, 30][(p[1] % 8) as usize],
    };

    // --- configuration
    let max_conf: u32 = match wpick(s[2], &[30, 8, 10, 12, 12, 10, 10, 8]) {
        0 => 0,
        1 => 1,
        2 => 2 + (p[2] % 100_000) as u32,
        3 => 214_748_365u32.wrapping_add((p[2] % 5) as u32).wrapping_sub(2), // ~5 %
        4 => [429_496_730u32, 2_147_483_647, 858_993_459, 42_949_673][(p[2] % 4) as usize],
        5 => u32::MAX - (p[2] % 2) as u32,
        6 => lu(p[2], 1, 32) as u32,
        _ => 100_000_000 + (p[2] % 900_000_000) as u32, // 2 % .. 23 %
    };
    let mc = eff_max_conf(max_conf);
    let cfg_max_age: u16 = match wpick(s[3], &[25, 15, 15, 15, 12, 18]) {
        0 => 60,
        1 => 0,
        2 => 10,
        3 => 100,
        4 => u16::MAX,
        _ => (p[3] % 65536) as u16,
    };
    let explicit_max_age: Option<u64> = match wpick(s[4], &[70, 30]) {
        0 => None,
        _ => Some(match p[4] % 7 {
            0 => 0,
            1 => 10,
            2 => 60,
            3 => 100,
            4 => 65535,
            5 => (p[4] >> 8) % 100_000,
            _ => (p[4] >> 8) % 600,
        }),
    };
    let eff_age: i128 = match explicit_max_age {
        Some(a) => a as i128,
        None => {
            if cfg_max_age == 0 && kind == K_PYTH {
                60
            } else {
                cfg_max_age as i128
            }
        }
    };

    // --- time
    let now: i64 = match wpick(s[5], &[85, 15]) {
        0 => 1_600_000_000 + (p[5] % 400_000_000) as i64,
        _ => (p[5] % 100_000) as i64,
    };
    let slot: u64 = 1 + (common::splitmix(p[5]) % 400_000_000);
    let publish_time: i64 = match wpick(s[6], &[45, 20, 10, 10, 10, 5]) {
        0 => clamp_i64(now as i128 - (eff_age + (p[6] % 5) as i128 - 2)), // boundary -2..=2
        1 => clamp_i64(now as i128 - (p[6] as i128 % (eff_age + 1))),     // fresh
        2 => clamp_i64(now as i128 - (eff_age + 3 + (p[6] % 1000) as i128)), // stale
        3 => match p[6] % 4 {
            // far past
            0 => i64::MIN,
            1 => i64::MIN + (p[6] >> 2) as i64 % 1_000_000,
            2 => -((p[6] >> 2) as i64 & i64::MAX),
            _ => clamp_i64(now as i128 - (1i128 << (20 + (p[6] >> 2) % 43))),
        },
        4 => match p[6] % 3 {
            // future
            0 => i64::MAX,
            1 => clamp_i64(now as i128 + 1 + ((p[6] >> 2) % 100_000) as i128),
            _ => i64::MAX - ((p[6] >> 2) % 1_000_000) as i64,
        },
        _ => now,
    };

    // --- exchange-rate state (moderate; rounding/overflow of the rate math is C20)
    let decimals: u8 = [6u8, 9, 0, 8][(p[7] % 4) as usize];
    let unit = 10u128.pow(decimals as u32);
    let whole_a = 1_000 + (common::splitmix(p[7]) % 100_000_000) as u128; // 1e3 .. 1e8 whole tokens
    let whole_b = 1_000 + (common::splitmix(p[7] ^ 1) % 100_000_000) as u128;
    let liq_available: u64 = (whole_a * unit + (common::splitmix(p[7] ^ 2) as u128 % unit)) as u64;
    let frac_unit: u128 = if aux == Aux::Solend { 1_000_000_000_000_000_000 } else { 1u128 << 60 };
    let liq_borrowed: u128 = match wpick(s[7], &[70, 30]) {
        0 => whole_b * unit * frac_unit + (common::splitmix(p[7] ^ 3) as u128 % frac_unit),
        _ => 0,
    };
    let liq_fees: u128 = if liq_borrowed > 0 { liq_borrowed / (100 + (p[7] >> 3) as u128 % 10_000) } else { 0 };
    let total_native = liq_available as u128 + (liq_borrowed - liq_fees) / frac_unit;
    let col_supply: u64 = match wpick(s[8], &[30, 50, 20]) {
        0 => total_native as u64,                                                  // rate ~ 1
        1 => (total_native * 1000 / (1000 + (p[8] % 2000) as u128)) as u64,        // rate in [1, 3]
        _ => (total_native * (1000 + (p[8] % 1000) as u128) / 1000) as u64,        // rate in [0.5, 1]
    }
    .max(unit as u64);
    let drift_cum: u128 = match wpick(s[8], &[30, 50, 10, 10]) {
        0 => 10_000_000_000,
        1 => 10_000_000_000 + (p[8] as u128 % 20_000_000_000),
        2 => 10_000_000_001,
        _ => 5_000_000_000 + (p[8] as u128 % 95_000_000_000),
    };
    let lst_supply: u64 = match wpick(s[9], &[94, 3, 3]) {
        0 => 1_000_000_000 + (p[9] % 10_000_000_000_000_000),
        1 => 1 + p[9] % 1000,
        _ => 0,
    };
    let stake: u64 = match wpick(s[9].rotate_left(7), &[40, 50, 5, 5]) {
        0 => lst_supply.saturating_add(1_000_000_000),                                          // rate 1
        1 => ((lst_supply as u128 * (1000 + (p[9] >> 20) as u128 % 500) / 1000) as u64).saturating_add(1_000_000_000), // rate 1..1.5
        2 => 1_000_000_000,                                                                      // rate 0
        _ => p[9] % 1_000_000_000,                                                               // below the 1 SOL floor
    };

    // --- price / confidence
    let price = gen_price(s[10], p[10]);
    let ema_price: i64 = match wpick(s[11], &[35, 40, 25]) {
        0 => price,
        1 => {
            // within +-3 % of spot
            let d = (price as i128 * ((p[11] % 6001) as i128 - 3000)) / 100_000;
            clamp_i64(price as i128 + d)
        }
        _ => gen_price(s[11].rotate_left(5), p[11]),
    };
    // the confidence is compared with the (rate-adjusted) price; for Staked only the price is scaled
    let staked_scale = |x: i64| -> BigInt {
        if kind == K_STAKED && lst_supply > 0 && stake >= 1_000_000_000 {
            BigInt::from(x) * BigInt::from(stake - 1_000_000_000) / BigInt::from(lst_supply)
        } else {
            BigInt::from(x)
        }
    };
    let conf = clamp_u64(&gen_conf(s[12], p[12], &staked_scale(price), 212, mc));
    let ema_conf = match wpick(s[13], &[30, 70]) {
        0 => conf,
        _ => clamp_u64(&gen_conf(s[13].rotate_left(3), p[13], &staked_scale(ema_price), 212, mc)),
    };
    let partial_sigs: Option<u8> = match wpick(s[14], &[85, 15]) {
        0 => None,
        _ => Some([0u8, 1, 5, 13, 255][(p[14] % 5) as usize]),
    };

    // Switchboard: value = price * 10^(18+expo) (clamped), std from the same confidence modes
    let swb_value: i128 = {
        let e = 18 + expo.clamp(-18, 12);
        clamp_i128(&(BigInt::from(price) * BigInt::from(10u8).pow(e as u32)))
    };
    let swb_value = match wpick(s[10].rotate_left(9), &[90, 4, 3, 3]) {
        0 => swb_value,
        1 => (1i128 << 126) + (p[10] as i128), // does not fit I80F48
        2 => i128::MAX - (p[10] % 2) as i128,
        _ => i128::MIN + (p[10] % 2) as i128,
    };
    let swb_std: i128 = match wpick(s[12].rotate_left(11), &[94, 3, 3]) {
        0 => clamp_i128(&gen_conf(s[12], p[12], &BigInt::from(swb_value), 196, mc)),
        1 => -1 - (p[12] % 1000) as i128,
        _ => i128::MAX - (p[12] % 2) as i128,
    };

    // Fixed
    let fixed_bits: i128 = match wpick(s[10], &[60, 10, 10, 10, 10]) {
        0 => lu(p[10], 20, 100) as i128,
        1 => 0,
        2 => -(lu(p[10], 1, 100) as i128),
        3 => i128::MAX - (p[10] % 2) as i128,
        _ => lu(p[10], 1, 19) as i128,
    };

    // --- fault
    let fault: u8 = match wpick(s[15], &[58, 8, 7, 5, 6, 6, 4, 4, 2]) {
        0 => F_NONE,
        1 => F_KEY,
        2 => F_OWNER_ORACLE,
        3 => F_OWNER_AUX,
        4 => F_DISC,
        5 => F_TRUNC,
        6 => F_COUNT,
        7 => F_AUX_STALE,
        _ => F_SWAP,
    };
    // normalise faults that make no sense for the kind
    let fault = match (fault, aux, kind) {
        (F_NONE, _, _) => F_NONE,
        (_, _, K_FIXED) => {
            if fault == F_COUNT {
                F_COUNT
            } else {
                F_NONE
            }
        }
        (F_OWNER_AUX, Aux::None, _) => F_OWNER_ORACLE,
        (F_AUX_STALE, Aux::None | Aux::Staked, _) => F_KEY,
        (F_SWAP, Aux::None, _) => F_KEY,
        (f, _, _) => f,
    };
    let aux_off: i64 = if fault == F_AUX_STALE {
        -1 - (p[15] % 1000) as i64
    } else {
        [0i64, 0, 0, 1, 5][(p[15] % 5) as usize]
    };

    Case {
        kind,
        price,
        conf,
        ema_price,
        ema_conf,
        expo,
        partial_sigs,
        swb_value,
        swb_std,
        fixed_bits,
        now,
        slot,
        publish_time,
        cfg_max_age,
        explicit_max_age,
        max_conf,
        fault,
        fault_arg: (p[15] >> 16) as u16,
        liq_available,
        liq_borrowed,
        liq_fees,
        col_supply,
        decimals,
        drift_cum,
        stake,
        lst_supply,
        aux_off,
    }
}

fn raw_strategy() -> impl Strategy<Value = Raw> {
    (proptest::array::uniform16(any::<u16>()), proptest::array::uniform16(any::<u64>()))
}

// ------------------------------------------------------------------------------------------------
// Running the adapter
// ------------------------------------------------------------------------------------------------
#[derive(Clone, Debug)]
struct Acc {
    key: Pubkey,
    data: Vec<u8>,
    owner: Pubkey,
}

fn key_for(tag: u8, i: u8) -> Pubkey {
    let mut b = [0u8; 32];
    b[0] = 0xC9;
    b[1] = tag;
    b[2] = i;
    b[31] = 1;
    Pubkey::new_from_array(b)
}

/// Output of one adapter call set. Each entry is Some(bits) when the call returned Ok.
#[derive(Clone, Debug, Default)]
struct Out {
    built: bool,
    unb: [Option<i128>; 2],
    low: [Option<i128>; 2],
    high: [Option<i128>; 2],
    pc: [Option<(i128, i128)>; 2],
}
impl Out {
    fn any_price(&self) -> bool {
        (0..2).any(|t| self.unb[t].is_some() || self.low[t].is_some() || self.high[t].is_some() || self.pc[t].is_some())
    }
}

fn accounts_for(c: &Case) -> (Vec<Acc>, Vec<Pubkey>) {
    let mut accs: Vec<Acc> = vec![];
    let mk = |f: fab::Fab, i: u8| Acc { key: key_for(1, i), data: f.data, owner: f.owner };
    if c.kind == K_FIXED {
        return (accs, vec![]);
    }
    if is_pyth(c.kind) {
        accs.push(mk(fab::pyth_price_update(c.price, c.conf, c.ema_price, c.ema_conf, c.expo, c.publish_time, c.partial_sigs, [9u8; 32]), 0));
    } else if is_swb(c.kind) {
        accs.push(mk(fab::switchboard_pull_feed(c.swb_value, c.swb_std, c.publish_time), 0));
    }
    match aux_of(c.kind) {
        Aux::None => {}
        Aux::Kamino => accs.push(mk(
            fab::kamino_reserve(
                (c.slot as i128 + c.aux_off as i128).max(0) as u64,
                c.liq_available,
                c.liq_borrowed,
                c.liq_fees,
                0,
                0,
                c.col_supply,
                c.decimals as u64,
            ),
            1,
        )),
        Aux::Solend => accs.push(mk(
            fab::solend_reserve((c.slot as i128 + c.aux_off as i128).max(0) as u64, c.liq_available, c.liq_borrowed, c.liq_fees, c.col_supply, c.decimals),
            1,
        )),
        Aux::Drift => accs.push(mk(fab::drift_spot_market(c.drift_cum, (c.now as i128 + c.aux_off as i128).max(0) as u64, c.decimals as u32, 1), 1)),
        Aux::Staked => {
            accs.push(mk(fab::lst_mint(c.lst_supply), 1));
            accs.push(mk(fab::stake_account(c.stake), 2));
        }
    }
    let keys: Vec<Pubkey> = accs.iter().map(|a| a.key).collect();
    (accs, keys)
}

/// the reserve / spot market has not been refreshed in the current slot / second
fn aux_is_stale(c: &Case) -> bool {
    match aux_of(c.kind) {
        Aux::Kamino | Aux::Solend => ((c.slot as i128 + c.aux_off as i128).max(0) as u64) < c.slot,
        Aux::Drift => ((c.now as i128 + c.aux_off as i128).max(0) as i64) < c.now,
        _ => false,
    }
}

fn disc_len(c: &Case, i: usize) -> usize {
    if i == 1 && aux_of(c.kind) == Aux::Solend {
        1
    } else {
        8
    }
}

/// Applies the fault; returns false when the fault turned out to be a no-op (treated as no fault)
fn apply_fault(c: &Case, accs: &mut Vec<Acc>) -> bool {
    let n = accs.len();
    let arg = c.fault_arg as usize;
    match c.fault {
        F_NONE => false,
        F_KEY => {
            if n == 0 {
                return false;
            }
            let i = arg % n;
            accs[i].key = key_for(2, i as u8);
            true
        }
        F_OWNER_ORACLE => {
            if n == 0 {
                return false;
            }
            let choices = [
                solana_program::system_program::ID,
                marginfi::ID,
                marginfi::constants::PYTH_ID, // the mock/legacy id, not accepted by live builds
                if is_pyth(c.kind) { fab::switchboard_owner() } else { fab::pyth_owner() },
                key_for(3, 0),
                pyth_solana_receiver_sdk::PYTH_PUSH_ORACLE_ID,
            ];
            accs[0].owner = choices[arg % choices.len()];
            true
        }
        F_OWNER_AUX => {
            if n < 2 {
                return false;
            }
            // reserve / spot market / LST mint (the stake account's owner is not part of the check)
            let choices = [solana_program::system_program::ID, marginfi::ID, key_for(3, 1), spl_token_2022::ID, fab::pyth_owner()];
            let mut o = choices[arg % choices.len()];
            if o == accs[1].owner {
                o = key_for(3, 2);
            }
            accs[1].owner = o;
            true
        }
        F_DISC => {
            if n == 0 {
                return false;
            }
            // the stake account and the mint have no discriminator: corrupt accounts 0/1 only
            let cand: Vec<usize> = (0..n).filter(|i| !(aux_of(c.kind) == Aux::Staked && *i >= 1)).collect();
            let i = cand[arg % cand.len()];
            let dl = disc_len(c, i);
            let byte = (arg >> 4) % dl;
            let flip = 1u8 << ((arg >> 8) % 8);
            accs[i].data[byte] ^= flip;
            true
        }
        F_TRUNC => {
            if n == 0 {
                return false;
            }
            let i = arg % n;
            let full = accs[i].data.len();
            // minimal length that still holds the layout
            let need = if i == 0 && is_swb(c.kind) {
                8 + std::mem::size_of::<switchboard_on_demand::PullFeedAccountData>()
            } else if i == 2 {
                // stake account: tag + meta + stake + flags
                197
            } else {
                full
            };
            let len = match (arg >> 4) % 8 {
                0 => 0,
                1 => 4,
                2 => 7,
                3 => 8,
                4 => 9,
                5 => need / 2,
                6 => need - 1,
                _ => need - 1 - ((arg >> 7) % need.min(64)),
            };
            accs[i].data.truncate(len.min(need - 1));
            true
        }
        F_COUNT => {
            match arg % 3 {
                0 => {
                    if n == 0 {
                        accs.push(Acc { key: key_for(4, 0), data: vec![0u8; 16], owner: solana_program::system_program::ID });
                    } else {
                        accs.pop();
                    }
                }
                1 => {
                    let extra = accs.last().cloned().unwrap_or(Acc { key: key_for(4, 0), data: vec![0u8; 16], owner: solana_program::system_program::ID });
                    accs.push(extra);
                }
                _ => {
                    if n == 0 {
                        accs.push(Acc { key: key_for(4, 0), data: vec![], owner: marginfi::ID });
                    } else {
                        accs.clear();
                    }
                }
            }
            true
        }
        F_AUX_STALE => aux_is_stale(c),
        F_SWAP => {
            if n < 2 {
                return false;
            }
            let j = 1 + arg % (n - 1);
            accs.swap(0, j);
            true
        }
        _ => false,
    }
}

fn run_adapter(c: &Case, accs: &mut [Acc], keys: &[Pubkey]) -> Out {
    let bank = fab::pod_bank(setup_of(c.kind), keys, c.cfg_max_age, c.max_conf, c.fixed_bits);
    let clock = Clock { slot: c.slot, epoch_start_timestamp: 0, epoch: 0, leader_schedule_epoch: 0, unix_timestamp: c.now };
    TL_CLOCK.with(|k| *k.borrow_mut() = clock.clone());
    let mut lamports: Vec<u64> = accs.iter().map(|_| 1_000_000u64).collect();
    let mut out = Out::default();
    {
        let ais: Vec<AccountInfo> = accs
            .iter_mut()
            .zip(lamports.iter_mut())
            .map(|(a, l)| AccountInfo::new(&a.key, false, false, l, &mut a.data[..], &a.owner, false, 0))
            .collect();
        // the adapter wants `&'info [AccountInfo<'info>]`
        let ais_ref: &[AccountInfo] = unsafe { std::mem::transmute(&ais[..]) };
        let built = catch_unwind(AssertUnwindSafe(|| match c.explicit_max_age {
            None => OraclePriceFeedAdapter::try_from_bank(&bank, ais_ref, &clock),
            Some(a) => OraclePriceFeedAdapter::try_from_bank_with_max_age(&bank, ais_ref, &clock, a),
        }));
        if let Ok(Ok(ad)) = built {
            out.built = true;
            for (t, pt) in [OraclePriceType::RealTime, OraclePriceType::TimeWeighted].into_iter().enumerate() {
                let get = |b: Option<PriceBias>| -> Option<i128> {
                    match catch_unwind(AssertUnwindSafe(|| ad.get_price_of_type(pt, b, c.max_conf))) {
                        Ok(Ok(v)) => Some(v.to_bits()),
                        _ => None,
                    }
                };
                out.unb[t] = get(None);
                out.low[t] = get(Some(PriceBias::Low));
                out.high[t] = get(Some(PriceBias::High));
                out.pc[t] = match catch_unwind(AssertUnwindSafe(|| ad.get_price_and_confidence_of_type(pt, c.max_conf))) {
                    Ok(Ok(v)) => Some((v.price.to_bits(), v.confidence.to_bits())),
                    _ => None,
                };
            }
        }
    }
    out
}

// ------------------------------------------------------------------------------------------------
// The oracle
// ------------------------------------------------------------------------------------------------
fn two_pow(n: u32) -> Q {
    Q::from_integer(BigInt::from(1u8) << n)
}
fn pow10_signed(e: i32) -> Q {
    if e >= 0 {
        pow10(e as u32)
    } else {
        q_one() / pow10((-e) as u32)
    }
}

/// exact liquidity/collateral exchange rate of the fabricated reserve, None if undefined
fn exact_rate(c: &Case) -> Option<Q> {
    match aux_of(c.kind) {
        Aux::None => Some(q_one()),
        Aux::Kamino => {
            let liq = q_int(c.liq_available) + (q_int(c.liq_borrowed) - q_int(c.liq_fees)) / two_pow(60);
            if c.col_supply == 0 {
                None
            } else {
                Some(liq / q_int(c.col_supply))
            }
        }
        Aux::Solend => {
            let liq = q_int(c.liq_available) + (q_int(c.liq_borrowed) - q_int(c.liq_fees)) / pow10(18);
            if c.col_supply == 0 {
                None
            } else {
                Some(liq / q_int(c.col_supply))
            }
        }
        Aux::Drift => Some(q_int(c.drift_cum) / pow10(10)),
        Aux::Staked => {
            if c.lst_supply == 0 || c.stake < 1_000_000_000 {
                None
            } else {
                Some(q_int(c.stake - 1_000_000_000) / q_int(c.lst_supply))
            }
        }
    }
}

/// interval (in integer feed units) that contains the rate-adjusted integer the program works with
fn adjust_iv(x: &Q, rate: &Q, aux: Aux, is_conf: bool) -> Iv {
    match aux {
        Aux::None => Iv::point(x.clone()),
        Aux::Staked => {
            if is_conf {
                // the statement biases "by the reported confidence": not scaled for the Staked kind
                Iv::point(x.clone())
            } else {
                let y = x * rate;
                Iv::new(&y - q_one(), &y + q_one())
            }
        }
        Aux::Drift => {
            let y = x * rate;
            Iv::new(&y - q_one(), y)
        }
        Aux::Kamino | Aux::Solend => {
            // the program computes the ratio in I80F48 from supplies scaled by 10^decimals (>= 1 whole
            // token on both sides in this domain): relative error < 2^-40, then floors to an integer
            let y = x * rate;
            let rel = y.abs() / two_pow(40);
            Iv::new(&y - &rel - q_one(), &y + &rel)
        }
    }
}

struct Expect {
    p: Iv, // price in real units
    s: Iv, // k * sigma in real units
}

fn expect_for(c: &Case, t: usize, rate: &Q) -> Expect {
    let aux = aux_of(c.kind);
    if is_swb(c.kind) {
        let scale = pow10(18);
        let pi = adjust_iv(&q_int(c.swb_value), rate, aux, false);
        let si = adjust_iv(&q_int(c.swb_std), rate, aux, true);
        let k = q_ratio(196, 100);
        Expect { p: Iv::new(&pi.lo / &scale, &pi.hi / &scale), s: Iv::new(&si.lo * &k / &scale, &si.hi * &k / &scale) }
    } else {
        let (pr, cf) = if t == 0 { (c.price, c.conf) } else { (c.ema_price, c.ema_conf) };
        let scale = pow10_signed(c.expo);
        let pi = adjust_iv(&q_int(pr), rate, aux, false);
        let si = adjust_iv(&q_int(cf), rate, aux, true);
        let k = q_ratio(212, 100);
        Expect { p: Iv::new(&pi.lo * &scale, &pi.hi * &scale), s: Iv::new(q_max(&si.lo * &k * &scale, q_zero()), &si.hi * &k * &scale) }
    }
}

type Viol = (String, String);

fn age_of(c: &Case) -> i128 {
    c.now as i128 - c.publish_time as i128
}
fn eff_max_age(c: &Case) -> i128 {
    match c.explicit_max_age {
        Some(a) => a as i128,
        None => {
            if c.cfg_max_age == 0 && c.kind == K_PYTH {
                60 // documented default MAX_PYTH_ORACLE_AGE
            } else {
                c.cfg_max_age as i128
            }
        }
    }
}

/// Checks one case. Statistics go to `rep` when given.
fn check(c: &Case, mut rep: Option<&mut Report>) -> Result<(), Viol> {
    macro_rules! label {
        ($($a:tt)*) => { if let Some(r) = rep.as_deref_mut() { r.label(&format!($($a)*)); } };
    }
    let (mut accs, keys) = accounts_for(c);
    let faulted = apply_fault(c, &mut accs);
    let out = run_adapter(c, &mut accs, &keys);
    let kn = kind_name(c.kind);
    let mut nontrivial = false;

    // ---- reasons for which the statement forbids any price
    let age = age_of(c);
    let max_age = eff_max_age(c);
    let mut reason: Option<&'static str> = None;
    if is_deprecated(c.kind) {
        reason = Some("deprecated-kind");
    } else if faulted {
        reason = Some(fault_name(c.fault));
    } else if c.kind != K_FIXED && is_pyth(c.kind) && c.partial_sigs.is_some() {
        reason = Some("partial-verification");
    } else if c.kind != K_FIXED && age > max_age {
        reason = Some("stale");
    } else if aux_is_stale(c) {
        reason = Some("aux-stale");
    }
    if faulted || is_deprecated(c.kind) {
        nontrivial = true;
    }
    label!("kind:{kn}");
    if let Some(r) = reason {
        label!("must-reject:{r}");
        if out.any_price() {
            return Err((
                format!("adapter:accepted-{r}"),
                format!(
                    "{kn}: a price was returned although the feed is unusable ({r}); age={age} max_age={max_age} built={} unb={:?} low={:?}",
                    out.built, out.unb, out.low
                ),
            ));
        }
    }

    // ---- staleness boundary (clean feeds only)
    let clean = !faulted && !is_deprecated(c.kind) && c.kind != K_FIXED && !(is_pyth(c.kind) && c.partial_sigs.is_some());
    if clean {
        let d = age - max_age;
        if (-2..=2).contains(&d) {
            nontrivial = true;
            let fam = if is_swb(c.kind) { "swb" } else { "pyth" };
            label!("bnd:stale:{fam}:d={d}:{}", if out.built { "accepted" } else { "rejected" });
            label!("bnd:stale:{}", if out.built { "accepted" } else { "rejected" });
        } else if d > 2 {
            label!("age:stale");
        } else if age < 0 {
            label!("age:future:{}", if out.built { "accepted" } else { "rejected" });
        } else {
            label!("age:fresh");
        }
    }

    if reason.is_some() {
        if nontrivial {
            if let Some(r) = rep.as_deref_mut() {
                r.nontrivial_hash(common::fnv(format!("{c:?}").as_bytes()));
            }
        }
        return Ok(());
    }

    // ---- Fixed: the configured price, no confidence
    if c.kind == K_FIXED {
        for t in 0..2 {
            for (nm, v) in [("unbiased", out.unb[t]), ("low", out.low[t]), ("high", out.high[t]), ("pc.price", out.pc[t].map(|x| x.0))] {
                if let Some(v) = v {
                    if v != c.fixed_bits {
                        return Err(("adapter:price-value".into(), format!("Fixed: {nm} = {v} bits but the configured price is {} bits", c.fixed_bits)));
                    }
                    if c.fixed_bits <= 0 && v > 0 {
                        return Err(("adapter:nonpositive-became-positive".into(), format!("Fixed: {nm} = {v} bits from configured {}", c.fixed_bits)));
                    }
                }
            }
            if let Some((_, cf)) = out.pc[t] {
                if cf != 0 {
                    return Err(("adapter:bias-magnitude".into(), format!("Fixed: confidence {cf} bits, expected 0")));
                }
            }
        }
        label!("fixed:{}", if out.any_price() { "accepted" } else if c.fixed_bits < 0 { "rejected-negative" } else { "rejected" });
        return Ok(());
    }

    // ---- price/confidence expectations
    let rate = exact_rate(c);
    let expo_ok = is_swb(c.kind) || c.expo.abs() <= 23;
    let m = q_ratio(eff_max_conf(c.max_conf), U32MAX);
    for t in 0..2 {
        let tn = if t == 0 { "RealTime" } else { "TimeWeighted" };
        let (unb, low, high, pc) = (out.unb[t], out.low[t], out.high[t], out.pc[t]);

        // hard ordering on whatever was returned
        if let (Some(l), Some(u)) = (low, unb) {
            if l > u {
                return Err(("adapter:bias-direction".into(), format!("{kn}/{tn}: Low {} > unbiased {}", q_str(&q_bits(l)), q_str(&q_bits(u)))));
            }
        }
        if let (Some(h), Some(u)) = (high, unb) {
            if h < u {
                return Err(("adapter:bias-direction".into(), format!("{kn}/{tn}: High {} < unbiased {}", q_str(&q_bits(h)), q_str(&q_bits(u)))));
            }
        }
        if let (Some(l), Some(h)) = (low, high) {
            if l > h {
                return Err(("adapter:bias-direction".into(), format!("{kn}/{tn}: Low {} > High {}", q_str(&q_bits(l)), q_str(&q_bits(h)))));
            }
        }
        if let (Some((p, cf)), Some(u)) = (pc, unb) {
            if p != u || cf < 0 {
                return Err(("adapter:price-value".into(), format!("{kn}/{tn}: price_and_confidence = ({p}, {cf}) bits but unbiased = {u} bits")));
            }
        }

        let Some(rate) = rate.as_ref() else {
            label!("rate-undefined:{}", if out.any_price() { "accepted" } else { "rejected" });
            continue;
        };
        if !expo_ok {
            label!("extreme-expo:{}", if unb.is_some() { "accepted" } else { "rejected" });
            continue;
        }
        let e = expect_for(c, t, rate);
        // Switchboard i128 (1e18-scaled) values that do not fit the 80 integer bits of I80F48: the program
        // converts them with `I80F48::from_num`, which wraps when debug assertions are off (as on chain)
        let wraps = is_swb(c.kind) && {
            let lim = two_pow(79) / pow10(18);
            q_max(e.p.lo.abs(), e.p.hi.abs()) >= lim || e.s.hi.abs() / q_ratio(196, 100) >= lim
        };
        let sg = |base: &str| -> String {
            if wraps {
                "adapter:swb-i128-wraps".to_string()
            } else {
                base.to_string()
            }
        };
        let mag = q_max(e.p.lo.abs(), e.p.hi.abs()) + e.s.hi.abs();
        // <= 4 truncating I80F48 operations per quantity + representation error of the constants
        let tol = ulp() * q_int(8) + &mag / two_pow(45);

        // a non-positive oracle price never becomes positive
        if e.p.hi <= q_zero() {
            for (nm, v) in [("unbiased", unb), ("low", low), ("high", high)] {
                if let Some(v) = v {
                    if v > 0 {
                        return Err((
                            sg("adapter:nonpositive-became-positive"),
                            format!("{kn}/{tn}: oracle price {} <= 0 but {nm} = {}", q_str(&e.p.hi), q_str(&q_bits(v))),
                        ));
                    }
                }
            }
        }

        // unbiased value
        if let Some(u) = unb {
            let u = q_bits(u);
            if u < &e.p.lo - &tol || u > &e.p.hi + &tol {
                return Err((
                    sg("adapter:price-value"),
                    format!("{kn}/{tn}: unbiased {} outside [{}, {}] (+-{})", q_str(&u), q_str(&e.p.lo), q_str(&e.p.hi), q_str(&tol)),
                ));
            }
        }

        // confidence within the maximum?
        let bound_hi = &m * &e.p.hi;
        let bound_lo = &m * &e.p.lo;
        let conf_bad = e.s.lo > &bound_hi + &tol;
        let conf_good = e.s.hi <= bound_lo;
        let biased_any = low.is_some() || high.is_some() || pc.is_some();
        if conf_bad && biased_any {
            return Err((
                sg("adapter:accepted-conf"),
                format!(
                    "{kn}/{tn}: k*sigma = {} exceeds price*max_conf = {} (max_conf={}) but low={:?} high={:?} pc={:?}",
                    q_str(&e.s.lo),
                    q_str(&bound_hi),
                    c.max_conf,
                    low.map(|x| q_str(&q_bits(x))),
                    high.map(|x| q_str(&q_bits(x))),
                    pc.map(|x| q_str(&q_bits(x.1)))
                ),
            ));
        }
        if conf_bad && unb.is_some() && out.built {
            label!("note:unbiased-getter-ignores-confidence");
        }
        // confidence boundary: within a factor 1 +- 1e-6 (or +-2 integer confidence steps)
        if out.built && e.p.lo > q_zero() {
            let b = &m * &e.p.lo;
            let near = if b > q_zero() {
                let dev = (&e.s.lo - &b).abs();
                let step = if is_swb(c.kind) { q_ratio(196, 100) / pow10(18) } else { q_ratio(212, 100) * pow10_signed(c.expo) };
                dev <= &b / q_int(1_000_000) || dev <= step * q_int(2)
            } else {
                false
            };
            if near {
                nontrivial = true;
                label!("bnd:conf:{}", if low.is_some() { "accepted" } else { "rejected" });
                label!("bnd:conf:{}:{}", if is_swb(c.kind) { "swb" } else { "pyth" }, if low.is_some() { "accepted" } else { "rejected" });
            }
        }

        // bias magnitude
        let cap_lo = q_max(e.p.lo.clone(), q_zero()) / q_int(20);
        let cap_hi = q_max(e.p.hi.clone(), q_zero()) / q_int(20);
        let ci_lo = q_min(e.s.lo.clone(), cap_lo.clone()) - &tol;
        let ci_hi = q_min(e.s.hi.clone(), cap_hi.clone()) + &tol;
        if let Some(u) = unb {
            for (nm, v, sign) in [("Low", low, -1i32), ("High", high, 1)] {
                if let Some(v) = v {
                    let d = if sign < 0 { q_bits(u) - q_bits(v) } else { q_bits(v) - q_bits(u) };
                    if d < ci_lo || d > ci_hi {
                        return Err((
                            sg("adapter:bias-magnitude"),
                            format!(
                                "{kn}/{tn}: |{nm} - price| = {} but min(k*sigma, 5% price) is in [{}, {}] (price {}, k*sigma {}, tol {})",
                                q_str(&d),
                                q_str(&(&ci_lo + &tol)),
                                q_str(&(&ci_hi - &tol)),
                                q_str(&e.p.lo),
                                q_str(&e.s.lo),
                                q_str(&tol)
                            ),
                        ));
                    }
                }
            }
        }
        if let Some((_, cf)) = pc {
            let d = q_bits(cf);
            if d < ci_lo || d > ci_hi {
                return Err((
                    sg("adapter:bias-magnitude"),
                    format!("{kn}/{tn}: reported confidence {} but min(k*sigma, 5% price) is in [{}, {}]", q_str(&d), q_str(&(&ci_lo + &tol)), q_str(&(&ci_hi - &tol))),
                ));
            }
        }

        // classification
        if t == 0 {
            let class = if e.p.hi <= q_zero() {
                "price<=0"
            } else if conf_bad {
                "conf>max"
            } else if !conf_good {
                "conf~max"
            } else if e.s.lo > cap_hi {
                "cap<conf<=max"
            } else {
                "conf<=cap"
            };
            label!("feed:{class}:{}", if low.is_some() { "accepted" } else { "rejected" });
            if e.s.lo > cap_hi && low.is_some() {
                label!("capped-bias-observed");
            }
        } else if !is_swb(c.kind) && c.ema_price != c.price {
            label!("ema!=spot:{}", if unb.is_some() { "accepted" } else { "rejected" });
        }
        if conf_good && e.p.lo > q_zero() && (low.is_none() || high.is_none() || unb.is_none()) {
            label!("allowed-but-rejected:{kn}");
        }
    }
    if nontrivial {
        if let Some(r) = rep.as_deref_mut() {
            r.nontrivial_hash(common::fnv(format!("{c:?}").as_bytes()));
        }
    }
    Ok(())
}

// ------------------------------------------------------------------------------------------------
// Entry points
// ------------------------------------------------------------------------------------------------
const RULE: &str = "generated: every OracleSetup kind (Pyth push, Switchboard pull, Fixed, Staked, Kamino/Drift/Solend x Pyth/Switchboard, \
deprecated kinds) x price/EMA/conf/exponent over their integer ranges x publish_time = now - max_age + {-2..2}, fresh, stale, far past, future \
x max_age {0,10,60,100,65535,random; via bank config or explicit} x max_confidence {0,1,small,~5%,10%,50%,u32::MAX,random} x Pyth verification \
{Full, Partial n} x faults {substituted key, wrong owner (oracle / reserve), corrupted discriminator, truncated data, wrong account count, swapped \
order, stale reserve} x moderate exchange-rate states. NON-TRIVIAL = clean feed with age within +-2 s of max_age, or k*sigma within a factor \
1+-1e-6 (or 2 integer confidence steps) of price*max_conf, or any authenticity fault / deprecated kind; both outcomes must be seen on both boundaries";

fn with_stubs<T>(f: impl FnOnce() -> T) -> T {
    let old = program_stubs::set_syscall_stubs(Box::new(Stubs));
    let r = f();
    let _ = program_stubs::set_syscall_stubs(old);
    r
}

pub fn run(ctx: &Ctx) -> Report {
    let cases_per_worker: u32 = ctx.tier.pick(60_000, 4_000_000);
    let mut rep = with_stubs(|| {
        common::par_workers(ctx.threads, |w| {
            let mut rep = Report::new(RULE);
            let strat = raw_strategy();
            // every distinct violated clause is shrunk and reported once; the exploration then goes on
            let mut muted: std::collections::BTreeSet<String> = Default::default();
            let mut remaining = cases_per_worker;
            let mut round = 0u64;
            while remaining > 0 && round < 12 {
                let seed = ctx.seed_bytes(&format!("c09a/{round}"), w as u64);
                let outcome = common::run_prop(seed, remaining, &strat, |raw, counting| {
                    let case = build(raw);
                    let r = if counting {
                        rep.eval();
                        if rep.samples.len() < 2 && (case.fault != F_NONE || rep.evaluations % 7 == 3) {
                            rep.sample(case_json(&case));
                        }
                        check(&case, Some(&mut rep))
                    } else {
                        check(&case, None)
                    };
                    match r {
                        Ok(()) => Ok(()),
                        Err((s, _)) if muted.contains(&s) => {
                            if counting {
                                rep.label(&format!("again:{s}"));
                            }
                            Ok(())
                        }
                        Err((s, m)) => Err(format!("{s}|{m}")),
                    }
                });
                remaining = remaining.saturating_sub(outcome.cases_run as u32);
                round += 1;
                match outcome.failure {
                    Some((raw, msg)) => {
                        let case = build(&raw);
                        let (sig, m) = msg.split_once('|').map(|(a, b)| (a.to_string(), b.to_string())).unwrap_or(("adapter:unknown".into(), msg.clone()));
                        let at = rep.evaluations;
                        rep.violation(&sig, format!("{m} [worker {w}: found at case #{at}]"), case_json(&case));
                        muted.insert(sig);
                    }
                    None => break,
                }
            }
            rep
        })
    });
    rep.nontrivial_floor = ctx.tier.pick(300_000, 6_000_000);
    rep.assumptions = vec![
        "pure-function level: accounts are fabricated byte-for-byte (Anchor/bytemuck/SPL layouts) and passed as AccountInfo to the real marginfi adapter compiled natively with the default (mainnet-beta) features; panics count as rejections".into(),
        "max_confidence == 0 is read as the documented default U32_MAX_DIV_10/u32::MAX (\"10 %\"); for StakedWithPythPush the confidence is the reported (unscaled) one; exchange-rate states are moderate (>= 1000 whole tokens, rate in [0.5, 3]) because the rate arithmetic is property C20".into(),
        "get_price_of_type(.., None, ..) does not evaluate the confidence bound by design; the bound is asserted on the biased getters and on get_price_and_confidence_of_type, which are the only forms the program calls".into(),
    ];
    if rep.violations.is_empty() {
        for l in ["bnd:stale:accepted", "bnd:stale:rejected", "bnd:conf:accepted", "bnd:conf:rejected"] {
            if rep.labels.get(l).copied().unwrap_or(0) == 0 {
                rep.engine_errors.push(format!("boundary outcome never observed: {l}"));
            }
        }
    }
    // whether age == max_age is accepted (reported, not asserted)
    for fam in ["pyth", "swb"] {
        let a = rep.labels.get(&format!("bnd:stale:{fam}:d=0:accepted")).copied().unwrap_or(0);
        let r = rep.labels.get(&format!("bnd:stale:{fam}:d=0:rejected")).copied().unwrap_or(0);
        rep.extra.insert(format!("age_eq_max_age_{fam}"), json!(format!("accepted {a} / rejected {r}")));
    }
    rep
}

pub fn replay(_ctx: &Ctx, case: &Value) -> Report {
    let mut rep = Report::new(RULE);
    let Some(c) = case_from_json(case) else {
        rep.engine_errors.push("c09a: cannot parse replay case".into());
        return rep;
    };
    with_stubs(|| {
        rep.eval();
        if let Err((sig, msg)) = check(&c, None) {
            rep.violation(&sig, msg, case_json(&c));
        }
    });
    rep
}
