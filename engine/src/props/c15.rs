//! C15 — Emergency pause is bounded (PURE part: the real state-transition functions, no runtime).
//!
//! System under test (all real code, called directly):
//!   * `marginfi::state::panic_state::PanicStateImpl::{pause, unpause, unpause_if_expired}`
//!   * `marginfi_type_crate::types::PanicState::{can_pause, is_expired, is_paused_flag}`
//!   * `marginfi_type_crate::types::PanicStateCache::{update_from_panic_state, is_expired, is_paused_flag}`
//!   * `marginfi::state::marginfi_group::MarginfiGroupImpl::is_protocol_paused` (the gate every user
//!     instruction calls); it reads `Clock::get()`, so a clock-only syscall stub feeds it the model time.
//! Each instruction is modelled as the exact sequence of calls its handler makes (see `PureSys::apply`).
//!
//! Oracle: `Spec`, a monitor written from the property statement. It reads only the *observable*
//! pause schedule (flag, start) and the counters' movement, never the code's verdicts, and judges the
//! history with its own i128 arithmetic.
//!
//! Reusable for an instruction-level version: implement `PauseSystem` over the runtime and call
//! `check_history` with the same `Op` alphabet.
use crate::common::*;
use marginfi::state::marginfi_group::MarginfiGroupImpl;
use marginfi::state::panic_state::PanicStateImpl;
use marginfi_type_crate::types::{MarginfiGroup, PanicState, PanicStateCache};
use proptest::prelude::*;
use serde_json::{json, Value};
use std::cell::{Cell, RefCell};
use std::collections::HashSet;

// ------------------------------------------------------------------------------------------
// Constants of the STATEMENT (not imported from the code under test)
// ------------------------------------------------------------------------------------------
/// "each successful pause pushes the time until which the protocol is paused forward by at most 30 minutes"
pub const SPEC_PAUSE_SECS: i128 = 30 * 60;
/// "never scheduled to remain paused for more than 60 minutes beyond the present"
pub const SPEC_MAX_AHEAD_SECS: i128 = 60 * 60;
/// "daily counter resets, which are at least 24 hours apart"
pub const SPEC_DAY_SECS: i128 = 24 * 60 * 60;
/// "at most three pauses succeed between two daily counter resets"
pub const SPEC_MAX_PAUSES_PER_RESET: u32 = 3;

/// Wait durations around every threshold (and sums thereof reach the rest of the region graph).
pub const BOUNDARY_WAITS: [u64; 11] = [0, 1, 1799, 1800, 1801, 3599, 3600, 3601, 86399, 86400, 86401];

// ------------------------------------------------------------------------------------------
// Op alphabet
// ------------------------------------------------------------------------------------------
#[derive(Clone, Copy, Debug, PartialEq, Eq, Hash, PartialOrd, Ord)]
pub enum Op {
    /// `panic_pause` signed by the global fee admin
    Pause,
    /// `panic_unpause` signed by the global fee admin
    AdminUnpause,
    /// `panic_unpause_permissionless` (anyone)
    PermissionlessUnpause,
    /// `propagate_fee_state` to the (one) group (anyone)
    Propagate,
    /// the clock advances by this many seconds, nobody acts
    Wait(u64),
    /// instruction level only: another instruction the global fee admin may send that is NOT one of the pause
    /// instructions — `edit_global_fee_state` (0: same admin, fee parameters changed; 1: the admin key handed over to
    /// the admin's second key; 2: handed back) and `config_group_fee` (3). "Whatever the global fee admin does": the observed pause state is
    /// judged by the same clauses. The pure system ignores it.
    Other(u8),
}

impl Op {
    pub fn encode(&self) -> String {
        match self {
            Op::Pause => "P".into(),
            Op::AdminUnpause => "A".into(),
            Op::PermissionlessUnpause => "U".into(),
            Op::Propagate => "G".into(),
            Op::Wait(d) => format!("W{d}"),
            Op::Other(k) => format!("O{k}"),
        }
    }
    pub fn decode(s: &str) -> Option<Op> {
        match s {
            "P" => Some(Op::Pause),
            "A" => Some(Op::AdminUnpause),
            "U" => Some(Op::PermissionlessUnpause),
            "G" => Some(Op::Propagate),
            _ if s.starts_with('O') => s[1..].parse::<u8>().ok().map(Op::Other),
            _ => s.strip_prefix('W').and_then(|d| d.parse::<u64>().ok()).map(Op::Wait),
        }
    }
}

pub fn exhaustive_alphabet() -> Vec<Op> {
    let mut v = vec![Op::Pause, Op::AdminUnpause, Op::PermissionlessUnpause, Op::Propagate];
    v.extend(BOUNDARY_WAITS.iter().map(|d| Op::Wait(*d)));
    v
}

// ------------------------------------------------------------------------------------------
// What a checker may look at
// ------------------------------------------------------------------------------------------
/// The fee-state's panic state as stored (plain field reads, no verdict of the code).
#[derive(Clone, Copy, Debug, PartialEq, Eq, Default)]
pub struct Obs {
    pub flag: bool,
    pub start: i64,
    pub daily: u8,
    pub consec: u8,
    pub last_reset: i64,
}

impl Obs {
    /// The statement's "time until which the protocol is paused" (only meaningful when `flag`).
    /// When a pause is extended while active, the code moves `start` forward by 30 min (possibly into
    /// the future, see the field comment in the type crate); the protocol is then paused from now
    /// until `start + 30 min` without a gap, so `start + 30 min` is the scheduled end in every case.
    pub fn paused_until(&self) -> i128 {
        self.start as i128 + SPEC_PAUSE_SECS
    }
}

pub trait PauseSystem {
    /// current unix time of the system
    fn now(&self) -> i64;
    /// Execute one op. `true` = the instruction succeeded. A failed instruction MUST leave the
    /// state untouched (transaction atomicity). `Wait` always succeeds.
    fn apply(&mut self, op: Op) -> bool;
    /// fee-state panic state fields
    fn observe(&self) -> Obs;
    /// The gate user instructions evaluate: `is_protocol_paused()` on the group, whose cache is
    /// whatever was last propagated, at the current time.
    fn gate_group(&self) -> bool;
    /// The same question asked directly of the fee-state panic state: flag ∧ ¬is_expired(now).
    fn gate_fee_state(&self) -> bool;
}

// ------------------------------------------------------------------------------------------
// The real code, wired as the handlers wire it
// ------------------------------------------------------------------------------------------
thread_local! {
    static STUB_NOW: Cell<i64> = const { Cell::new(0) };
    static SCRATCH_GROUP: RefCell<Box<MarginfiGroup>> = RefCell::new(Box::new(bytemuck::Zeroable::zeroed()));
}

struct ClockOnlyStubs;
impl solana_program::program_stubs::SyscallStubs for ClockOnlyStubs {
    fn sol_get_clock_sysvar(&self, var_addr: *mut u8) -> u64 {
        let c = solana_program::clock::Clock { unix_timestamp: STUB_NOW.with(|n| n.get()), ..Default::default() };
        unsafe { std::ptr::write_unaligned(var_addr as *mut solana_program::clock::Clock, c) };
        0
    }
    fn sol_log(&self, _message: &str) {}
}

/// Installs the clock-only stub (once per process) and verifies `Clock::get()` sees the model time.
pub fn install_clock_stub() -> Result<(), String> {
    static ONCE: std::sync::Once = std::sync::Once::new();
    ONCE.call_once(|| {
        let _ = solana_program::program_stubs::set_syscall_stubs(Box::new(ClockOnlyStubs));
    });
    use solana_program::sysvar::Sysvar;
    for probe in [0i64, 1_234_567, i64::MAX / 2] {
        STUB_NOW.with(|n| n.set(probe));
        match solana_program::clock::Clock::get() {
            Ok(c) if c.unix_timestamp == probe => {}
            other => return Err(format!("clock stub not effective: probe {probe} -> {:?}", other.map(|c| c.unix_timestamp))),
        }
    }
    Ok(())
}

#[derive(Clone, Copy, Debug)]
pub struct PureSys {
    pub ps: PanicState,
    pub cache: PanicStateCache,
    pub now: i64,
}

impl PureSys {
    /// `init_global_fee_state` / group init leave both structs zeroed.
    pub fn new(t0: i64) -> Self {
        PureSys { ps: PanicState::default(), cache: PanicStateCache::default(), now: t0 }
    }
}

impl PauseSystem for PureSys {
    fn now(&self) -> i64 {
        self.now
    }

    fn apply(&mut self, op: Op) -> bool {
        let t = self.now;
        match op {
            // instructions/marginfi_group/panic_pause.rs, lines 8-14:
            //   let current_timestamp = Clock::get()?.unix_timestamp;
            //   fee_state.panic_state.unpause_if_expired(current_timestamp);
            //   fee_state.panic_state.pause(current_timestamp)?;
            // `?` aborts the transaction: account data is rolled back.
            Op::Pause => {
                let saved = self.ps;
                self.ps.unpause_if_expired(t);
                match self.ps.pause(t) {
                    Ok(()) => true,
                    Err(_) => {
                        self.ps = saved;
                        false
                    }
                }
            }
            // instructions/marginfi_group/panic_unpause.rs, lines 8-21:
            //   require!(fee_state.panic_state.is_paused_flag(), ProtocolNotPaused);
            //   fee_state.panic_state.unpause_if_expired(current_timestamp);
            //   if fee_state.panic_state.is_paused_flag() { fee_state.panic_state.unpause(); }
            Op::AdminUnpause => {
                if !self.ps.is_paused_flag() {
                    return false;
                }
                self.ps.unpause_if_expired(t);
                if self.ps.is_paused_flag() {
                    self.ps.unpause();
                }
                true
            }
            // instructions/marginfi_group/panic_unpause_permissionless.rs, lines 7-26:
            //   require!(fee_state.panic_state.is_paused_flag(), ProtocolNotPaused);
            //   require!(fee_state.panic_state.is_expired(current_timestamp), PauseLimitExceeded);
            //   fee_state.panic_state.unpause();
            Op::PermissionlessUnpause => {
                if !self.ps.is_paused_flag() {
                    return false;
                }
                if !self.ps.is_expired(t) {
                    return false;
                }
                self.ps.unpause();
                true
            }
            // instructions/marginfi_group/propagate_fee_state.rs, lines 32-34:
            //   group.panic_state_cache.update_from_panic_state(&fee_state.panic_state, clock.unix_timestamp);
            Op::Propagate => {
                self.cache.update_from_panic_state(&self.ps, t);
                true
            }
            Op::Wait(d) => {
                self.now = t.checked_add(d as i64).expect("model time overflow");
                true
            }
            Op::Other(_) => true,
        }
    }

    fn observe(&self) -> Obs {
        Obs {
            flag: (self.ps.pause_flags & 1) != 0,
            start: self.ps.pause_start_timestamp,
            daily: self.ps.daily_pause_count,
            consec: self.ps.consecutive_pause_count,
            last_reset: self.ps.last_daily_reset_timestamp,
        }
    }

    /// the REAL `MarginfiGroupImpl::is_protocol_paused` (state/marginfi_group.rs:168-174) on a group whose
    /// `panic_state_cache` is our cache; `Clock::get()` inside it is answered by the clock-only stub.
    fn gate_group(&self) -> bool {
        STUB_NOW.with(|n| n.set(self.now));
        SCRATCH_GROUP.with(|g| {
            let mut g = g.borrow_mut();
            g.panic_state_cache = self.cache;
            g.is_protocol_paused()
        })
    }

    /// same formula as marginfi_group.rs:172-173 applied to the fee-state's own panic state
    fn gate_fee_state(&self) -> bool {
        self.ps.is_paused_flag() && !self.ps.is_expired(self.now)
    }
}

// ------------------------------------------------------------------------------------------
// Spec: the statement's pause machine as a history monitor
// ------------------------------------------------------------------------------------------
#[derive(Clone, Debug)]
pub struct Fail {
    pub sig: &'static str,
    pub msg: String,
}

#[derive(Clone, Copy, Debug, Default)]
pub struct StepInfo {
    pub pause_ok: bool,
    pub pause_refused: bool,
    /// a successful pause while the previous one was still running
    pub extension: bool,
    /// a daily-counter reset was observed in this step
    pub reset: bool,
    /// gate queried within ±1 s of a scheduled expiry (fee state's or the cached one)
    pub gate_near_expiry: bool,
    pub gate_group_blocked: bool,
    pub gate_fee_blocked: bool,
    /// the group cache still holds a set flag whose time has run out, and the gate lets users through
    pub stale_cache_released: bool,
    pub unpause_ok: bool,
    /// informational only: the deterministic reference machine disagrees with the code
    pub ref_diverged: bool,
}

/// Deterministic reference machine (DESIGN.md Appendix C). Stricter than the statement (the statement
/// only gives upper bounds), therefore used ONLY for an informational divergence counter.
#[derive(Clone, Copy, Debug, PartialEq, Eq, Default)]
pub struct RefMachine {
    pub flag: bool,
    pub start: i128,
    pub daily: u32,
    pub consec: u32,
    pub last_reset: i128,
}

impl RefMachine {
    fn expire(&mut self, t: i128) {
        if self.flag && t >= self.start + SPEC_PAUSE_SECS {
            self.clear();
        }
    }
    fn clear(&mut self) {
        self.flag = false;
        self.start = 0;
        self.consec = 0;
    }
    fn apply(&mut self, op: Op, t: i128) -> bool {
        match op {
            Op::Pause => {
                let saved = *self;
                self.expire(t);
                if t - self.last_reset >= SPEC_DAY_SECS {
                    self.daily = 0;
                    self.last_reset = t;
                }
                if self.consec >= 2 || self.daily >= SPEC_MAX_PAUSES_PER_RESET {
                    *self = saved;
                    return false;
                }
                if self.flag {
                    self.start += SPEC_PAUSE_SECS;
                } else {
                    self.start = t;
                }
                self.flag = true;
                self.daily += 1;
                self.consec += 1;
                true
            }
            Op::AdminUnpause => {
                if !self.flag {
                    return false;
                }
                self.clear();
                true
            }
            Op::PermissionlessUnpause => {
                if !self.flag || t < self.start + SPEC_PAUSE_SECS {
                    return false;
                }
                self.clear();
                true
            }
            Op::Propagate | Op::Wait(_) | Op::Other(_) => true,
        }
    }
    fn matches(&self, o: &Obs) -> bool {
        self.flag == o.flag
            && self.start == o.start as i128
            && self.daily == o.daily as u32
            && self.consec == o.consec as u32
            && self.last_reset == o.last_reset as i128
    }
}

/// Optional bookkeeping for window statistics and the bookkeeping-free corollary of clause 3.
#[derive(Clone, Debug, Default)]
pub struct Windows {
    /// times of the last (up to) 7 successful pauses
    recent_pauses: Vec<i128>,
    /// disjoint, ordered intervals during which the fee-state schedule says "paused"
    sched: Vec<(i128, i128)>,
    /// disjoint, ordered intervals during which the group gate (cache snapshot) blocks users
    gate: Vec<(i128, i128)>,
}

fn push_interval(v: &mut Vec<(i128, i128)>, a: i128, b: i128) {
    if b <= a {
        return;
    }
    if let Some(last) = v.last_mut() {
        if last.1 >= a {
            if b > last.1 {
                last.1 = b;
            }
            return;
        }
    }
    v.push((a, b));
}

/// (max total covered seconds inside any window of `w` seconds, longest single interval)
pub fn window_stats(v: &[(i128, i128)], w: i128) -> (i128, i128) {
    let mut best = 0i128;
    let mut longest = 0i128;
    // the maximum is attained by a window that starts at the start of some interval
    for i in 0..v.len() {
        longest = longest.max(v[i].1 - v[i].0);
        let (lo, hi) = (v[i].0, v[i].0 + w);
        let mut s = 0i128;
        for iv in &v[i..] {
            if iv.0 >= hi {
                break;
            }
            s += iv.1.min(hi) - iv.0.max(lo);
        }
        best = best.max(s);
    }
    (best, longest)
}

#[derive(Clone, Debug)]
pub struct Spec {
    /// time and observation after the last step
    pub now: i128,
    pub prev: Obs,
    /// successful pauses since the last observed daily reset (or since the beginning)
    pub pauses_since_reset: u32,
    /// when the last daily reset was observed
    pub last_reset_at: Option<i128>,
    /// what the group was told at the last propagate: Some(paused_until) if the flag was set
    pub cache_until: Option<i128>,
    pub reference: RefMachine,
    pub windows: Option<Box<Windows>>,
}

impl Spec {
    pub fn new(now: i64, init: Obs, track_windows: bool) -> Spec {
        Spec {
            now: now as i128,
            prev: init,
            pauses_since_reset: 0,
            last_reset_at: None,
            cache_until: None,
            reference: RefMachine {
                flag: init.flag,
                start: init.start as i128,
                daily: init.daily as u32,
                consec: init.consec as u32,
                last_reset: init.last_reset as i128,
            },
            windows: if track_windows { Some(Box::default()) } else { None },
        }
    }

    /// Judge one step. `ok` = the instruction succeeded; `after`/`gate_*` are read after the op at
    /// time `now_after`.
    pub fn step(&mut self, op: Op, ok: bool, now_after: i64, after: Obs, gate_group: bool, gate_fee: bool) -> Result<StepInfo, Fail> {
        let mut info = self.step_transition(op, ok, now_after, after)?;
        self.check_gates(gate_group, gate_fee, &mut info)?;
        Ok(info)
    }

    /// Clauses 1, 2, 3, 5, 6: everything that is judged from (state before, op, outcome, state after).
    pub fn step_transition(&mut self, op: Op, ok: bool, now_after: i64, after: Obs) -> Result<StepInfo, Fail> {
        let before = self.prev;
        let t0 = self.now;
        let t = now_after as i128;
        let mut info = StepInfo::default();
        let until_b = before.paused_until();
        let active_b = before.flag && t0 < until_b;

        // blocked time during a wait (statistics only)
        if let (Op::Wait(_), Some(w)) = (op, self.windows.as_mut()) {
            if active_b {
                push_interval(&mut w.sched, t0, until_b.min(t));
            }
            if let Some(u) = self.cache_until {
                if t0 < u {
                    push_interval(&mut w.gate, t0, u.min(t));
                }
            }
        }

        match op {
            Op::Pause => {
                if ok {
                    info.pause_ok = true;
                    info.extension = active_b;
                    if after.flag {
                        // clause 1: a successful pause moves paused_until forward by at most 30 min,
                        // measured from where the protocol would otherwise have resumed (the old
                        // paused_until if that is still ahead, else the present).
                        let base = if before.flag { until_b.max(t) } else { t };
                        let until_a = after.paused_until();
                        if until_a - base > SPEC_PAUSE_SECS {
                            return Err(Fail {
                                sig: "pause-pushes-more-than-30min",
                                msg: format!(
                                    "successful pause at t={t}: paused_until moved to {until_a} = {} s beyond max(previous paused_until, now) = {base} (before {:?}, after {:?})",
                                    until_a - base, before, after
                                ),
                            });
                        }
                    }
                } else {
                    info.pause_refused = true;
                }
            }
            Op::AdminUnpause => {
                // clause 6
                if before.flag && !ok {
                    return Err(Fail {
                        sig: "admin-unpause-failed-while-flag-set",
                        msg: format!("admin unpause failed at t={t} although the pause flag was set ({:?})", before),
                    });
                }
            }
            Op::PermissionlessUnpause => {
                // clause 5
                let expired = t >= until_b;
                if before.flag && expired && !ok {
                    return Err(Fail {
                        sig: "permissionless-unpause-refused-after-expiry",
                        msg: format!("permissionless unpause failed at t={t} although the pause ran out at {until_b} ({:?})", before),
                    });
                }
                if ok && !(before.flag && expired) {
                    return Err(Fail {
                        sig: "permissionless-unpause-before-expiry",
                        msg: format!("permissionless unpause succeeded at t={t}; flag={} paused_until={until_b} ({:?})", before.flag, before),
                    });
                }
            }
            Op::Propagate => {
                if ok {
                    self.cache_until = if after.flag { Some(after.paused_until()) } else { None };
                }
            }
            Op::Wait(_) | Op::Other(_) => {}
        }
        if ok && matches!(op, Op::AdminUnpause | Op::PermissionlessUnpause) {
            info.unpause_ok = true;
            if after.flag {
                return Err(Fail {
                    sig: "unpause-did-not-clear",
                    msg: format!("{:?} succeeded at t={t} but the pause flag is still set ({:?})", op, after),
                });
            }
        }

        // clause 2: never scheduled more than 60 min beyond the present
        if after.flag {
            let ahead = after.paused_until() - t;
            if ahead > SPEC_MAX_AHEAD_SECS {
                return Err(Fail {
                    sig: "scheduled-more-than-60min-ahead",
                    msg: format!("after {:?} at t={t} the protocol is scheduled to stay paused until {} = now + {ahead} s ({:?})", op, after.paused_until(), after),
                });
            }
        }

        // clause 3: daily counter resets, observed from the counter / reset stamp movement
        let expected_daily = before.daily as u32 + if info.pause_ok { 1 } else { 0 };
        let reset_seen = after.last_reset != before.last_reset || (after.daily as u32) < expected_daily;
        if reset_seen {
            info.reset = true;
            if let Some(prev) = self.last_reset_at {
                if t - prev < SPEC_DAY_SECS {
                    return Err(Fail {
                        sig: "daily-resets-less-than-24h-apart",
                        msg: format!("daily counter reset observed at t={t}, only {} s after the previous one at {prev} (before {:?}, after {:?})", t - prev, before, after),
                    });
                }
            }
            self.last_reset_at = Some(t);
            self.pauses_since_reset = 0;
        }
        if info.pause_ok {
            self.pauses_since_reset += 1;
            if self.pauses_since_reset > SPEC_MAX_PAUSES_PER_RESET {
                return Err(Fail {
                    sig: "more-than-3-pauses-between-resets",
                    msg: format!(
                        "pause #{} since the last daily counter reset ({:?}) succeeded at t={t} (before {:?}, after {:?})",
                        self.pauses_since_reset, self.last_reset_at, before, after
                    ),
                });
            }
            if let Some(w) = self.windows.as_mut() {
                // corollary of clause 3 that needs no view of the counters: 7 successful pauses need
                // 3 counter periods, hence 2 resets ≥ 24 h apart in between.
                w.recent_pauses.push(t);
                if w.recent_pauses.len() > 7 {
                    w.recent_pauses.remove(0);
                }
                if w.recent_pauses.len() == 7 && t - w.recent_pauses[0] < SPEC_DAY_SECS {
                    return Err(Fail {
                        sig: "seven-pauses-within-24h",
                        msg: format!("7 successful pauses at {:?}: first and last are {} s apart", w.recent_pauses, t - w.recent_pauses[0]),
                    });
                }
            }
        }

        // informational: deterministic reference machine
        let ref_ok = self.reference.apply(op, t);
        info.ref_diverged = ref_ok != ok || !self.reference.matches(&after);

        self.prev = after;
        self.now = t;
        Ok(info)
    }

    /// Clause 4, judged from the state reached (`self.prev`, `self.now`, `self.cache_until`) and the
    /// two gate answers obtained in that state.
    pub fn check_gates(&self, gate_group: bool, gate_fee: bool, info: &mut StepInfo) -> Result<(), Fail> {
        let after = self.prev;
        let t = self.now;
        // clause 4: a pause that has run out does not block, whoever did or did not act
        let fee_sched_paused = after.flag && t < after.paused_until();
        if gate_fee && !fee_sched_paused {
            return Err(Fail {
                sig: "expired-pause-still-blocks:fee-state",
                msg: format!("at t={t} the fee-state panic state reports paused although flag={} paused_until={} ({:?})", after.flag, after.paused_until(), after),
            });
        }
        let cache_sched_paused = matches!(self.cache_until, Some(u) if t < u);
        if gate_group && !cache_sched_paused {
            return Err(Fail {
                sig: "expired-pause-still-blocks:group-cache",
                msg: format!("at t={t} the group's is_protocol_paused() blocks users although the last propagated pause ended at {:?}", self.cache_until),
            });
        }
        info.gate_group_blocked = gate_group;
        info.gate_fee_blocked = gate_fee;
        info.stale_cache_released = matches!(self.cache_until, Some(u) if t >= u) && !gate_group;
        info.gate_near_expiry = (after.flag && (t - after.paused_until()).abs() <= 1) || matches!(self.cache_until, Some(u) if (t - u).abs() <= 1);

        Ok(())
    }
}

#[derive(Clone, Copy, Debug, Default)]
pub struct HistoryStats {
    pub ops: u64,
    pub pauses_ok: u64,
    pub pauses_refused: u64,
    pub extensions: u64,
    pub resets: u64,
    pub unpauses_ok: u64,
    pub gate_near_expiry: u64,
    pub gate_group_blocked: u64,
    pub gate_fee_blocked: u64,
    pub stale_cache_released: u64,
    pub ref_divergences: u64,
    /// statistics over the history (only with track_windows): seconds
    pub max_sched_paused_in_24h: i128,
    pub max_gate_blocked_in_24h: i128,
    pub longest_sched_stretch: i128,
    pub longest_gate_stretch: i128,
}

impl HistoryStats {
    pub fn add(&mut self, i: &StepInfo) {
        self.ops += 1;
        self.pauses_ok += i.pause_ok as u64;
        self.pauses_refused += i.pause_refused as u64;
        self.extensions += i.extension as u64;
        self.resets += i.reset as u64;
        self.unpauses_ok += i.unpause_ok as u64;
        self.gate_near_expiry += i.gate_near_expiry as u64;
        self.gate_group_blocked += i.gate_group_blocked as u64;
        self.gate_fee_blocked += i.gate_fee_blocked as u64;
        self.stale_cache_released += i.stale_cache_released as u64;
        self.ref_divergences += i.ref_diverged as u64;
    }
    pub fn absorb(&mut self, o: &HistoryStats) {
        self.ops += o.ops;
        self.pauses_ok += o.pauses_ok;
        self.pauses_refused += o.pauses_refused;
        self.extensions += o.extensions;
        self.resets += o.resets;
        self.unpauses_ok += o.unpauses_ok;
        self.gate_near_expiry += o.gate_near_expiry;
        self.gate_group_blocked += o.gate_group_blocked;
        self.gate_fee_blocked += o.gate_fee_blocked;
        self.stale_cache_released += o.stale_cache_released;
        self.ref_divergences += o.ref_divergences;
        self.max_sched_paused_in_24h = self.max_sched_paused_in_24h.max(o.max_sched_paused_in_24h);
        self.max_gate_blocked_in_24h = self.max_gate_blocked_in_24h.max(o.max_gate_blocked_in_24h);
        self.longest_sched_stretch = self.longest_sched_stretch.max(o.longest_sched_stretch);
        self.longest_gate_stretch = self.longest_gate_stretch.max(o.longest_gate_stretch);
    }
    /// the stated non-trivial rule for one sequence
    pub fn nontrivial(&self) -> bool {
        (self.extensions >= 1 && self.resets >= 1) || self.gate_near_expiry >= 1
    }
}

pub struct HistoryResult {
    pub stats: HistoryStats,
    /// the concrete ops that were executed (including the failing one)
    pub executed: Vec<Op>,
    /// (index of the offending op, which clause)
    pub failure: Option<(usize, Fail)>,
}

/// Drive `sys` with ops produced by `next(sys, spec, index)` (None = stop) and judge every step.
pub fn check_history_with<S: PauseSystem, F: FnMut(&S, &Spec, usize) -> Option<Op>>(sys: &mut S, track_windows: bool, mut next: F) -> HistoryResult {
    let mut spec = Spec::new(sys.now(), sys.observe(), track_windows);
    let mut stats = HistoryStats::default();
    let mut executed = vec![];
    let mut failure = None;
    let mut i = 0usize;
    while let Some(op) = next(sys, &spec, i) {
        executed.push(op);
        let ok = sys.apply(op);
        match spec.step(op, ok, sys.now(), sys.observe(), sys.gate_group(), sys.gate_fee_state()) {
            Ok(info) => stats.add(&info),
            Err(f) => {
                failure = Some((i, f));
                break;
            }
        }
        i += 1;
    }
    if let Some(w) = spec.windows.as_ref() {
        let (a, b) = window_stats(&w.sched, SPEC_DAY_SECS);
        let (c, d) = window_stats(&w.gate, SPEC_DAY_SECS);
        stats.max_sched_paused_in_24h = a;
        stats.longest_sched_stretch = b;
        stats.max_gate_blocked_in_24h = c;
        stats.longest_gate_stretch = d;
    }
    HistoryResult { stats, executed, failure }
}

/// Judge a fixed op sequence.
pub fn check_history<S: PauseSystem>(sys: &mut S, ops: &[Op], track_windows: bool) -> HistoryResult {
    check_history_with(sys, track_windows, |_, _, i| ops.get(i).copied())
}

// ------------------------------------------------------------------------------------------
// replay encoding
// ------------------------------------------------------------------------------------------
fn case_json(t0: i64, ops: &[Op], part: &str) -> Value {
    json!({"part": part, "t0": t0.to_string(), "ops": ops.iter().map(|o| o.encode()).collect::<Vec<_>>()})
}

fn parse_case(case: &Value) -> Result<(i64, Vec<Op>), String> {
    let t0 = case["t0"].as_str().and_then(|s| s.parse::<i64>().ok()).or_else(|| case["t0"].as_i64()).ok_or("bad t0")?;
    let mut ops = vec![];
    for o in case["ops"].as_array().ok_or("bad ops")? {
        ops.push(o.as_str().and_then(Op::decode).ok_or_else(|| format!("bad op {o}"))?);
    }
    Ok((t0, ops))
}

// ------------------------------------------------------------------------------------------
// (a) exhaustive exploration of the boundary region graph
// ------------------------------------------------------------------------------------------
const MAX_DEPTH: usize = 64;
/// relative clocks further than this beyond the largest threshold they are compared with are merged
const SLACK: i128 = 3602;
/// cap on the number of hashes handed to the report's distinct-non-trivial set by this part
const NONTRIVIAL_HASH_CAP: usize = 1_000_000;

#[derive(Clone)]
struct Node {
    sys: PureSys,
    spec: Spec,
    /// op indices, two per byte
    path: [u8; MAX_DEPTH / 2],
    depth: u8,
    had_ext: bool,
    had_reset: bool,
}

impl Node {
    fn push_op(&mut self, oi: usize) {
        let d = self.depth as usize;
        self.path[d / 2] |= (oi as u8) << ((d % 2) * 4);
        self.depth += 1;
    }
    fn ops(&self, alphabet: &[Op]) -> Vec<Op> {
        (0..self.depth as usize).map(|d| alphabet[((self.path[d / 2] >> ((d % 2) * 4)) & 0xF) as usize]).collect()
    }
}

/// (fee panic state, group cache, monitor) relative to `now`, packed exactly into 123 bits. Clocks that
/// lie further in the past than every threshold they are compared with (+ SLACK) are merged; a value
/// that does not fit its field at the upper end is reported (`overflow`) and voids completeness.
type Key = u128;

fn node_key(n: &Node, overflow: &mut u64) -> Key {
    let now = n.sys.now as i128;
    let o = n.sys.observe();
    let mut k: u128 = 0;
    let mut put = |v: u128, bits: u32| {
        let max = (1u128 << bits) - 1;
        let v = if v > max {
            *overflow += 1;
            max
        } else {
            v
        };
        k = (k << bits) | v;
    };
    // None -> 0, Some(x) -> max(x, lo) - lo + 1
    let rel = |x: Option<i128>, lo: i128| -> u128 { x.map(|x| (x.max(lo) - lo + 1) as u128).unwrap_or(0) };
    // Some(age) -> min(age, hi) + 1 (ages are >= 0 because time never runs backwards)
    let age = |then: Option<i128>| -> u128 { then.map(|th| ((now - th).clamp(0, SPEC_DAY_SECS + SLACK) + 1) as u128).unwrap_or(0) };
    let cflag = (n.sys.cache.pause_flags & 1) != 0;
    put(o.flag as u128, 1);
    put(cflag as u128, 1);
    put(o.daily as u128, 8);
    put(o.consec as u128, 8);
    put(n.spec.pauses_since_reset as u128, 8);
    // a start stamp is only read while its flag is set (the code writes 0 on unpause)
    put(rel(o.flag.then_some(o.start as i128 - now), -(SPEC_PAUSE_SECS + SLACK)), 20);
    put(rel(cflag.then_some(n.sys.cache.pause_start_timestamp as i128 - now), -(SPEC_PAUSE_SECS + SLACK)), 20);
    put(age(Some(o.last_reset as i128)), 18);
    put(age(n.spec.last_reset_at), 18);
    put(rel(n.spec.cache_until.map(|u| u - now), -SLACK), 21);
    // (the reference machine only feeds an informational counter; it is not part of the state)
    k
}

fn key_hash(k: Key, tag: u64) -> u64 {
    let mut b = [0u8; 24];
    b[..16].copy_from_slice(&k.to_le_bytes());
    b[16..].copy_from_slice(&tag.to_le_bytes());
    fnv(&b)
}

struct Expansion {
    /// candidate new states: keys[i] belongs to succ[i]; near[i] = gate queried within 1 s of an expiry
    keys: Vec<Key>,
    near: Vec<bool>,
    succ: Vec<Node>,
    transitions: u64,
    key_overflow: u64,
    stats: HistoryStats,
    violations: Vec<(Vec<Op>, i64, Fail)>,
}

/// the visited set is split into shards by key so that it can be updated in parallel
struct Visited {
    shards: Vec<HashSet<Key>>,
}

impl Visited {
    fn shard_of(k: Key, n: usize) -> usize {
        let x = (k as u64) ^ ((k >> 64) as u64);
        ((x.wrapping_mul(0x9E37_79B9_7F4A_7C15) >> 33) as usize) % n
    }
    fn contains(&self, k: &Key) -> bool {
        self.shards[Self::shard_of(*k, self.shards.len())].contains(k)
    }
    fn len(&self) -> usize {
        self.shards.iter().map(|s| s.len()).sum()
    }
}

fn expand_chunk(chunk: &[Node], visited: &Visited, alphabet: &[Op]) -> Expansion {
    let mut e = Expansion { keys: vec![], near: vec![], succ: vec![], transitions: 0, key_overflow: 0, stats: HistoryStats::default(), violations: vec![] };
    // successors already known (globally before this level, or earlier in this chunk) are dropped here;
    // duplicates across chunks are dropped by the sequential merge
    let mut local: HashSet<Key> = HashSet::new();
    let fail = |e: &mut Expansion, c: &Node, f: Fail| {
        let ops = c.ops(alphabet);
        let waited: i64 = ops.iter().map(|o| if let Op::Wait(d) = o { *d as i64 } else { 0 }).sum();
        if e.violations.len() < 4 {
            e.violations.push((ops, c.sys.now - waited, f));
        }
    };
    for n in chunk {
        for (oi, op) in alphabet.iter().enumerate() {
            let mut c = n.clone();
            let ok = c.sys.apply(*op);
            c.push_op(oi);
            e.transitions += 1;
            // clauses 1,2,3,5,6 on every transition
            let mut info = match c.spec.step_transition(*op, ok, c.sys.now(), c.sys.observe()) {
                Ok(info) => info,
                Err(f) => {
                    fail(&mut e, &c, f);
                    continue;
                }
            };
            c.had_ext |= info.extension;
            c.had_reset |= info.reset;
            let k = node_key(&c, &mut e.key_overflow);
            if visited.contains(&k) || !local.insert(k) {
                e.stats.add(&info);
                continue;
            }
            // clause 4 is a function of the state reached (cache, fee state, now, what was last
            // propagated): the gates are queried once per distinct state
            if let Err(f) = c.spec.check_gates(c.sys.gate_group(), c.sys.gate_fee_state(), &mut info) {
                fail(&mut e, &c, f);
                continue;
            }
            e.stats.add(&info);
            e.keys.push(k);
            e.near.push(info.gate_near_expiry);
            e.succ.push(c);
        }
    }
    e
}

fn run_exhaustive(ctx: &Ctx, depth: usize, report: &mut Report) {
    let alphabet = exhaustive_alphabet();
    assert!(alphabet.len() <= 16 && depth <= MAX_DEPTH);
    // two roots: a fresh fee state at genesis-like time 0 (the zeroed reset stamp is "now") and at a
    // realistic time (the zeroed reset stamp is more than a day old). Every other offset between the
    // start time and the zeroed stamp is reached from root 0 by waiting.
    let roots = [0i64, 1_700_000_000];
    let nshards = ctx.threads.max(1);
    let mut visited = Visited { shards: (0..nshards).map(|_| HashSet::new()).collect() };
    let mut frontier: Vec<Node> = vec![];
    let mut key_overflow = 0u64;
    for t0 in roots {
        let sys = PureSys::new(t0);
        let spec = Spec::new(t0, sys.observe(), false);
        let n = Node { sys, spec, path: [0; MAX_DEPTH / 2], depth: 0, had_ext: false, had_reset: false };
        let k = node_key(&n, &mut key_overflow);
        if visited.shards[Visited::shard_of(k, nshards)].insert(k) {
            frontier.push(n);
        }
    }
    let mut stats = HistoryStats::default();
    let mut transitions = 0u64;
    let mut complete = true;
    let mut nontrivial_states = 0u64;
    let mut hashes_given = 0usize;
    let mut level_sizes = vec![frontier.len() as u64];
    for _level in 0..depth {
        if frontier.is_empty() {
            break;
        }
        let threads = ctx.threads.max(1);
        let chunk = frontier.len().div_ceil(threads).max(1);
        let chunks: Vec<&[Node]> = frontier.chunks(chunk).collect();
        let mut results: Vec<Option<Expansion>> = (0..chunks.len()).map(|_| None).collect();
        std::thread::scope(|s| {
            let hs: Vec<_> = chunks
                .iter()
                .map(|c| {
                    let alphabet = &alphabet;
                    let visited = &visited;
                    s.spawn(move || expand_chunk(c, visited, alphabet))
                })
                .collect();
            for (i, h) in hs.into_iter().enumerate() {
                results[i] = h.join().ok();
            }
        });
        let mut results: Vec<Expansion> = match results.into_iter().collect::<Option<Vec<_>>>() {
            Some(r) => r,
            None => {
                report.engine_errors.push("exhaustive worker panicked".into());
                complete = false;
                break;
            }
        };
        // phase B: every shard inserts its share of the candidates (in chunk order, then in-chunk
        // order, so the surviving duplicate is always the same one) and names the winners
        let mut winners: Vec<Vec<(u32, u32)>> = (0..nshards).map(|_| vec![]).collect();
        std::thread::scope(|s| {
            let hs: Vec<_> = visited
                .shards
                .iter_mut()
                .enumerate()
                .map(|(j, shard)| {
                    let results = &results;
                    s.spawn(move || {
                        let mut w = vec![];
                        for (ci, e) in results.iter().enumerate() {
                            for (i, k) in e.keys.iter().enumerate() {
                                if Visited::shard_of(*k, nshards) == j && shard.insert(*k) {
                                    w.push((ci as u32, i as u32));
                                }
                            }
                        }
                        w
                    })
                })
                .collect();
            for (j, h) in hs.into_iter().enumerate() {
                winners[j] = h.join().unwrap_or_default();
            }
        });
        let mut keep: Vec<Vec<bool>> = results.iter().map(|e| vec![false; e.keys.len()]).collect();
        for w in &winners {
            for (ci, i) in w {
                keep[*ci as usize][*i as usize] = true;
            }
        }
        // phase C: next frontier in deterministic order
        let mut next: Vec<Node> = Vec::with_capacity(winners.iter().map(|w| w.len()).sum());
        let mut violated = false;
        for (ci, e) in results.iter_mut().enumerate() {
            transitions += e.transitions;
            key_overflow += e.key_overflow;
            stats.absorb(&e.stats);
            for (ops, t0, f) in e.violations.drain(..) {
                violated = true;
                if !report.violations.iter().any(|v| v.signature == f.sig) {
                    report.violation(f.sig, format!("[exhaustive, t0={t0}, {} ops] {}", ops.len(), f.msg), case_json(t0, &ops, "exhaustive"));
                }
            }
            for (i, n) in e.succ.drain(..).enumerate() {
                if !keep[ci][i] {
                    continue;
                }
                if e.near[i] || (n.had_ext && n.had_reset) {
                    nontrivial_states += 1;
                    if hashes_given < NONTRIVIAL_HASH_CAP {
                        hashes_given += 1;
                        report.nontrivial_hash(key_hash(e.keys[i], 0xE5));
                    }
                }
                next.push(n);
            }
        }
        level_sizes.push(next.len() as u64);
        frontier = next;
        if violated {
            complete = false;
            break;
        }
    }
    let interesting: Vec<&Node> = frontier.iter().filter(|n| n.had_ext && n.had_reset).collect();
    for q in 1..=3 {
        let Some(n) = interesting.get(interesting.len() * q / 4) else { break };
        let ops = n.ops(&alphabet);
        let waited: i64 = ops.iter().map(|o| if let Op::Wait(d) = o { *d as i64 } else { 0 }).sum();
        report.sample(case_json(n.sys.now - waited, &ops, "exhaustive: discovery path of one deepest-level state"));
    }
    if key_overflow > 0 {
        complete = false;
        report.label_n("exh:state key field overflow (merging beyond the documented one)", key_overflow);
    }
    report.evaluations += transitions;
    report.add_extra("exhaustive_depth", depth as u64);
    report.add_extra("exhaustive_states", visited.len() as u64);
    report.add_extra("exhaustive_transitions", transitions);
    report.add_extra("exhaustive_nontrivial_states", nontrivial_states);
    report.extra.insert("exhaustive_new_states_per_level".into(), json!(level_sizes));
    report.extra.insert("exhaustive_complete_to_depth".into(), json!(complete));
    report.extra.insert("exhaustive_frontier_closed".into(), json!(frontier.is_empty()));
    report.label_n("exh:transitions", transitions);
    report.label_n("exh:pause_ok", stats.pauses_ok);
    report.label_n("exh:pause_refused", stats.pauses_refused);
    report.label_n("exh:extension", stats.extensions);
    report.label_n("exh:daily_reset", stats.resets);
    report.label_n("exh:unpause_ok", stats.unpauses_ok);
    report.label_n("exh:new state with gate query within 1s of expiry", stats.gate_near_expiry);
    report.label_n("exh:new state where the group gate blocks", stats.gate_group_blocked);
    report.label_n("exh:new state where a stale cached pause no longer blocks", stats.stale_cache_released);
    report.add_extra("ref_machine_divergences(info)", stats.ref_divergences);
    if complete {
        report.label(&format!("exhaustive part complete to depth {depth}"));
    }
}

// ------------------------------------------------------------------------------------------
// (b) random long sequences
// ------------------------------------------------------------------------------------------
/// Generator-level op: either concrete or aimed at a boundary of the CURRENT state (resolved to a
/// concrete `Wait` while the sequence runs; only concrete ops are reported / replayed).
#[derive(Clone, Copy, Debug)]
enum GenOp {
    Concrete(Op),
    /// wait until the fee-state pause's expiry + off
    ToExpiry(i64),
    /// wait until the cached pause's expiry + off
    ToCacheExpiry(i64),
    /// wait until 24 h after the stored daily reset stamp + off
    ToReset(i64),
}

fn decode_gen(kind: u8, arg: u32) -> GenOp {
    // kind is uniform in 0..100; low kinds are the "simple" end for shrinking
    match kind {
        0..=7 => GenOp::Concrete(Op::Wait((arg % 4000) as u64)),
        8..=19 => GenOp::Concrete(Op::Wait(BOUNDARY_WAITS[(arg as usize) % BOUNDARY_WAITS.len()])),
        20..=29 => GenOp::Concrete(Op::Wait((arg % 200_001) as u64)),
        30..=56 => GenOp::Concrete(Op::Pause),
        57..=63 => GenOp::Concrete(Op::AdminUnpause),
        64..=71 => GenOp::Concrete(Op::PermissionlessUnpause),
        72..=82 => GenOp::Concrete(Op::Propagate),
        83..=88 => GenOp::ToExpiry((arg % 3) as i64 - 1),
        89..=93 => GenOp::ToCacheExpiry((arg % 3) as i64 - 1),
        _ => GenOp::ToReset((arg % 3) as i64 - 1),
    }
}

fn resolve(g: GenOp, sys: &PureSys, spec: &Spec) -> Op {
    let now = sys.now as i128;
    let to = |target: i128| -> Op {
        let d = target - now;
        if (0..=200_000).contains(&d) {
            Op::Wait(d as u64)
        } else {
            Op::Wait(0)
        }
    };
    match g {
        GenOp::Concrete(op) => op,
        GenOp::ToExpiry(off) => {
            let o = sys.observe();
            if o.flag {
                to(o.paused_until() + off as i128)
            } else {
                Op::Wait(1)
            }
        }
        GenOp::ToCacheExpiry(off) => match spec.cache_until {
            Some(u) => to(u + off as i128),
            None => Op::Wait(1),
        },
        GenOp::ToReset(off) => to(sys.observe().last_reset as i128 + SPEC_DAY_SECS + off as i128),
    }
}

const T0_SPECIAL: [i64; 12] = [0, 1, 1799, 86_399, 86_400, 86_401, 1_700_000_000, i32::MAX as i64, i32::MAX as i64 + 1, u32::MAX as i64 + 1, 1 << 53, 1 << 62];

fn decode_t0(sel: u8, raw: u64) -> i64 {
    match sel % 4 {
        0 => T0_SPECIAL[(raw as usize) % T0_SPECIAL.len()],
        1 => (raw % 4_000_000_000) as i64,
        2 => 1_600_000_000 + (raw % 400_000_000) as i64,
        _ => (raw >> 2) as i64, // up to 2^62
    }
}

type RandCase = ((u8, u64), Vec<(u8, u32)>);

fn run_random_case(case: &RandCase) -> (i64, HistoryResult) {
    let t0 = decode_t0(case.0 .0, case.0 .1);
    let mut sys = PureSys::new(t0);
    let gens = &case.1;
    let r = check_history_with(&mut sys, true, |s, spec, i| gens.get(i).map(|(k, a)| resolve(decode_gen(*k, *a), s, spec)));
    (t0, r)
}

fn run_random(ctx: &Ctx, worker: usize, cases: u32, len_lo: usize, len_hi: usize) -> Report {
    let mut report = Report::new("");
    let strat = ((any::<u8>(), any::<u64>()), proptest::collection::vec((0u8..100, any::<u32>()), len_lo..=len_hi));
    let mut agg = HistoryStats::default();
    let mut samples = 0;
    let outcome = run_prop(ctx.seed_bytes("c15-random", worker as u64), cases, &strat, |case, counting| {
        let (t0, r) = run_random_case(case);
        if counting {
            report.eval();
            let s = &r.stats;
            agg.absorb(s);
            if s.extensions >= 1 && s.resets >= 1 {
                report.label("rnd:seq with extension and daily reset");
            }
            if s.gate_near_expiry >= 1 {
                report.label("rnd:seq with gate query within 1s of expiry");
            }
            if t0 >= (1 << 40) {
                report.label("rnd:start time >= 2^40");
            }
            if t0 < 86_400 {
                report.label("rnd:start time < 1 day");
            }
            if s.nontrivial() {
                let mut b = Vec::with_capacity(r.executed.len() * 9 + 8);
                b.extend_from_slice(&t0.to_le_bytes());
                for o in &r.executed {
                    match o {
                        Op::Pause => b.push(1),
                        Op::AdminUnpause => b.push(2),
                        Op::PermissionlessUnpause => b.push(3),
                        Op::Propagate => b.push(4),
                        Op::Wait(d) => {
                            b.push(5);
                            b.extend_from_slice(&d.to_le_bytes());
                        }
                        Op::Other(k) => {
                            b.push(6);
                            b.push(*k);
                        }
                    }
                }
                report.nontrivial_hash(fnv(&b));
            }
            if samples < 1 && worker == 0 {
                samples += 1;
                let head: Vec<Op> = r.executed.iter().take(40).copied().collect();
                report.sample(json!({"part": "random", "t0": t0.to_string(), "len": r.executed.len(), "first_40_ops": head.iter().map(|o| o.encode()).collect::<Vec<_>>(),
                    "pauses_ok": s.pauses_ok, "extensions": s.extensions, "resets": s.resets}));
            }
        }
        match r.failure {
            None => Ok(()),
            Some((i, f)) => Err(format!("{}|op#{i}: {}", f.sig, f.msg)),
        }
    });
    if let Some((case, _)) = outcome.failure {
        // re-run the shrunk case to get the concrete executed ops
        let (t0, r) = run_random_case(&case);
        if let Some((i, f)) = r.failure {
            report.violation(f.sig, format!("[random, t0={t0}, failing op #{i} of {}] {}", r.executed.len(), f.msg), case_json(t0, &r.executed, "random"));
        } else {
            report.engine_errors.push("shrunk random case did not reproduce".into());
        }
    }
    report.label_n("rnd:ops", agg.ops);
    report.label_n("rnd:pause_ok", agg.pauses_ok);
    report.label_n("rnd:pause_refused", agg.pauses_refused);
    report.label_n("rnd:extension", agg.extensions);
    report.label_n("rnd:daily_reset", agg.resets);
    report.label_n("rnd:unpause_ok", agg.unpauses_ok);
    report.label_n("rnd:gate_query_within_1s_of_expiry", agg.gate_near_expiry);
    report.label_n("rnd:gate_group_blocks", agg.gate_group_blocked);
    report.label_n("rnd:stale_cache_released", agg.stale_cache_released);
    report.add_extra("ref_machine_divergences(info)", agg.ref_divergences);
    report.set_max("max_scheduled_paused_secs_in_any_24h_window(observed)", agg.max_sched_paused_in_24h as f64);
    report.set_max("max_group_gate_blocked_secs_in_any_24h_window(observed)", agg.max_gate_blocked_in_24h as f64);
    report.set_max("longest_contiguous_scheduled_pause_secs(observed)", agg.longest_sched_stretch as f64);
    report.set_max("longest_contiguous_group_gate_block_secs(observed)", agg.longest_gate_stretch as f64);
    report
}

// ------------------------------------------------------------------------------------------
// entry points
// ------------------------------------------------------------------------------------------
const RULE: &str = "Real PanicState::{pause,unpause,unpause_if_expired,can_pause,is_expired}, PanicStateCache::{update_from_panic_state,is_expired} and \
MarginfiGroup::is_protocol_paused (clock-only syscall stub) driven as the four handlers drive them (failed instruction = rollback). \
(a) exhaustive: every sequence up to the stated depth over {pause, admin-unpause, permissionless-unpause, propagate, wait(d)} with d in \
{0,1,1799,1800,1801,3599,3600,3601,86399,86400,86401}, from a zeroed fee state at t0=0 and t0=1.7e9, pruned by hashing (fee panic state, group cache, monitor) \
relative to now (ages past every threshold+3602 s merged); evaluations = transitions. (b) proptest sequences of 1..=5000 (thorough 7000) ops, so that failures shrink to a few ops, with waits uniform in [0,200000], \
in [0,4000), from the boundary set, or aimed at expiry/cached expiry/daily-reset instant -1/0/+1, start time from {0,1,...,2^31,2^32,2^53,2^62} or uniform up to 2^62. \
After every op the history monitor `Spec` (written from the statement, own i128 arithmetic) checks the six clauses. \
Non-trivial: (a) distinct explored states whose discovery path has >=1 extension and >=1 daily reset, or where the gate is queried within 1 s of a scheduled expiry; \
(b) distinct sequences with >=1 extension and >=1 daily reset, or such a gate query.";

pub fn run(ctx: &Ctx) -> Report {
    let mut report = Report::new(RULE);
    report.assumptions = vec![
        "pure level: the state-transition functions are called directly in the order the four handlers call them (glue mirrored from panic_pause.rs:8-14, panic_unpause.rs:8-21, panic_unpause_permissionless.rs:7-26, propagate_fee_state.rs:32-34); signer/PDA constraints and the program entry point are not exercised here".to_string(),
        "a failed instruction leaves the fee state untouched (transaction atomicity is modelled by restoring the saved struct)".to_string(),
        "unix timestamps are non-negative, non-decreasing and below 2^62 + 8e8; one group (each group's cache is an independent copy)".to_string(),
        "exhaustive part: states are identified up to time translation, and clocks older than their largest threshold + 3602 s are merged".to_string(),
        "paused_until := pause_start_timestamp + 1800 whenever the flag is set (for an extended pause the start lies up to 30 min in the future and the protocol is paused from now to start+1800 without gap)".to_string(),
    ];
    report.nontrivial_floor = ctx.tier.pick(100_000, 500_000);
    if let Err(e) = install_clock_stub() {
        report.engine_errors.push(e);
        return report;
    }
    let depth = ctx.tier.pick(32, 48);
    run_exhaustive(ctx, depth, &mut report);
    if !report.violations.is_empty() {
        return report;
    }
    let (cases, lo, hi) = ctx.tier.pick((2000u32, 1usize, 5000usize), (40000u32, 1usize, 7000usize));
    let r = par_workers(ctx.threads, |w| run_random(ctx, w, cases, lo, hi));
    let exhaustive_flag = report.exhaustive;
    report.merge(r);
    report.exhaustive = exhaustive_flag;
    report
}

pub fn replay(_ctx: &Ctx, case: &Value) -> Report {
    let mut report = Report::new(RULE);
    if let Err(e) = install_clock_stub() {
        report.engine_errors.push(e);
        return report;
    }
    let (t0, ops) = match parse_case(case) {
        Ok(x) => x,
        Err(e) => {
            report.engine_errors.push(format!("bad replay case: {e}"));
            return report;
        }
    };
    let mut sys = PureSys::new(t0);
    let r = check_history(&mut sys, &ops, true);
    report.eval();
    if let Some((i, f)) = r.failure {
        report.violation(f.sig, format!("[replay, t0={t0}, failing op #{i} of {}] {}", ops.len(), f.msg), case_json(t0, &r.executed, "replay"));
    }
    report
}
