//! C16 (directed half): integration-position cap and tag mixing, reached through real
//! instructions only: the admin re-tags banks with configure_bank(asset_tag), positions in
//! integration-tagged banks are then opened by classic liquidation (the only non-venue path).
use crate::common::*;
use crate::monitors::is_integration_tag;
use crate::world::*;
use marginfi_type_crate::types::BankConfigOpt;
use proptest::prelude::*;
use serde::{Deserialize, Serialize};
use serde_json::{json, Value};

#[derive(Clone, Debug, Serialize, Deserialize)]
pub struct TagCase {
    pub n_collateral: u8,
    /// tag given to each collateral bank after the deposits (0 default, 1 SOL, 2 staked, 3 kamino, 4 drift, 5 solend)
    pub tags: Vec<u8>,
    pub order: Vec<u16>,
    pub decimals: u8,
    /// liquidator's own prior positions: number of default-tag deposits it already holds
    pub liquidator_prior: u8,
    /// Some(k): before step k the liquidator itself is made liquidatable for a moment and a third party seizes the
    /// WHOLE of one of its integration positions (the balance stays open with zero shares), then it recovers
    #[serde(default)]
    pub empty_at: Option<u8>,
}

pub fn case_strategy() -> impl Strategy<Value = TagCase> {
    (9u8..=12, prop::collection::vec(prop_oneof![6 => 3u8..=5, 1 => Just(0u8), 1 => Just(1u8), 1 => Just(2u8)], 12), prop::collection::vec(any::<u16>(), 14), prop_oneof![Just(6u8), Just(9u8), 0u8..=9], 0u8..3, prop_oneof![1 => Just(None), 2 => (4u8..14).prop_map(Some)])
        .prop_map(|(n_collateral, tags, order, decimals, liquidator_prior, empty_at)| TagCase { n_collateral, tags, order, decimals, liquidator_prior, empty_at })
}

#[derive(Default, Debug)]
pub struct Stats {
    pub built: bool,
    pub liquidations_ok: u64,
    pub refused_at_cap: u64,
    pub max_integration: usize,
    pub mix_refused: u64,
    pub emptied: u64,
}

pub fn run_case(c: &TagCase, stats: &mut Stats) -> Result<(), (String, String)> {
    let n = c.n_collateral as usize;
    let mut banks = vec![];
    for _ in 0..=(n + 1) {
        let mut b = BankSpec::default();
        b.decimals = c.decimals;
        b.oracle = OracleSpec::fixed(1_000_000, -6);
        b.aw_i = 800_000;
        b.aw_m = 900_000;
        b.lw_i = 1_200_000;
        b.lw_m = 1_100_000;
        banks.push(b);
    }
    let spec = WorldSpec { banks, n_users: 3, program_fees_enabled: false, ..WorldSpec::default() };
    let Ok(mut w) = World::build(&spec) else { return Ok(()) };
    let debt_bank = n;
    let lq_debt_bank = n + 1;
    let lender = w.users[0].clone();
    let le = w.users[1].clone();
    let lq = w.users[2].clone();
    let unit = 10u64.pow(c.decimals as u32);
    let ix = w.ix_deposit(lender.accts[0], lender.auth, debt_bank, lender.tokens[debt_bank], 1_000_000 * unit, None);
    if w.vm.exec(&ix).is_err() {
        return Ok(());
    }
    for bi in 0..n {
        let ix = w.ix_deposit(le.accts[0], le.auth, bi, le.tokens[bi], 1000 * unit, None);
        if w.vm.exec(&ix).is_err() {
            return Ok(());
        }
    }
    // borrow close to the limit: collateral 1000*n*0.8, liability weight 1.2
    let borrow = (1000 * n as u64 * 8 / 12) * unit * 98 / 100;
    let ix = w.ix_borrow(le.accts[0], le.auth, debt_bank, le.tokens[debt_bank], borrow);
    if w.vm.exec(&ix).is_err() {
        return Ok(());
    }
    // liquidator: funds in the debt bank (+ optionally prior default-tag deposits elsewhere)
    let ix = w.ix_deposit(lq.accts[0], lq.auth, debt_bank, lq.tokens[debt_bank], 500_000 * unit, None);
    if w.vm.exec(&ix).is_err() {
        return Ok(());
    }
    // the liquidator carries a small debt of its own in a further bank (funded by the lender), far from its limit
    let ix = w.ix_deposit(lender.accts[0], lender.auth, lq_debt_bank, lender.tokens[lq_debt_bank], 1_000_000 * unit, None);
    let _ = w.vm.exec(&ix);
    if c.empty_at.is_some() {
        let ix = w.ix_borrow(lq.accts[0], lq.auth, lq_debt_bank, lq.tokens[lq_debt_bank], 100_000 * unit);
        let _ = w.vm.exec(&ix);
    }
    // re-tag the collateral banks through the real admin instruction
    for bi in 0..n {
        let mut o = BankConfigOpt::default();
        o.asset_tag = Some(c.tags[bi]);
        let ix = w.ix_configure_bank(bi, o, w.roles.admin);
        if w.vm.exec(&ix).is_err() {
            return Ok(());
        }
    }
    // make the liquidatee unhealthy: debt price up 40 %
    let _ = w.set_price(debt_bank, 1_400_000, 0, 1_400_000, 0);
    stats.built = true;
    // liquidate a little collateral from the banks in the generated order
    for k in 0..c.order.len() {
        if c.empty_at == Some(k as u8) {
            // the liquidator's own debt becomes 10x dearer for a moment: a third party (the lender) seizes the whole
            // of one of its integration positions; the balance stays open with zero shares; then the price returns
            let acct = w.macct(&lq.accts[0]);
            let target = acct.lending_account.balances.iter().find(|b| b.active != 0 && is_integration_tag(b.bank_asset_tag)).map(|b| b.bank_pk);
            if let Some(bk) = target.and_then(|k| w.bank_index(&k)) {
                let _ = w.set_price(lq_debt_bank, 10_000_000, 0, 10_000_000, 0);
                let held = {
                    let b = w.bank(bk);
                    let bal = acct.lending_account.balances.iter().find(|x| x.active != 0 && x.bank_pk == w.banks[bk].key).unwrap();
                    let v = fixed::types::I80F48::from(bal.asset_shares) * fixed::types::I80F48::from(b.asset_share_value);
                    v.to_num::<u64>()
                };
                let ix = w.ix_liquidate(lender.accts[0], lender.auth, lq.accts[0], bk, lq_debt_bank, held);
                if held > 0 && w.vm.exec(&ix).is_ok() {
                    let after = w.macct(&lq.accts[0]);
                    if after.lending_account.balances.iter().any(|x| x.active != 0 && x.bank_pk == w.banks[bk].key && fixed::types::I80F48::from(x.asset_shares) < fixed::types::I80F48::from_num(1)) {
                        stats.emptied += 1;
                    }
                }
                let _ = w.set_price(lq_debt_bank, 1_000_000, 0, 1_000_000, 0);
            }
        }
        let bi = idx(c.order[k], n);
        let pre = w.macct(&lq.accts[0]);
        let pre_int = pre.lending_account.balances.iter().filter(|b| b.active != 0 && is_integration_tag(b.bank_asset_tag)).count();
        let had = pre.lending_account.balances.iter().any(|b| b.active != 0 && b.bank_pk == w.banks[bi].key);
        let ix = w.ix_liquidate(lq.accts[0], lq.auth, le.accts[0], bi, debt_bank, unit);
        let ok = w.vm.exec(&ix).is_ok();
        let post = w.macct(&lq.accts[0]);
        let tags: Vec<u8> = post.lending_account.balances.iter().filter(|b| b.active != 0).map(|b| b.bank_asset_tag).collect();
        let n_int = tags.iter().filter(|t| is_integration_tag(**t)).count();
        stats.max_integration = stats.max_integration.max(n_int);
        if ok {
            stats.liquidations_ok += 1;
            if n_int > 8 {
                return Err(("structure:integration-count".into(), format!("liquidator holds {n_int} integration positions after liquidating bank #{bi} (tag {})", c.tags[bi])));
            }
            let staked = tags.iter().any(|t| *t == 2);
            let default_like = tags.iter().any(|t| matches!(*t, 0 | 3 | 4 | 5));
            if staked && default_like {
                return Err(("structure:tag-mix".into(), format!("liquidator mixes staked and default-class positions after liquidating bank #{bi} (tags {:?})", tags)));
            }
            if tags.len() > 16 {
                return Err(("structure:count".into(), format!("{} positions", tags.len())));
            }
        } else if !had && is_integration_tag(c.tags[bi]) && pre_int >= 8 {
            stats.refused_at_cap += 1;
        } else if !had {
            stats.mix_refused += 1;
        }
    }
    Ok(())
}

pub const RULE: &str = "directed: 11-14 fixed-oracle banks; a liquidatee deposits in 9-12 of them and borrows near its limit; the group admin then re-tags those banks through configure_bank(asset_tag) with generated tags (mostly Kamino/Drift/Solend, some default/SOL/staked); the debt price is raised and a funded liquidator seizes one unit from the banks in a generated order (classic liquidation is the only non-venue path that opens integration-tagged positions). In two thirds of the cases the liquidator also carries a debt of its own and, at a generated step, is made liquidatable for a moment so that a third party seizes the WHOLE of one of its integration positions (the balance stays open with zero shares) before its price recovers. After every successful liquidation: <= 8 integration positions, no staked + default-class mix, <= 16 positions. Non-trivial = case in which the liquidator reached 8 integration positions and a further new integration position was refused.";

pub fn run(ctx: &Ctx) -> Report {
    let cases: u32 = ctx.tier.pick(300, 15_000);
    par_workers(ctx.threads, |wi| {
        let mut rep = Report::new(RULE);
        let strat = case_strategy();
        let outcome = run_prop(ctx.seed_bytes("c16b", wi as u64), cases, &strat, |c, counting| {
            let mut st = Stats::default();
            let r = run_case(c, &mut st);
            if counting {
                rep.eval();
                rep.add_extra("directed_liquidations_ok", st.liquidations_ok);
                rep.add_extra("directed_refused_at_integration_cap", st.refused_at_cap);
                rep.add_extra("directed_integration_position_emptied_by_liquidation", st.emptied);
                rep.set_max("max_integration_positions_in_one_account", st.max_integration as f64);
                if st.max_integration >= 8 && st.refused_at_cap > 0 {
                    rep.nontrivial_case(&json!({"t": c.tags, "o": c.order, "n": c.n_collateral}));
                    if rep.samples.len() < 1 {
                        rep.sample(json!({"directed_integration_cap": {"tags": c.tags, "collateral_banks": c.n_collateral, "refused_at_cap": st.refused_at_cap}}));
                    }
                }
            }
            r.map_err(|(s, m)| format!("{s}|{m}"))
        });
        if let Some((c, msg)) = outcome.failure {
            let (sig, m) = msg.split_once('|').map(|(a, b)| (a.to_string(), b.to_string())).unwrap_or((msg.clone(), msg.clone()));
            let mut v = serde_json::to_value(&c).unwrap();
            v["half"] = json!("c16b");
            rep.violation(&sig, m, v);
        }
        rep
    })
}

pub fn replay(_ctx: &Ctx, case: &Value) -> Report {
    let mut rep = Report::new(RULE);
    rep.nontrivial_floor = 0;
    match serde_json::from_value::<TagCase>(case.clone()) {
        Ok(c) => {
            let mut st = Stats::default();
            rep.eval();
            if let Err((sig, msg)) = run_case(&c, &mut st) {
                rep.violation(&sig, msg, case.clone());
            }
        }
        Err(e) => rep.engine_errors.push(format!("bad replay: {e}")),
    }
    rep
}
